(* Per-operator theorems, part C: reduce, sum, min, max, count, sum_and_count, contains,
   default_if_empty, materialize, dematerialize. *)
From Coq Require Import List ZArith Bool Arith Lia.
From RX Require Import Val Syntax Step Spec Loc.
From RXP Require Import LocBase.
Import ListNotations.

(* ---------------------------------------------------------------- the "fold, then emit on complete" family *)
(* the accumulator after folding xs into an optional start value *)
Definition fold_from (g : val -> val -> val) (acc : option val) (xs : list val) : option val :=
  match acc with Some a => Some (fold_left g xs a) | None => fold1 g xs end.

Lemma fold_from_cons g acc x xs :
  fold_from g (Some match acc with Some a => g a x | None => x end) xs = fold_from g acc (x :: xs).
Proof. destruct acc; reflexivity. Qed.

Lemma fold_step op g st x :
  (forall st x, handler op PNever [] st 0 0 0 (Nx x) = (fold_acc g st x, [])) ->
  loc_step op (live st) (Nx x) = (live (fold_acc g st x), []).
Proof. intro HN. unfold loc_step, live; cbn [l_up l_st]. rewrite HN. reflexivity. Qed.

Lemma fold_ending op st en :
  (forall st e, handler op PNever [] st 0 0 0 (Er e) = (st, [SinkError e])) ->
  (forall st, handler op PNever [] st 0 0 0 Co = (st, emit_acc_then_complete st 0)) ->
  snd (loc_feed op (live st) (ending_evs en)) = events (when_complete en (opt_list (st_acc st))).
Proof.
  intros HE HC. destruct en as [|e|]; cbn [ending_evs loc_feed when_complete].
  - unfold loc_step, live; cbn [l_up l_st]. rewrite HC. unfold emit_acc_then_complete.
    destruct (st_acc st) as [a|]; reflexivity.
  - rewrite (step_dflt_err _ _ _ (HE st e)). reflexivity.
  - reflexivity.
Qed.

Lemma fold_feed op g en :
  (forall st x, handler op PNever [] st 0 0 0 (Nx x) = (fold_acc g st x, [])) ->
  (forall st e, handler op PNever [] st 0 0 0 (Er e) = (st, [SinkError e])) ->
  (forall st, handler op PNever [] st 0 0 0 Co = (st, emit_acc_then_complete st 0)) ->
  forall xs st,
  snd (loc_feed op (live st) (map Nx xs ++ ending_evs en)) =
  events (when_complete en (opt_list (fold_from g (st_acc st) xs))).
Proof.
  intros HN HE HC. induction xs as [|x xs IH]; intros st.
  - cbn [map app]. rewrite (fold_ending op st en HE HC).
    destruct (st_acc st) as [a|]; reflexivity.
  - cbn [map app]. rewrite feed_cons_snd, (fold_step op g st x HN). cbn [fst snd app].
    rewrite IH. unfold fold_acc; cbn [st_acc st_set_acc]. now rewrite fold_from_cons.
Qed.

Lemma fold_correct op g xs en :
  init_state op [] = st0 ->
  (forall st x, handler op PNever [] st 0 0 0 (Nx x) = (fold_acc g st x, [])) ->
  (forall st e, handler op PNever [] st 0 0 0 (Er e) = (st, [SinkError e])) ->
  (forall st, handler op PNever [] st 0 0 0 Co = (st, emit_acc_then_complete st 0)) ->
  loc_run op (events (xs, en)) = events (when_complete en (opt_list (fold1 g xs))).
Proof.
  intros HI HN HE HC. unfold loc_run. rewrite lst0_live, events_eq, HI.
  rewrite (fold_feed op g en HN HE HC). reflexivity.
Qed.

(* ---------------------------------------------------------------- reduce *)
Theorem loc_reduce_correct f i : loc_run (OReduce f) (events i) = events (spec_op (OReduce f) i).
Proof. destruct i as [xs en]. cbn [spec_op]. apply fold_correct; reflexivity. Qed.

(* ---------------------------------------------------------------- sum *)
Theorem loc_sum_correct i : loc_run OSum (events i) = events (spec_op OSum i).
Proof. destruct i as [xs en]. cbn [spec_op]. apply fold_correct; reflexivity. Qed.

(* ---------------------------------------------------------------- min *)
Theorem loc_min_correct i : loc_run OMin (events i) = events (spec_op OMin i).
Proof. destruct i as [xs en]. cbn [spec_op]. apply fold_correct; reflexivity. Qed.

(* ---------------------------------------------------------------- max *)
Theorem loc_max_correct i : loc_run OMax (events i) = events (spec_op OMax i).
Proof. destruct i as [xs en]. cbn [spec_op]. apply fold_correct; reflexivity. Qed.

(* ---------------------------------------------------------------- count *)
Lemma count_step st x :
  loc_step OCount (live st) (Nx x) = (live (st_set_cnt st (S (st_cnt st))), []).
Proof. reflexivity. Qed.

Lemma count_feed en : forall xs st,
  snd (loc_feed OCount (live st) (map Nx xs ++ ending_evs en)) =
  events (when_complete en [VInt (Z.of_nat (st_cnt st + length xs))]).
Proof.
  induction xs as [|x xs IH]; intros st.
  - cbn [map app length]. rewrite Nat.add_0_r.
    destruct en as [|e|]; reflexivity.
  - cbn [map app length]. rewrite feed_cons_snd, count_step. cbn [fst snd app].
    rewrite IH. cbn [st_cnt st_set_cnt]. now rewrite Nat.add_succ_r.
Qed.

Theorem loc_count_correct i : loc_run OCount (events i) = events (spec_op OCount i).
Proof.
  destruct i as [xs en]. unfold loc_run. rewrite lst0_live, events_eq. cbn [spec_op init_state].
  rewrite count_feed. reflexivity.
Qed.

(* ---------------------------------------------------------------- sum_and_count *)
Definition sac_out (acc : option val) (n : nat) : list val :=
  match acc with Some s => [VList [s; VInt (Z.of_nat n)]] | None => [] end.

Lemma sac_step st x :
  loc_step OSumAndCount (live st) (Nx x) = (live (st_set_cnt (fold_acc val_add st x) (S (st_cnt st))), []).
Proof. reflexivity. Qed.

Lemma sac_ending st en :
  snd (loc_feed OSumAndCount (live st) (ending_evs en)) =
  events (when_complete en (sac_out (st_acc st) (st_cnt st))).
Proof.
  destruct en as [|e|]; cbn [ending_evs loc_feed when_complete].
  - unfold loc_step, live; cbn [l_up l_st handler]. unfold sac_out.
    destruct (st_acc st) as [a|]; reflexivity.
  - reflexivity.
  - reflexivity.
Qed.

Lemma sac_feed en : forall xs st,
  snd (loc_feed OSumAndCount (live st) (map Nx xs ++ ending_evs en)) =
  events (when_complete en (sac_out (fold_from val_add (st_acc st) xs) (st_cnt st + length xs))).
Proof.
  induction xs as [|x xs IH]; intros st.
  - cbn [map app length]. rewrite Nat.add_0_r, sac_ending.
    destruct (st_acc st) as [a|]; reflexivity.
  - cbn [map app length]. rewrite feed_cons_snd, sac_step. cbn [fst snd app].
    rewrite IH. unfold fold_acc; cbn [st_cnt st_acc st_set_cnt st_set_acc].
    now rewrite fold_from_cons, Nat.add_succ_r.
Qed.

Theorem loc_sum_and_count_correct i : loc_run OSumAndCount (events i) = events (spec_op OSumAndCount i).
Proof.
  destruct i as [xs en]. unfold loc_run. rewrite lst0_live, events_eq. cbn [spec_op init_state].
  rewrite sac_feed. reflexivity.
Qed.

(* ---------------------------------------------------------------- contains *)
Lemma contains_step t st x :
  loc_step (OContains t) (live st) (Nx x) =
  if val_eqb x t
  then ({| l_st := st; l_done := true; l_up := false |}, [Nx (VBool true); Co])
  else (live st, []).
Proof.
  unfold loc_step, live; cbn [l_up l_st handler]. destruct (val_eqb x t); reflexivity.
Qed.

Lemma contains_feed t en : forall xs st,
  snd (loc_feed (OContains t) (live st) (map Nx xs ++ ending_evs en)) =
  events (spec_op (OContains t) (xs, en)).
Proof.
  induction xs as [|x xs IH]; intros st.
  - cbn [map app spec_op existsb]. destruct en as [|e|]; reflexivity.
  - cbn [map app]. rewrite feed_cons_snd, contains_step.
    cbn [spec_op existsb]. destruct (val_eqb x t) eqn:E; cbn [fst snd orb].
    + rewrite feed_dead_snd by reflexivity. reflexivity.
    + rewrite IH. reflexivity.
Qed.

Theorem loc_contains_correct t i : loc_run (OContains t) (events i) = events (spec_op (OContains t) i).
Proof.
  destruct i as [xs en]. unfold loc_run. rewrite lst0_live, events_eq. apply contains_feed.
Qed.

(* ---------------------------------------------------------------- default_if_empty *)
Lemma die_step d st x :
  loc_step (ODefaultIfEmpty d) (live st) (Nx x) = (live (st_set_flag st true), [Nx x]).
Proof. reflexivity. Qed.

Lemma die_ending d st en :
  snd (loc_feed (ODefaultIfEmpty d) (live st) (ending_evs en)) =
  match en with
  | Completes => if st_flag st then [Co] else [Nx d; Co]
  | _ => ending_evs en
  end.
Proof.
  destruct en as [|e|]; cbn [ending_evs loc_feed].
  - unfold loc_step, live; cbn [l_up l_st handler]. destruct (st_flag st); reflexivity.
  - reflexivity.
  - reflexivity.
Qed.

Lemma die_feed_seen d en : forall xs st, st_flag st = true ->
  snd (loc_feed (ODefaultIfEmpty d) (live st) (map Nx xs ++ ending_evs en)) = map Nx xs ++ ending_evs en.
Proof.
  induction xs as [|x xs IH]; intros st Hf.
  - cbn [map app]. rewrite die_ending, Hf. destruct en; reflexivity.
  - cbn [map app]. rewrite feed_cons_snd, die_step. cbn [fst snd app].
    rewrite IH by reflexivity. reflexivity.
Qed.

Theorem loc_default_if_empty_correct d i : loc_run (ODefaultIfEmpty d) (events i) = events (spec_op (ODefaultIfEmpty d) i).
Proof.
  destruct i as [xs en]. unfold loc_run. rewrite lst0_live, events_eq. cbn [spec_op init_state].
  destruct xs as [|x xs].
  - cbn [map app]. rewrite die_ending. destruct en as [|e|]; reflexivity.
  - cbn [map app]. rewrite feed_cons_snd, die_step. cbn [fst snd app].
    rewrite die_feed_seen by reflexivity. reflexivity.
Qed.

(* ---------------------------------------------------------------- materialize *)
Definition mat_ending (en : ending) : list ev :=
  match en with
  | Completes => [Nx VMatC; Co]
  | Fails e => [Nx (VMatE e); Co]
  | Silent => []
  end.

Lemma mat_feed st en : forall xs,
  snd (loc_feed OMaterialize (live st) (map Nx xs ++ ending_evs en)) =
  map Nx (map VMatN xs) ++ mat_ending en.
Proof.
  induction xs as [|x xs IH]; cbn [map app].
  - destruct en as [|e|]; reflexivity.
  - rewrite feed_cons_snd.
    change (loc_step OMaterialize (live st) (Nx x)) with (live st, [Nx (VMatN x)]).
    cbn [fst snd app]. now rewrite IH.
Qed.

Theorem loc_materialize_correct i : loc_run OMaterialize (events i) = events (spec_op OMaterialize i).
Proof.
  destruct i as [xs en]. unfold loc_run. rewrite lst0_live, events_eq, mat_feed. cbn [spec_op].
  destruct en as [|e|]; unfold events; cbn [fst snd mat_ending].
  - rewrite map_app, <- app_assoc. reflexivity.
  - rewrite map_app, <- app_assoc. reflexivity.
  - reflexivity.
Qed.

(* ---------------------------------------------------------------- dematerialize *)
Lemma events_cons x xs en : events (x :: xs, en) = Nx x :: events (xs, en).
Proof. reflexivity. Qed.

Lemma demat_pass_events x r en :
  events (let '(ys, e') := demat r en in (x :: ys, e')) = Nx x :: events (demat r en).
Proof. destruct (demat r en) as [ys e']. reflexivity. Qed.

Lemma demat_feed st en : forall xs,
  snd (loc_feed ODematerialize (live st) (map Nx xs ++ ending_evs en)) = events (demat xs en).
Proof.
  induction xs as [|x xs IH].
  - cbn [map app demat]. rewrite events_eq. cbn [map app].
    apply feed_ending_dflt; reflexivity.
  - cbn [map app]. rewrite feed_cons_snd.
    destruct x as [z|b| |l|v|e| |s]; cbn [demat]; rewrite ?demat_pass_events.
    + change (loc_step ODematerialize (live st) (Nx (VInt z))) with (live st, [Nx (VInt z)]).
      cbn [fst snd app]. now rewrite IH.
    + change (loc_step ODematerialize (live st) (Nx (VBool b))) with (live st, [Nx (VBool b)]).
      cbn [fst snd app]. now rewrite IH.
    + change (loc_step ODematerialize (live st) (Nx VUnit)) with (live st, [Nx VUnit]).
      cbn [fst snd app]. now rewrite IH.
    + change (loc_step ODematerialize (live st) (Nx (VList l))) with (live st, [Nx (VList l)]).
      cbn [fst snd app]. now rewrite IH.
    + change (loc_step ODematerialize (live st) (Nx (VMatN v))) with (live st, [Nx v]).
      cbn [fst snd app]. now rewrite IH.
    + change (loc_step ODematerialize (live st) (Nx (VMatE e)))
        with ({| l_st := st; l_done := true; l_up := false |}, [Er e]).
      cbn [fst snd]. rewrite feed_dead_snd by reflexivity. reflexivity.
    + change (loc_step ODematerialize (live st) (Nx VMatC))
        with ({| l_st := st; l_done := true; l_up := false |}, [Co]).
      cbn [fst snd]. rewrite feed_dead_snd by reflexivity. reflexivity.
    + change (loc_step ODematerialize (live st) (Nx (VObs s))) with (live st, [Nx (VObs s)]).
      cbn [fst snd app]. now rewrite IH.
Qed.

Theorem loc_dematerialize_correct i : loc_run ODematerialize (events i) = events (spec_op ODematerialize i).
Proof.
  destruct i as [xs en]. unfold loc_run. rewrite lst0_live, events_eq. cbn [spec_op]. apply demat_feed.
Qed.

Print Assumptions loc_reduce_correct.
Print Assumptions loc_sum_correct.
Print Assumptions loc_min_correct.
Print Assumptions loc_max_correct.
Print Assumptions loc_count_correct.
Print Assumptions loc_sum_and_count_correct.
Print Assumptions loc_contains_correct.
Print Assumptions loc_default_if_empty_correct.
Print Assumptions loc_materialize_correct.
Print Assumptions loc_dematerialize_correct.
