(* The Observer gate under every interleaving of any number of threads (Model/ConcGate.v):
   at most one terminal callback ever starts, and a call that began after a terminal callback
   returned starts no callback. *)
From Coq Require Import List Bool Arith Lia.
From RX Require Import ConcGate.
Import ListNotations.

Definition holding (p : gpc) : bool :=
  match p with PErr1 | PErr2 | PErr3 | PComp1 | PComp2 | PComp3 => true | _ => false end.

Record GInv (c : gcfg) : Prop := {
  gi_uniq : forall i j, holding (g_pc (g_thr c i)) = true -> holding (g_pc (g_thr c j)) = true -> i = j;
  gi_hold : forall i, holding (g_pc (g_thr c i)) = true -> g_e c = false /\ n_term_starts (g_trace c) = 0;
  gi_e : g_e c = true -> n_term_starts (g_trace c) = 0 /\ forall i, holding (g_pc (g_thr c i)) = false;
  gi_le1 : n_term_starts (g_trace c) <= 1;
  gi_pc : forall i, match g_pc (g_thr c i) with
                    | PErr2 | PComp2 => g_n c = false
                    | PErr3 | PComp3 => g_n c = false /\ g_c c = false
                    | PInCb e => gterm e = true -> g_n c = false /\ g_c c = false /\ g_e c = false
                    | PUnsub1 => g_n c = false
                    | PUnsub2 => g_n c = false /\ g_e c = false
                    | _ => True
                    end;
  gi_ret : g_termret c = true -> g_n c = false /\ g_e c = false /\ g_c c = false;
  gi_late : forall i, g_late (g_thr c i) = true ->
                      match g_pc (g_thr c i) with PIdle | PUnsub1 | PUnsub2 => True | _ => False end;
  gi_nolate : forallb (fun e => negb (is_late_start e)) (g_trace c) = true }.

Lemma nts_app tr evs : n_term_starts (tr ++ evs) = n_term_starts tr + n_term_starts evs.
Proof. unfold n_term_starts. now rewrite filter_app, app_length. Qed.

Lemma nts_app1 tr e : n_term_starts (tr ++ [e]) = n_term_starts tr + (if is_term_start e then 1 else 0).
Proof. rewrite nts_app. unfold n_term_starts at 2. cbn. destruct (is_term_start e); reflexivity. Qed.
Arguments n_term_starts : simpl never.

Lemma ginv_init progs : GInv (ginit progs).
Proof. constructor; cbn; auto; try discriminate; try (intros; discriminate); try (intros; lia); try (unfold n_term_starts; cbn; lia). Qed.

(* facts about the thread table after an update *)
Ltac thr i t :=
  let E := fresh "E" in
  unfold gupd; destruct (Nat.eqb i t) eqn:E;
  [apply Nat.eqb_eq in E; subst i | apply Nat.eqb_neq in E].

(* slot facts of the other threads survive any step that only clears slots *)
Lemma pc_frame (p : gpc) (n e cc n' e' c' : bool) :
  (n' = true -> n = true) -> (e' = true -> e = true) -> (c' = true -> cc = true) ->
  match p with
  | PErr2 | PComp2 => n = false
  | PErr3 | PComp3 => n = false /\ cc = false
  | PInCb ev => gterm ev = true -> n = false /\ cc = false /\ e = false
  | PUnsub1 => n = false
  | PUnsub2 => n = false /\ e = false
  | _ => True
  end ->
  match p with
  | PErr2 | PComp2 => n' = false
  | PErr3 | PComp3 => n' = false /\ c' = false
  | PInCb ev => gterm ev = true -> n' = false /\ c' = false /\ e' = false
  | PUnsub1 => n' = false
  | PUnsub2 => n' = false /\ e' = false
  | _ => True
  end.
Proof.
  intros Hn He Hc. destruct p; auto.
  - intro H. destruct n'; auto. now rewrite Hn in H.
  - intros [H1 H2]. split; [destruct n'; auto; now rewrite Hn in H1 | destruct c'; auto; now rewrite Hc in H2].
  - intro H. destruct n'; auto. now rewrite Hn in H.
  - intros [H1 H2]. split; [destruct n'; auto; now rewrite Hn in H1 | destruct c'; auto; now rewrite Hc in H2].
  - intros H T. destruct (H T) as (H1 & H2 & H3).
    repeat split; [destruct n'; auto; now rewrite Hn in H1 | destruct c'; auto; now rewrite Hc in H2 | destruct e'; auto; now rewrite He in H3].
  - intro H. destruct n'; auto. now rewrite Hn in H.
  - intros [H1 H2]. split; [destruct n'; auto; now rewrite Hn in H1 | destruct e'; auto; now rewrite He in H2].
Qed.

Lemma forallb_app_true {A} (f : A -> bool) l1 l2 : forallb f l1 = true -> forallb f l2 = true -> forallb f (l1 ++ l2) = true.
Proof. intros. rewrite forallb_app. now rewrite H, H0. Qed.

Theorem gstep_inv c t : GInv c -> GInv (gstep c t).
Proof.
  intros [Uq Hd Ee Le Pc Rt Lt Nl].
  pose proof (Pc t) as Pct. pose proof (Lt t) as Ltt. pose proof (Hd t) as Hdt.
  unfold gstep.
  destruct (g_pc (g_thr c t)) eqn:PC.
  - (* idle: the first atom of the next call *)
    destruct (g_prog (g_thr c t)) as [|call rest] eqn:PR.
    { constructor; assumption. }
    assert (Slots : g_termret c = true -> g_n c = false /\ g_e c = false /\ g_c c = false) by exact Rt.
    destruct call as [v | | |].
    + (* next *)
      constructor; cbn.
      * intros i j. thr i t; thr j t; cbn; auto; try (destruct (g_n c); discriminate); try (intro X; destruct (g_n c); discriminate).
      * intros i. thr i t; cbn; try (destruct (g_n c); discriminate).
        rewrite nts_app1. cbn. intro X. destruct (Hd i X). split; auto; lia.
      * intro X. destruct (Ee X) as [A B]. rewrite nts_app1; cbn. split; [lia |]. intro i. thr i t; cbn; auto. destruct (g_n c); reflexivity.
      * rewrite nts_app1; cbn; lia.
      * intro i. thr i t; cbn; [destruct (g_n c); exact I | apply Pc].
      * exact Rt.
      * intro i. thr i t; cbn; [| apply Lt]. intro X. destruct (Slots X) as (A & _). rewrite A. exact I.
      * apply forallb_app_true; auto.
    + (* error *)
      destruct (g_e c) eqn:E.
      * destruct (Ee eq_refl) as [Z NH].
        constructor; cbn.
        -- intros i j. thr i t; thr j t; cbn; auto; try congruence; try (intros _ X; rewrite NH in X; discriminate); try (intros X; rewrite NH in X; discriminate).
        -- intro i. rewrite nts_app1; cbn. thr i t; cbn; [split; auto; lia |]. intro X. rewrite NH in X. discriminate.
        -- discriminate.
        -- rewrite nts_app1; cbn; lia.
        -- intro i. thr i t; cbn; auto. eapply pc_frame; [| | | apply Pc]; auto; try discriminate.
        -- intro X. destruct (Rt X) as (_ & X2 & _). congruence.
        -- intro i. thr i t; cbn; [| apply Lt]. intro X. destruct (Slots X) as (_ & X2 & _). congruence.
        -- apply forallb_app_true; auto.
      * constructor; cbn.
        -- intros i j. thr i t; thr j t; cbn; auto; discriminate.
        -- intro i. rewrite nts_app1; cbn. thr i t; cbn; [discriminate |]. intro X. destruct (Hd i X). split; auto; lia.
        -- discriminate.
        -- rewrite nts_app1; cbn; lia.
        -- intro i. thr i t; cbn; auto. apply Pc.
        -- exact Rt.
        -- intro i. thr i t; cbn; auto; try apply Lt.
        -- apply forallb_app_true; auto.
    + (* complete *)
      destruct (g_e c) eqn:E.
      * destruct (Ee eq_refl) as [Z NH].
        constructor; cbn.
        -- intros i j. thr i t; thr j t; cbn; auto; try congruence; try (intros _ X; rewrite NH in X; discriminate); try (intros X; rewrite NH in X; discriminate).
        -- intro i. rewrite nts_app1; cbn. thr i t; cbn; [split; auto; lia |]. intro X. rewrite NH in X. discriminate.
        -- discriminate.
        -- rewrite nts_app1; cbn; lia.
        -- intro i. thr i t; cbn; auto. eapply pc_frame; [| | | apply Pc]; auto; try discriminate.
        -- intro X. destruct (Rt X) as (_ & X2 & _). congruence.
        -- intro i. thr i t; cbn; [| apply Lt]. intro X. destruct (Slots X) as (_ & X2 & _). congruence.
        -- apply forallb_app_true; auto.
      * constructor; cbn.
        -- intros i j. thr i t; thr j t; cbn; auto; discriminate.
        -- intro i. rewrite nts_app1; cbn. thr i t; cbn; [discriminate |]. intro X. destruct (Hd i X). split; auto; lia.
        -- discriminate.
        -- rewrite nts_app1; cbn; lia.
        -- intro i. thr i t; cbn; auto. apply Pc.
        -- exact Rt.
        -- intro i. thr i t; cbn; auto; try apply Lt.
        -- apply forallb_app_true; auto.
    + (* unsubscribe *)
      constructor; cbn.
      * intros i j. thr i t; thr j t; cbn; auto; discriminate.
      * intro i. rewrite nts_app1; cbn. thr i t; cbn; [discriminate |]. intro X. destruct (Hd i X). split; auto; lia.
      * intro X. destruct (Ee X) as [A B]. rewrite nts_app1; cbn. split; [lia |]. intro i. thr i t; cbn; auto.
      * rewrite nts_app1; cbn; lia.
      * intro i. thr i t; cbn; auto. eapply pc_frame; [| | | apply Pc]; auto; try discriminate.
      * intro X. destruct (Rt X) as (_ & X2 & X3). auto.
      * intro i. thr i t; cbn; auto; try apply Lt.
      * apply forallb_app_true; auto.
  - (* next: start the callback *)
   
    assert (NL : g_late (g_thr c t) = false) by (destruct (g_late (g_thr c t)); auto; destruct (Ltt eq_refl)).
    constructor; cbn.
    + intros i j. thr i t; thr j t; cbn; auto; discriminate.
    + intro i. rewrite nts_app1; cbn. thr i t; cbn; [discriminate |]. intro X. destruct (Hd i X). split; auto; lia.
    + intro X. destruct (Ee X) as [A B]. rewrite nts_app1; cbn. split; [lia |]. intro i. thr i t; cbn; auto.
    + rewrite nts_app1; cbn; lia.
    + intro i. thr i t; cbn; [discriminate | apply Pc].
    + exact Rt.
    + intro i. thr i t; cbn; [rewrite NL; discriminate | apply Lt].
    + apply forallb_app_true; auto. cbn. now rewrite NL.
  - (* error 1 -> 2: clear fn_next *)
    destruct (Hdt eq_refl) as [E Z].
    constructor; cbn; rewrite ?app_nil_r.
    + intros i j. thr i t; thr j t; cbn; auto.
      * intros _ X. apply (Uq t j); auto. now rewrite PC.
      * intros X _. apply (Uq i t); auto. now rewrite PC.
    + intro i. thr i t; cbn; [intros _; auto | apply Hd].
    + rewrite E. discriminate.
    + exact Le.
    + intro i. thr i t; cbn; auto. eapply pc_frame; [| | | apply Pc]; auto; try discriminate.
    + intro X. destruct (Rt X) as (_ & X2 & X3). auto.
    + intro i. thr i t; cbn; [exact Ltt | apply Lt].
    + exact Nl.
  - (* error 2 -> 3: clear fn_complete *)
    destruct (Hdt eq_refl) as [E Z].
    constructor; cbn; rewrite ?app_nil_r.
    + intros i j. thr i t; thr j t; cbn; auto.
      * intros _ X. apply (Uq t j); auto. now rewrite PC.
      * intros X _. apply (Uq i t); auto. now rewrite PC.
    + intro i. thr i t; cbn; [intros _; auto | apply Hd].
    + rewrite E. discriminate.
    + exact Le.
    + intro i. thr i t; cbn; auto. eapply pc_frame; [| | | apply Pc]; auto; try discriminate.
    + intro X. destruct (Rt X) as (X1 & X2 & _). auto.
    + intro i. thr i t; cbn; [exact Ltt | apply Lt].
    + exact Nl.
  - (* error 3: start the callback *)
    destruct (Hdt eq_refl) as [E Z]. destruct Pct as [N C].
    assert (NL : g_late (g_thr c t) = false) by (destruct (g_late (g_thr c t)); auto; destruct (Ltt eq_refl)).
    assert (NH : forall i, i <> t -> holding (g_pc (g_thr c i)) = false).
    { intros i Hi. destruct (holding (g_pc (g_thr c i))) eqn:X; auto. exfalso. apply Hi. apply (Uq i t); auto. now rewrite PC. }
    constructor; cbn.
    + intros i j. thr i t; thr j t; cbn; auto; try discriminate; try (intro X; rewrite NH in X by auto; discriminate).
    + intro i. thr i t; cbn; [discriminate |]. intro X. rewrite NH in X by auto. discriminate.
    + rewrite E. discriminate.
    + rewrite nts_app1; cbn. lia.
    + intro i. thr i t; cbn; [intros _; auto | apply Pc].
    + exact Rt.
    + intro i. thr i t; cbn; [rewrite NL; discriminate | apply Lt].
    + apply forallb_app_true; auto. cbn. now rewrite NL.
  - (* complete 1 -> 2: clear fn_next *)
    destruct (Hdt eq_refl) as [E Z].
    constructor; cbn; rewrite ?app_nil_r.
    + intros i j. thr i t; thr j t; cbn; auto.
      * intros _ X. apply (Uq t j); auto. now rewrite PC.
      * intros X _. apply (Uq i t); auto. now rewrite PC.
    + intro i. thr i t; cbn; [intros _; auto | apply Hd].
    + rewrite E. discriminate.
    + exact Le.
    + intro i. thr i t; cbn; auto. eapply pc_frame; [| | | apply Pc]; auto; try discriminate.
    + intro X. destruct (Rt X) as (_ & X2 & X3). auto.
    + intro i. thr i t; cbn; [exact Ltt | apply Lt].
    + exact Nl.
  - (* complete 2: take fn_complete *)
    destruct (g_c c) eqn:C.
    +
      destruct (Hdt eq_refl) as [E Z].
      constructor; cbn; rewrite ?app_nil_r.
      * intros i j. thr i t; thr j t; cbn; auto. 
        -- intros _ X. apply (Uq t j); auto. now rewrite PC.
        -- intros X _. apply (Uq i t); auto. now rewrite PC.
      * intro i. thr i t; cbn; [intros _; auto | apply Hd].
      * rewrite E. discriminate.
      * exact Le.
      * intro i. thr i t; cbn; auto. eapply pc_frame; [| | | apply Pc]; auto; try discriminate.
      * intro X. destruct (Rt X) as (X1 & X2 & _). auto.
      * intro i. thr i t; cbn; [exact Ltt | apply Lt].
      * exact Nl.
    + (* unsubscribe emptied it meanwhile: no callback *)
      destruct (Hdt eq_refl) as [E Z].
      constructor; cbn; rewrite ?app_nil_r.
      * intros i j. thr i t; thr j t; cbn; auto; discriminate.
      * intro i. thr i t; cbn; [discriminate | apply Hd].
      * rewrite E. discriminate.
      * exact Le.
      * intro i. thr i t; cbn; auto. apply Pc.
      * exact Rt.
      * intro i. thr i t; cbn; auto; apply Lt.
      * exact Nl.
  - (* complete 3: start the callback *)
    destruct (Hdt eq_refl) as [E Z]. destruct Pct as [N C].
    assert (NL : g_late (g_thr c t) = false) by (destruct (g_late (g_thr c t)); auto; destruct (Ltt eq_refl)).
    assert (NH : forall i, i <> t -> holding (g_pc (g_thr c i)) = false).
    { intros i Hi. destruct (holding (g_pc (g_thr c i))) eqn:X; auto. exfalso. apply Hi. apply (Uq i t); auto. now rewrite PC. }
    constructor; cbn.
    + intros i j. thr i t; thr j t; cbn; auto; try discriminate; try (intro X; rewrite NH in X by auto; discriminate).
    + intro i. thr i t; cbn; [discriminate |]. intro X. rewrite NH in X by auto. discriminate.
    + rewrite E. discriminate.
    + rewrite nts_app1; cbn. lia.
    + intro i. thr i t; cbn; [intros _; auto | apply Pc].
    + exact Rt.
    + intro i. thr i t; cbn; [rewrite NL; discriminate | apply Lt].
    + apply forallb_app_true; auto. cbn. now rewrite NL.
  - (* a callback returns *)
    constructor; cbn.
    + intros i j. thr i t; thr j t; cbn; auto; discriminate.
    + intro i. rewrite nts_app1; cbn. thr i t; cbn; [discriminate |]. intro X. destruct (Hd i X). split; auto; lia.
    + intro X. destruct (Ee X) as [A B]. rewrite nts_app1; cbn. split; [lia |]. intro i. thr i t; cbn; auto.
    + rewrite nts_app1; cbn; lia.
    + intro i. thr i t; cbn; auto. apply Pc.
    + intro X. apply orb_prop in X. destruct X as [X | X]; [exact (Rt X) |]. destruct (Pct X) as (A & B & C). auto.
    + intro i. thr i t; cbn; auto; apply Lt.
    + apply forallb_app_true; auto.
  - (* unsubscribe 1 -> 2: clear fn_error *)
    constructor; cbn; rewrite ?app_nil_r.
    + intros i j. thr i t; thr j t; cbn; auto; discriminate.
    + intro i. thr i t; cbn; [discriminate |]. intro X. destruct (Hd i X). auto.
    + discriminate.
    + exact Le.
    + intro i. thr i t; cbn; [split; [exact Pct | reflexivity] |]. eapply pc_frame; [| | | apply Pc]; auto; try discriminate.
    + intro X. destruct (Rt X) as (X1 & _ & X3). auto.
    + intro i. thr i t; cbn; auto; apply Lt.
    + exact Nl.
  - (* unsubscribe 2: clear fn_complete *)
    constructor; cbn; rewrite ?app_nil_r.
    + intros i j. thr i t; thr j t; cbn; auto; discriminate.
    + intro i. thr i t; cbn; [discriminate |]. intro X. destruct (Hd i X). auto.
    + intro X. destruct (Ee X) as [A B]. split; auto. intro i. thr i t; cbn; auto.
    + exact Le.
    + intro i. thr i t; cbn; auto. eapply pc_frame; [| | | apply Pc]; auto; try discriminate.
    + intros _. destruct Pct as [X1 X2]. auto.
    + intro i. thr i t; cbn; auto; apply Lt.
    + exact Nl.
Qed.

Theorem grun_inv sched : forall c, GInv c -> GInv (grun sched c).
Proof. induction sched as [|t s IH]; intros c I; cbn; auto. apply IH. now apply gstep_inv. Qed.

(* C19: whatever the threads do and however they interleave *)
Theorem gate_at_most_one_terminal progs sched :
  n_term_starts (g_trace (grun sched (ginit progs))) <= 1.
Proof. apply gi_le1. apply grun_inv. apply ginv_init. Qed.

Theorem gate_nothing_after_terminal_returned progs sched :
  forallb (fun e => negb (is_late_start e)) (g_trace (grun sched (ginit progs))) = true.
Proof. apply gi_nolate. apply grun_inv. apply ginv_init. Qed.

(* once a terminal callback has returned (or unsubscribe has returned) the three slots are empty for good *)
Theorem gate_slots_empty_after_terminal progs sched :
  let c := grun sched (ginit progs) in
  g_termret c = true -> g_n c = false /\ g_e c = false /\ g_c c = false.
Proof. apply gi_ret. apply grun_inv. apply ginv_init. Qed.
