(* C11: combinators fed from several threads conserve items and terminate exactly once - for every interleaving. *)
From Coq Require Import List Bool Arith Lia.
From RX Require Import ConcComb.
Import ListNotations.
Arguments Nat.ltb : simpl never.
Arguments Nat.leb : simpl never.
Arguments Nat.eqb : simpl never.

(* ================================================================== merge / flat_map *)
Ltac mc := cbn [m_reg m_open m_log m_in mi_script mi_k mi_st].
Ltac mc_in H := cbn [m_reg m_open m_log m_in mi_script mi_k mi_st] in H.

Lemma mupd_same f i x : mgupd f i x i = x.
Proof. unfold mgupd. now rewrite Nat.eqb_refl. Qed.
Lemma mupd_other f i x q : q <> i -> mgupd f i x q = f q.
Proof. unfold mgupd. intro H. apply Nat.eqb_neq in H. now rewrite H. Qed.

Lemma remove_nat_in i j l : In j (remove_nat i l) <-> In j l /\ j <> i.
Proof.
  unfold remove_nat. rewrite filter_In. split; intros [H1 H2]; split; auto.
  - intro E. subst. now rewrite Nat.eqb_refl in H2.
  - apply Nat.eqb_neq in H2. now rewrite H2.
Qed.
Lemma remove_nat_nodup i l : NoDup l -> NoDup (remove_nat i l).
Proof. apply NoDup_filter. Qed.

Lemma mitems_app i l1 l2 : mitems i (l1 ++ l2) = mitems i l1 ++ mitems i l2.
Proof. unfold mitems. apply flat_map_app. Qed.
Lemma mcompletes_app l1 l2 : mcompletes (l1 ++ l2) = mcompletes l1 + mcompletes l2.
Proof. unfold mcompletes. now rewrite filter_app, app_length. Qed.

Lemma firstn_S_nth (l : list nat) k : k < length l -> firstn (S k) l = firstn k l ++ [nth k l 0].
Proof.
  revert k. induction l as [|x l IH]; intros k H; cbn [length] in H; [lia|].
  destruct k; cbn [firstn nth app]; auto. f_equal. apply IH. lia.
Qed.

Record MInv (c : mgcfg) : Prop := {
  mv_nodup : NoDup (m_reg c);
  mv_reg : forall i, In i (m_reg c) <-> mi_st (m_in c i) = MRunning;
  mv_closed : m_open c = false -> m_reg c = [] /\ forall i, mi_st (m_in c i) <> MLast;
  mv_last : forall i, mi_st (m_in c i) = MLast -> m_reg c = [] /\ m_open c = true /\ forall j, mi_st (m_in c j) = MLast -> j = i;
  mv_alive : m_open c = true -> m_reg c <> [] \/ exists i, mi_st (m_in c i) = MLast;
  mv_items : forall i, mi_k (m_in c i) <= length (mi_script (m_in c i)) /\
                       mitems i (m_log c) = firstn (mi_k (m_in c i)) (mi_script (m_in c i));
  mv_done : forall i, mi_st (m_in c i) = MDone \/ mi_st (m_in c i) = MLast -> mi_k (m_in c i) = length (mi_script (m_in c i));
  mv_notyet : forall i, mi_st (m_in c i) = MNotYet -> mi_k (m_in c i) = 0;
  mv_comp : if m_open c then mcompletes (m_log c) = 0
            else exists body, m_log c = body ++ [MC] /\ mcompletes body = 0 }.

Ltac upd q i := let NE := fresh "NE" in destruct (Nat.eq_dec q i) as [->|NE]; [rewrite ?mupd_same in * | rewrite ?(mupd_other _ _ _ _ NE) in *].

Lemma running_open c i : MInv c -> mi_st (m_in c i) = MRunning -> m_open c = true /\ In i (m_reg c).
Proof.
  intros I R. assert (H : In i (m_reg c)) by now apply (mv_reg c I).
  split; [|exact H]. destruct (m_open c) eqn:O; auto. destruct (mv_closed c I O) as [E _]. rewrite E in H. destruct H.
Qed.

Lemma minv_item c i :
  MInv c -> mi_st (m_in c i) = MRunning -> mi_k (m_in c i) < length (mi_script (m_in c i)) ->
  MInv {| m_reg := m_reg c; m_open := m_open c;
          m_log := if m_open c then m_log c ++ [MI i (nth (mi_k (m_in c i)) (mi_script (m_in c i)) 0)] else m_log c;
          m_in := mgupd (m_in c) i {| mi_script := mi_script (m_in c i); mi_k := S (mi_k (m_in c i)); mi_st := MRunning |} |}.
Proof.
  intros I R LT. destruct (running_open c i I R) as [O RG]. rewrite O.
  constructor; mc.
  - apply (mv_nodup c I).
  - intro q. upd q i; mc; [tauto | apply (mv_reg c I)].
  - discriminate.
  - intros q H. upd q i; mc_in H; [discriminate|]. destruct (mv_last c I q H) as (A & B & C). split; [exact A|]. split; [reflexivity|].
    intros j Hj. upd j i; mc_in Hj; [discriminate | now apply C].
  - intros _. left. intro E. rewrite E in RG. destruct RG.
  - intro q. destruct (mv_items c I q) as [A B]. rewrite mitems_app. upd q i; mc.
    + split; [lia|]. rewrite B, firstn_S_nth by exact LT. f_equal. unfold mitems. cbn [flat_map]. rewrite Nat.eqb_refl. reflexivity.
    + split; [exact A|]. rewrite B. unfold mitems at 1. cbn [flat_map].
      assert (E : Nat.eqb i q = false) by (apply Nat.eqb_neq; congruence). rewrite E. cbn [app]. now rewrite app_nil_r.
  - intros q H. upd q i; mc_in H; [destruct H; discriminate | now apply (mv_done c I)].
  - intros q H. upd q i; mc_in H; [discriminate | now apply (mv_notyet c I)].
  - pose proof (mv_comp c I) as H. rewrite O in H. rewrite mcompletes_app, H. reflexivity.
Qed.

Lemma minv_end c i :
  MInv c -> mi_st (m_in c i) = MRunning -> ~ mi_k (m_in c i) < length (mi_script (m_in c i)) ->
  MInv {| m_reg := remove_nat i (m_reg c); m_open := m_open c; m_log := m_log c;
          m_in := mgupd (m_in c) i {| mi_script := mi_script (m_in c i); mi_k := mi_k (m_in c i);
                                     mi_st := match remove_nat i (m_reg c) with [] => MLast | _ => MDone end |} |}.
Proof.
  intros I R GE. destruct (running_open c i I R) as [O RG].
  assert (NOLAST : forall q, mi_st (m_in c q) = MLast -> False).
  { intros q H. destruct (mv_last c I q H) as (A & _). rewrite A in RG. destruct RG. }
  constructor; mc.
  - apply remove_nat_nodup, (mv_nodup c I).
  - intro q. rewrite remove_nat_in. upd q i; mc.
    + split; [intros [_ H]; congruence | destruct (remove_nat i (m_reg c)); discriminate].
    + rewrite <- (mv_reg c I q). tauto.
  - rewrite O. discriminate.
  - intros q H. upd q i; mc_in H.
    + destruct (remove_nat i (m_reg c)) eqn:RM; [|discriminate]. split; [reflexivity|]. split; [exact O|].
      intros j Hj. upd j i; auto. exfalso. now apply (NOLAST j).
    + exfalso. now apply (NOLAST q).
  - intros _. destruct (remove_nat i (m_reg c)) eqn:RM; [right | left; discriminate].
    exists i. now rewrite mupd_same.
  - intro q. upd q i; mc; apply (mv_items c I).
  - intros q H. upd q i; mc_in H; [|now apply (mv_done c I)]. mc. destruct (mv_items c I i) as [A _]. lia.
  - intros q H. upd q i; mc_in H; [destruct (remove_nat i (m_reg c)); discriminate | now apply (mv_notyet c I)].
  - apply (mv_comp c I).
Qed.

Lemma minv_fin c i :
  MInv c -> mi_st (m_in c i) = MLast ->
  MInv {| m_reg := m_reg c; m_open := false; m_log := if m_open c then m_log c ++ [MC] else m_log c;
          m_in := mgupd (m_in c) i {| mi_script := mi_script (m_in c i); mi_k := mi_k (m_in c i); mi_st := MDone |} |}.
Proof.
  intros I L. destruct (mv_last c I i L) as (RE & O & U). rewrite O.
  constructor; mc.
  - apply (mv_nodup c I).
  - intro q. upd q i; mc; [|apply (mv_reg c I)]. rewrite RE. split; [intros [] | discriminate].
  - intros _. split; [exact RE|]. intros q H. upd q i; mc_in H; [discriminate|]. apply NE. now apply U.
  - intros q H. exfalso. upd q i; mc_in H; [discriminate|]. apply NE. now apply U.
  - discriminate.
  - intro q. destruct (mv_items c I q) as [A B]. rewrite mitems_app. unfold mitems at 2. cbn [flat_map]. rewrite app_nil_r.
    upd q i; mc; split; auto.
  - intros q H. upd q i; mc_in H; mc; apply (mv_done c I); auto.
  - intros q H. upd q i; mc_in H; [discriminate | now apply (mv_notyet c I)].
  - exists (m_log c). split; [reflexivity|]. pose proof (mv_comp c I) as H. now rewrite O in H.
Qed.

Lemma nodup_snoc (l : list nat) j : NoDup l -> ~ In j l -> NoDup (l ++ [j]).
Proof.
  induction l as [|x l IH]; intros N H; cbn [app]; [constructor; [intros []|constructor]|].
  inversion N as [|? ? H1 H2]; subst. constructor.
  - rewrite in_app_iff. cbn [In]. intros [A|[A|[]]]; [auto | subst; apply H; now left].
  - apply IH; auto. intro A. apply H. now right.
Qed.

Lemma minv_reg c i j :
  MInv c -> mi_st (m_in c i) = MRunning -> mi_st (m_in c j) = MNotYet ->
  MInv {| m_reg := m_reg c ++ [j]; m_open := m_open c; m_log := m_log c;
          m_in := mgupd (m_in c) j {| mi_script := mi_script (m_in c j); mi_k := mi_k (m_in c j); mi_st := MRunning |} |}.
Proof.
  intros I R N. destruct (running_open c i I R) as [O RG].
  assert (NOLAST : forall q, mi_st (m_in c q) = MLast -> False).
  { intros q H. destruct (mv_last c I q H) as (A & _). rewrite A in RG. destruct RG. }
  assert (NJ : ~ In j (m_reg c)).
  { intro H. apply (mv_reg c I) in H. congruence. }
  constructor; mc.
  - apply nodup_snoc; [apply (mv_nodup c I) | exact NJ].
  - intro q. rewrite in_app_iff. cbn [In]. upd q j; mc; [tauto|]. rewrite <- (mv_reg c I q). split; [intros [H|[H|[]]]; congruence | tauto].
  - rewrite O. discriminate.
  - intros q H. exfalso. upd q j; mc_in H; [discriminate | now apply (NOLAST q)].
  - intros _. left. destruct (m_reg c); discriminate.
  - intro q. upd q j; mc; apply (mv_items c I).
  - intros q H. upd q j; mc_in H; [destruct H; discriminate | now apply (mv_done c I)].
  - intros q H. upd q j; mc_in H; [discriminate | now apply (mv_notyet c I)].
  - apply (mv_comp c I).
Qed.

Lemma mstep_inv c a : MInv c -> MInv (mgstep c a).
Proof.
  intro I. destruct a as [i|i|i|i j]; unfold mgstep; cbv zeta.
  - destruct (mi_st (m_in c i)) eqn:S; try exact I. destruct (Nat.ltb _ _) eqn:LT; [|exact I].
    apply Nat.ltb_lt in LT. now apply minv_item.
  - destruct (mi_st (m_in c i)) eqn:S; try exact I. destruct (Nat.ltb _ _) eqn:LT; [exact I|].
    apply Nat.ltb_ge in LT. apply minv_end; auto. lia.
  - destruct (mi_st (m_in c i)) eqn:S; try exact I. now apply minv_fin.
  - destruct (mi_st (m_in c i)) eqn:S; try exact I. destruct (mi_st (m_in c j)) eqn:S'; try exact I. now apply (minv_reg c i j).
Qed.

Lemma minit_inv n scripts : 1 <= n -> MInv (mginit n scripts).
Proof.
  intro N. constructor; unfold mginit; mc.
  - apply seq_NoDup.
  - intro i. rewrite in_seq. destruct (Nat.ltb i n) eqn:E; [apply Nat.ltb_lt in E | apply Nat.ltb_ge in E]; split; try discriminate; auto; lia.
  - discriminate.
  - intros i H. destruct (Nat.ltb i n); discriminate.
  - intros _. left. destruct n; [lia | discriminate].
  - intro i. split; [lia | reflexivity].
  - intros i [H|H]; destruct (Nat.ltb i n); discriminate.
  - reflexivity.
  - reflexivity.
Qed.

Lemma mrun_inv acts : forall c, MInv c -> MInv (mgrun acts c).
Proof. induction acts as [|a acts IH]; intros c I; cbn [mgrun fold_left]; auto. apply IH. now apply mstep_inv. Qed.

Lemma mstep_script c a i : mi_script (m_in (mgstep c a) i) = mi_script (m_in c i).
Proof.
  destruct a as [j|j|j|j j']; unfold mgstep; cbv zeta.
  - destruct (mi_st (m_in c j)); auto. destruct (Nat.ltb _ _); auto. mc. unfold mgupd. destruct (Nat.eqb i j) eqn:E; auto.
    apply Nat.eqb_eq in E. now subst.
  - destruct (mi_st (m_in c j)); auto. destruct (Nat.ltb _ _); auto. mc. unfold mgupd. destruct (Nat.eqb i j) eqn:E; auto.
    apply Nat.eqb_eq in E. now subst.
  - destruct (mi_st (m_in c j)); auto. mc. unfold mgupd. destruct (Nat.eqb i j) eqn:E; auto. apply Nat.eqb_eq in E. now subst.
  - destruct (mi_st (m_in c j)); auto. destruct (mi_st (m_in c j')); auto. mc. unfold mgupd. destruct (Nat.eqb i j') eqn:E; auto.
    apply Nat.eqb_eq in E. now subst.
Qed.
Lemma mrun_script acts : forall c i, mi_script (m_in (mgrun acts c) i) = mi_script (m_in c i).
Proof.
  induction acts as [|a acts IH]; intros c i; cbn [mgrun fold_left]; auto.
  fold (mgrun acts (mgstep c a)). now rewrite IH, mstep_script.
Qed.

(* at every moment, under every interleaving: each input's items arrive in script order, none lost, none twice;
   at most one complete, and it is the last event, issued when every input that ever started has delivered
   its whole script *)
Theorem merge_conserves n scripts acts :
  1 <= n ->
  let c := mgrun acts (mginit n scripts) in
  (forall i, mitems i (m_log c) = firstn (mi_k (m_in c i)) (scripts i)) /\
  mcompletes (m_log c) <= 1 /\
  (m_open c = false ->
   exists body, m_log c = body ++ [MC] /\ mcompletes body = 0 /\
                forall i, mi_st (m_in c i) <> MNotYet -> mitems i body = scripts i).
Proof.
  intros N c. assert (I : MInv c) by (apply mrun_inv, minit_inv, N).
  assert (SC : forall i, mi_script (m_in c i) = scripts i) by (intro i; unfold c; now rewrite mrun_script).
  split; [|split].
  - intro i. rewrite <- SC. apply (mv_items c I).
  - pose proof (mv_comp c I) as H. destruct (m_open c); [lia|]. destruct H as (body & -> & B). rewrite mcompletes_app, B. cbn. lia.
  - intro O. pose proof (mv_comp c I) as H. rewrite O in H. destruct H as (body & E & B). exists body. split; [exact E|]. split; [exact B|].
    intros i NY. destruct (mv_closed c I O) as [RE NL].
    assert (D : mi_st (m_in c i) = MDone).
    { destruct (mi_st (m_in c i)) eqn:S; auto; try congruence.
      apply (mv_reg c I) in S. rewrite RE in S. destruct S. }
    destruct (mv_items c I i) as [_ IT]. rewrite E, mitems_app in IT. unfold mitems at 2 in IT. cbn [flat_map] in IT. rewrite app_nil_r in IT.
    rewrite IT, (mv_done c I i (or_introl D)), firstn_all. apply SC.
Qed.

(* when nothing can move any more the subscriber has been completed (exactly once, last) *)
Theorem merge_terminates n scripts acts :
  1 <= n ->
  let c := mgrun acts (mginit n scripts) in
  (forall a, mgstep c a = c) -> m_open c = false.
Proof.
  intros N c Q. assert (I : MInv c) by (apply mrun_inv, minit_inv, N).
  destruct (m_open c) eqn:O; auto. exfalso.
  destruct (mv_alive c I O) as [H|[i L]].
  - destruct (m_reg c) as [|i r] eqn:RE; [congruence|].
    assert (R : mi_st (m_in c i) = MRunning) by (apply (mv_reg c I); rewrite RE; now left).
    destruct (Nat.ltb (mi_k (m_in c i)) (length (mi_script (m_in c i)))) eqn:LT.
    + pose proof (Q (MItem i)) as E. unfold mgstep in E. cbv zeta in E. rewrite R, LT in E.
      apply (f_equal (fun x => mi_k (m_in x i))) in E. mc_in E. rewrite mupd_same in E. mc_in E. lia.
    + pose proof (Q (MEnd i)) as E. unfold mgstep in E. cbv zeta in E. rewrite R, LT in E.
      apply (f_equal (fun x => mi_st (m_in x i))) in E. mc_in E. rewrite mupd_same in E. mc_in E. rewrite R in E.
      destruct (remove_nat i (m_reg c)); discriminate.
  - pose proof (Q (MFin i)) as E. unfold mgstep in E. cbv zeta in E. rewrite L in E.
    apply (f_equal m_open) in E. mc_in E. congruence.
Qed.

(* ================================================================== zip *)
Ltac zc := cbn [z_n z_q z_k z_p z_pc z_script z_log].
Ltac zc_in H := cbn [z_n z_q z_k z_p z_pc z_script z_log] in H.

Lemma fupd_same {A} (f : nat -> A) i x : fupd f i x i = x.
Proof. unfold fupd. now rewrite Nat.eqb_refl. Qed.
Lemma fupd_other {A} (f : nat -> A) i x q : q <> i -> fupd f i x q = f q.
Proof. unfold fupd. intro H. apply Nat.eqb_neq in H. now rewrite H. Qed.
Ltac fu q i := let NE := fresh "NE" in destruct (Nat.eq_dec q i) as [->|NE]; [rewrite ?fupd_same in * | rewrite ?(fupd_other _ _ _ _ NE) in *].

Lemma skipn_S_tl {A} (l : list A) n : skipn (S n) l = tl (skipn n l).
Proof. revert l. induction n as [|n IH]; intro l; destruct l; cbn [skipn tl]; auto. rewrite <- IH. reflexivity. Qed.
Lemma hd_skipn_firstn (s : list nat) P k : P < k -> k <= length s -> hd 0 (skipn P (firstn k s)) = nth P s 0.
Proof.
  revert P k. induction s as [|x s IH]; intros P k H1 H2; cbn [length] in H2; [lia|].
  destruct k; [lia|]. cbn [firstn]. destruct P; cbn [skipn hd nth]; auto. apply IH; lia.
Qed.
Lemma firstn_S_nth' (l : list nat) k : k < length l -> firstn (S k) l = firstn k l ++ [nth k l 0].
Proof.
  revert k. induction l as [|x l IH]; intros k H; cbn [length] in H; [lia|].
  destruct k; cbn [firstn nth app]; auto. f_equal. apply IH. lia.
Qed.
Lemma skipn_app_le {A} (l1 l2 : list A) n : n <= length l1 -> skipn n (l1 ++ l2) = skipn n l1 ++ l2.
Proof.
  revert n. induction l1 as [|x l1 IH]; intros n H; cbn [length] in H.
  - assert (n = 0) by lia. subst. reflexivity.
  - destruct n; cbn [skipn app]; auto. apply IH. lia.
Qed.

Lemma all_filled_spec n q : all_filled n q = true <-> forall i, i < n -> q i <> [].
Proof.
  unfold all_filled. rewrite forallb_forall. split; intros H i Hi.
  - specialize (H i). rewrite in_seq in H. specialize (H ltac:(lia)). destruct (q i); [discriminate | discriminate].
  - apply in_seq in Hi. specialize (H i ltac:(lia)). destruct (q i); [congruence | reflexivity].
Qed.

Definition holding (c : zcfg) (m : nat) : Prop := exists i t, z_pc c i = ZHold m t.
Definition busy (c : zcfg) : Prop := exists i, z_pc c i <> ZIdle.

Record ZInv (c : zcfg) : Prop := {
  zv_q : forall i, i < z_n c -> z_k c i <= length (z_script c i) /\ z_p c <= z_k c i /\
                                 z_q c i = skipn (z_p c) (firstn (z_k c i) (z_script c i));
  zv_cover : forall m, m < z_p c <-> In m (map fst (z_log c)) \/ holding c m;
  zv_nodup : NoDup (map fst (z_log c));
  zv_hold_new : forall i m t, z_pc c i = ZHold m t -> ~ In m (map fst (z_log c));
  zv_hold_one : forall i j m t t', z_pc c i = ZHold m t -> z_pc c j = ZHold m t' -> i = j;
  zv_row_log : forall m t, In (m, t) (z_log c) -> t = row (z_n c) (z_script c) m;
  zv_row_hold : forall i m t, z_pc c i = ZHold m t -> t = row (z_n c) (z_script c) m;
  zv_live : all_filled (z_n c) (z_q c) = true -> busy c }.

Lemma nodup_snoc' (l : list nat) j : NoDup l -> ~ In j l -> NoDup (l ++ [j]).
Proof.
  induction l as [|x l IH]; intros N H; cbn [app]; [constructor; [intros []|constructor]|].
  inversion N as [|? ? H1 H2]; subst. constructor.
  - rewrite in_app_iff. cbn [In]. intros [A|[A|[]]]; [auto | subst; apply H; now left].
  - apply IH; auto. intro A. apply H. now right.
Qed.

Lemma zq_len c i : ZInv c -> i < z_n c -> length (z_q c i) = z_k c i - z_p c.
Proof.
  intros I H. destruct (zv_q c I i H) as (A & B & C). rewrite C, skipn_length, firstn_length_le by exact A. reflexivity.
Qed.

Lemma zinv_push c i :
  ZInv c -> z_pc c i = ZIdle -> i < z_n c -> z_k c i < length (z_script c i) ->
  ZInv {| z_n := z_n c; z_q := fupd (z_q c) i (z_q c i ++ [nth (z_k c i) (z_script c i) 0]);
          z_k := fupd (z_k c) i (S (z_k c i)); z_p := z_p c; z_pc := fupd (z_pc c) i ZLoop; z_script := z_script c; z_log := z_log c |}.
Proof.
  intros I PC LI LT.
  assert (HOLD : forall j m t, fupd (z_pc c) i ZLoop j = ZHold m t <-> z_pc c j = ZHold m t).
  { intros j m t. fu j i; [rewrite PC; split; discriminate | tauto]. }
  constructor; zc.
  - intros j Hj. destruct (zv_q c I j Hj) as (A & B & C). fu j i.
    + split; [lia|]. split; [lia|]. rewrite firstn_S_nth' by exact LT. rewrite skipn_app_le; [now rewrite C|].
      rewrite firstn_length_le; lia.
    + auto.
  - intro m. rewrite (zv_cover c I m). unfold holding. zc. split; (intros [H|(j & t & H)]; [now left | right; exists j, t; now apply HOLD]).
  - apply (zv_nodup c I).
  - intros j m t H. apply HOLD in H. apply (zv_hold_new c I j m t H).
  - intros j j' m t t' H H'. apply HOLD in H. apply HOLD in H'. apply (zv_hold_one c I j j' m t t' H H').
  - apply (zv_row_log c I).
  - intros j m t H. apply HOLD in H. apply (zv_row_hold c I j m t H).
  - intros _. exists i. zc. rewrite fupd_same. discriminate.
Qed.

Lemma zinv_get_fail c i :
  ZInv c -> z_pc c i = ZLoop -> all_filled (z_n c) (z_q c) = false ->
  ZInv {| z_n := z_n c; z_q := z_q c; z_k := z_k c; z_p := z_p c; z_pc := fupd (z_pc c) i ZIdle; z_script := z_script c; z_log := z_log c |}.
Proof.
  intros I PC AF.
  assert (HOLD : forall j m t, fupd (z_pc c) i ZIdle j = ZHold m t <-> z_pc c j = ZHold m t).
  { intros j m t. fu j i; [rewrite PC; split; discriminate | tauto]. }
  constructor; zc.
  - apply (zv_q c I).
  - intro m. rewrite (zv_cover c I m). unfold holding. zc. split; (intros [H|(j & t & H)]; [now left | right; exists j, t; now apply HOLD]).
  - apply (zv_nodup c I).
  - intros j m t H. apply HOLD in H. apply (zv_hold_new c I j m t H).
  - intros j j' m t t' H H'. apply HOLD in H. apply HOLD in H'. apply (zv_hold_one c I j j' m t t' H H').
  - apply (zv_row_log c I).
  - intros j m t H. apply HOLD in H. apply (zv_row_hold c I j m t H).
  - rewrite AF. discriminate.
Qed.

Lemma zinv_get_ok c i :
  ZInv c -> z_pc c i = ZLoop -> all_filled (z_n c) (z_q c) = true ->
  ZInv {| z_n := z_n c; z_q := pops (z_n c) (z_q c); z_k := z_k c; z_p := S (z_p c);
          z_pc := fupd (z_pc c) i (ZHold (z_p c) (fronts (z_n c) (z_q c))); z_script := z_script c; z_log := z_log c |}.
Proof.
  intros I PC AF. pose proof (proj1 (all_filled_spec _ _) AF) as NE.
  assert (LTK : forall j, j < z_n c -> z_p c < z_k c j).
  { intros j Hj. pose proof (zq_len c j I Hj) as L. specialize (NE j Hj). destruct (z_q c j); [congruence | cbn [length] in L; lia]. }
  assert (OLD : forall j m t, j <> i -> (fupd (z_pc c) i (ZHold (z_p c) (fronts (z_n c) (z_q c))) j = ZHold m t <-> z_pc c j = ZHold m t)).
  { intros j m t H. now rewrite (fupd_other _ _ _ _ H). }
  assert (NOP : forall j t, z_pc c j = ZHold (z_p c) t -> False).
  { intros j t H. assert (z_p c < z_p c); [|lia]. apply (zv_cover c I). right. now exists j, t. }
  constructor; zc.
  - intros j Hj. destruct (zv_q c I j Hj) as (A & B & C). split; [exact A|]. split; [apply (LTK j Hj)|].
    unfold pops. apply Nat.ltb_lt in Hj. rewrite Hj, C. now rewrite skipn_S_tl.
  - intro m. unfold holding. zc. split.
    + intro H. destruct (Nat.eq_dec m (z_p c)) as [->|NEQ].
      * right. exists i, (fronts (z_n c) (z_q c)). now rewrite fupd_same.
      * assert (H' : m < z_p c) by lia. apply (zv_cover c I) in H'. destruct H' as [H'|(j & t & H')]; [now left|].
        right. exists j, t. apply OLD; auto. intro E. subst. rewrite PC in H'. discriminate.
    + intros [H|(j & t & H)].
      * assert (m < z_p c) by (apply (zv_cover c I); now left). lia.
      * fu j i; [injection H as <- _; lia|]. assert (m < z_p c) by (apply (zv_cover c I); right; now exists j, t). lia.
  - apply (zv_nodup c I).
  - intros j m t H. fu j i.
    + injection H as <- _. intro IN. assert (z_p c < z_p c); [|lia]. apply (zv_cover c I). now left.
    + apply (zv_hold_new c I j m t H).
  - intros j j' m t t' H H'. fu j i; fu j' i; auto.
    + injection H as <- _. exfalso. apply (NOP j' t' H').
    + injection H' as <- _. exfalso. apply (NOP j t H).
    + apply (zv_hold_one c I j j' m t t' H H').
  - apply (zv_row_log c I).
  - intros j m t H. fu j i; [|apply (zv_row_hold c I j m t H)].
    injection H as <- <-. unfold fronts, row. apply map_ext_in. intros j Hj. apply in_seq in Hj.
    destruct (zv_q c I j ltac:(lia)) as (A & B & C). rewrite C. apply hd_skipn_firstn; [apply LTK; lia | exact A].
  - intros _. exists i. zc. rewrite fupd_same. discriminate.
Qed.

Lemma zinv_deliver c i m t :
  ZInv c -> z_pc c i = ZHold m t ->
  ZInv {| z_n := z_n c; z_q := z_q c; z_k := z_k c; z_p := z_p c; z_pc := fupd (z_pc c) i ZLoop; z_script := z_script c;
          z_log := z_log c ++ [(m, t)] |}.
Proof.
  intros I PC.
  assert (HOLD : forall j m' t', fupd (z_pc c) i ZLoop j = ZHold m' t' <-> z_pc c j = ZHold m' t' /\ j <> i).
  { intros j m' t'. fu j i; [split; [discriminate | intros [_ H]; congruence] | tauto]. }
  constructor; zc; rewrite ?map_app; cbn [map fst].
  - apply (zv_q c I).
  - intro m'. rewrite (zv_cover c I m'), in_app_iff. unfold holding. zc. cbn [In]. split.
    + intros [H|(j & t' & H)]; [now left; left|]. destruct (Nat.eq_dec j i) as [->|NE].
      * rewrite PC in H. injection H as <- _. left. right. now left.
      * right. exists j, t'. apply HOLD. now split.
    + intros [[H|[<-|[]]]|(j & t' & H)]; [now left | right; now exists i, t |]. apply HOLD in H. right. exists j, t'. tauto.
  - apply nodup_snoc'; [apply (zv_nodup c I) | apply (zv_hold_new c I i m t PC)].
  - intros j m' t' H. apply HOLD in H. destruct H as [H NE]. rewrite in_app_iff. cbn [In]. intros [IN|[<-|[]]].
    + apply (zv_hold_new c I j m' t' H IN).
    + apply NE. apply (zv_hold_one c I j i m t' t H PC).
  - intros j j' m' t1 t2 H H'. apply HOLD in H. apply HOLD in H'. apply (zv_hold_one c I j j' m' t1 t2); tauto.
  - intros m' t' H. apply in_app_iff in H. destruct H as [H|[H|[]]]; [apply (zv_row_log c I m' t' H)|].
    inversion H; subst. apply (zv_row_hold c I i m' t' PC).
  - intros j m' t' H. apply HOLD in H. apply (zv_row_hold c I j m' t'); tauto.
  - intros _. exists i. zc. rewrite fupd_same. discriminate.
Qed.

Lemma zstep_inv c a : ZInv c -> ZInv (zstep c a).
Proof.
  intro I. destruct a as [i|i|i]; unfold zstep.
  - destruct (z_pc c i) eqn:PC; try exact I. destruct (Nat.ltb i (z_n c)) eqn:A; [|exact I]. destruct (Nat.ltb (z_k c i) _) eqn:B; [|exact I].
    cbn [andb]. apply Nat.ltb_lt in A. apply Nat.ltb_lt in B. now apply zinv_push.
  - destruct (z_pc c i) eqn:PC; try exact I. destruct (all_filled (z_n c) (z_q c)) eqn:AF; [now apply zinv_get_ok | now apply zinv_get_fail].
  - destruct (z_pc c i) eqn:PC; try exact I. now apply zinv_deliver.
Qed.

Lemma zinit_inv n scripts : 1 <= n -> ZInv (zinit n scripts).
Proof.
  intro N. constructor; unfold zinit, holding; zc.
  - intros i Hi. split; [lia|]. split; [lia|]. reflexivity.
  - intro m. split; [lia | intros [[]|(i & t & H)]; discriminate].
  - constructor.
  - discriminate.
  - discriminate.
  - intros m t [].
  - discriminate.
  - intro H. exfalso. apply (proj1 (all_filled_spec n (fun _ => []))) with (i := 0) in H; [congruence | lia].
Qed.

Lemma zrun_inv acts : forall c, ZInv c -> ZInv (zrun acts c).
Proof. induction acts as [|a acts IH]; intros c I; cbn [zrun fold_left]; auto. apply IH. now apply zstep_inv. Qed.

Lemma zstep_const c a : z_n (zstep c a) = z_n c /\ z_script (zstep c a) = z_script c.
Proof.
  destruct a as [i|i|i]; unfold zstep; destruct (z_pc c i); auto.
  - destruct (_ && _); auto.
  - destruct (all_filled _ _); auto.
Qed.
Lemma zrun_const acts : forall c, z_n (zrun acts c) = z_n c /\ z_script (zrun acts c) = z_script c.
Proof.
  induction acts as [|a acts IH]; intro c; cbn [zrun fold_left]; auto. fold (zrun acts (zstep c a)).
  destruct (IH (zstep c a)) as [A B]. destruct (zstep_const c a) as [A' B']. split; congruence.
Qed.

Lemma forallb_false_ex {A} (f : A -> bool) l : forallb f l = false -> exists x, In x l /\ f x = false.
Proof.
  induction l as [|x l IH]; cbn [forallb]; [discriminate|]. intro H. apply andb_false_iff in H. destruct H as [H|H].
  - exists x. split; [now left | exact H].
  - destruct (IH H) as (y & Hy & B). exists y. split; [now right | exact B].
Qed.
Lemma not_all_filled n q : all_filled n q = false -> exists i, i < n /\ q i = [].
Proof.
  intro H. apply forallb_false_ex in H. destruct H as (i & A & B). apply in_seq in A. exists i. split; [lia|].
  destruct (q i); [reflexivity | discriminate].
Qed.

(* at every moment, under every interleaving: the tuple with index m pairs the m-th items of all inputs, no index
   is delivered twice, and no tuple is formed beyond the shortest script *)
Theorem zip_pairs n scripts acts :
  1 <= n ->
  let c := zrun acts (zinit n scripts) in
  NoDup (map fst (z_log c)) /\
  (forall m t, In (m, t) (z_log c) -> m < z_p c /\ t = row n scripts m) /\
  (forall i, i < n -> z_p c <= length (scripts i)).
Proof.
  intros N c. assert (I : ZInv c) by (apply zrun_inv, zinit_inv, N).
  destruct (zrun_const acts (zinit n scripts)) as [CN CS]. fold c in CN, CS. cbn in CN, CS.
  split; [apply (zv_nodup c I)|]. split.
  - intros m t H. split.
    + apply (zv_cover c I). left. apply in_map_iff. now exists (m, t).
    + rewrite <- CN, <- CS. apply (zv_row_log c I m t H).
  - intros i Hi. rewrite <- CN in Hi. destruct (zv_q c I i Hi) as (A & B & _). rewrite <- CS. lia.
Qed.

(* when nothing can move any more every formed tuple has been delivered exactly once and their number is the length
   of the shortest script *)
Theorem zip_all_delivered n scripts acts :
  1 <= n ->
  let c := zrun acts (zinit n scripts) in
  (forall a, zstep c a = c) ->
  (forall m, m < z_p c <-> In m (map fst (z_log c))) /\
  (exists i, i < n /\ z_p c = length (scripts i)) /\ (forall i, i < n -> z_p c <= length (scripts i)).
Proof.
  intros N c Q. assert (I : ZInv c) by (apply zrun_inv, zinit_inv, N).
  destruct (zrun_const acts (zinit n scripts)) as [CN CS]. fold c in CN, CS. cbn in CN, CS.
  assert (IDLE : forall i, z_pc c i = ZIdle).
  { intro i. destruct (z_pc c i) eqn:PC; auto; exfalso.
    - pose proof (Q (ZGet i)) as E. unfold zstep in E. rewrite PC in E.
      destruct (all_filled (z_n c) (z_q c)); apply (f_equal (fun x => z_pc x i)) in E; zc_in E; rewrite fupd_same, PC in E; discriminate.
    - pose proof (Q (ZDeliver i)) as E. unfold zstep in E. rewrite PC in E.
      apply (f_equal (fun x => z_pc x i)) in E; zc_in E; rewrite fupd_same, PC in E; discriminate. }
  split; [|split].
  - intro m. rewrite (zv_cover c I m). split; [|now left]. intros [H|(i & t & H)]; auto. rewrite IDLE in H. discriminate.
  - destruct (all_filled (z_n c) (z_q c)) eqn:AF.
    + destruct (zv_live c I AF) as [i H]. now rewrite IDLE in H.
    + destruct (not_all_filled _ _ AF) as (i & Hi & E). exists i. split; [lia|].
      pose proof (zq_len c i I Hi) as L. rewrite E in L. cbn [length] in L.
      destruct (zv_q c I i Hi) as (A & B & _).
      destruct (Nat.ltb (z_k c i) (length (z_script c i))) eqn:LT.
      * exfalso. pose proof (Q (ZPush i)) as E'. unfold zstep in E'. rewrite IDLE in E'. apply Nat.ltb_lt in Hi. rewrite Hi, LT in E'. cbn [andb] in E'.
        apply (f_equal (fun x => z_pc x i)) in E'. zc_in E'. rewrite fupd_same, IDLE in E'. discriminate.
      * apply Nat.ltb_ge in LT. rewrite <- CS. lia.
  - intros i Hi. rewrite <- CN in Hi. destruct (zv_q c I i Hi) as (A & B & _). rewrite <- CS. lia.
Qed.

(* ================================================================== amb *)
Ltac ac := cbn [a_win a_k a_pc a_script a_log].
Ltac ac_in H := cbn [a_win a_k a_pc a_script a_log] in H.

Record AInv (c : acfg) : Prop := {
  av_none : a_win c = None -> a_log c = [] /\ forall i, a_pc c i = AIdle /\ a_k c i = 0;
  av_some : forall w, a_win c = Some w ->
            (forall i, a_pc c i = AEmit -> i = w) /\
            (a_pc c w = AEmit -> a_k c w < length (a_script c w)) /\
            a_k c w <= length (a_script c w) /\
            a_log c = map (fun v => (w, v)) (firstn (a_k c w) (a_script c w)) }.

Lemma astep_inv c a : AInv c -> AInv (astep c a).
Proof.
  intro I. destruct a as [i|i]; unfold astep.
  - destruct (a_pc c i) eqn:PC; try exact I. destruct (Nat.ltb (a_k c i) (length (a_script c i))) eqn:LT; [|exact I].
    apply Nat.ltb_lt in LT. destruct (a_win c) as [w|] eqn:W.
    + destruct (av_some c I w W) as (A & B & C & D). constructor; ac; [discriminate|].
      intros w' E. try rewrite W in E. injection E as <-. split; [|split; [|split]]; auto.
      * intros j H. fu j i; [|now apply A]. destruct (Nat.eqb w i) eqn:E; [apply Nat.eqb_eq in E; congruence | discriminate].
      * intro H. fu w i; auto.
    + destruct (av_none c I W) as [L Z]. constructor; ac; [discriminate|].
      intros w E. injection E as <-. split; [|split; [|split]].
      * intros j H. fu j i; auto. destruct (Z j) as [Y _]. congruence.
      * intros _. exact LT.
      * lia.
      * destruct (Z i) as [_ K]. rewrite L, K. reflexivity.
  - destruct (a_pc c i) eqn:PC; try exact I. destruct (a_win c) as [w|] eqn:W.
    + destruct (av_some c I w W) as (A & B & C & D). assert (i = w) by now apply A. subst i.
      constructor; ac; rewrite ?W; [discriminate|]. intros w' E. try rewrite W in E. injection E as <-. rewrite !fupd_same. split; [|split; [|split]].
      * intros j H. fu j w; auto.
      * discriminate.
      * specialize (B PC). lia.
      * rewrite D, firstn_S_nth' by (apply B; exact PC). now rewrite map_app.
    + destruct (av_none c I W) as [_ Z]. destruct (Z i) as [Y _]. congruence.
Qed.
Lemma ainit_inv scripts : AInv (ainit scripts).
Proof. constructor; unfold ainit; ac; [auto | discriminate]. Qed.
Lemma arun_inv acts : forall c, AInv c -> AInv (arun acts c).
Proof. induction acts as [|a acts IH]; intros c I; cbn [arun fold_left]; auto. apply IH. now apply astep_inv. Qed.
Lemma astep_script c a : a_script (astep c a) = a_script c.
Proof.
  destruct a as [i|i]; unfold astep; destruct (a_pc c i); auto.
  destruct (Nat.ltb _ _); auto. destruct (a_win c); auto.
Qed.
Lemma arun_script acts : forall c, a_script (arun acts c) = a_script c.
Proof. induction acts as [|a acts IH]; intro c; cbn [arun fold_left]; auto. fold (arun acts (astep c a)). now rewrite IH, astep_script. Qed.

(* under every interleaving exactly one input gets through: everything delivered comes from the winner, and it is a
   prefix of the winner's script in order *)
Theorem amb_one_input scripts acts :
  let c := arun acts (ainit scripts) in
  a_log c = [] \/ exists w, a_win c = Some w /\ a_log c = map (fun v => (w, v)) (firstn (a_k c w) (scripts w)).
Proof.
  intro c. assert (I : AInv c) by (apply arun_inv, ainit_inv).
  assert (S : a_script c = scripts) by (unfold c; now rewrite arun_script).
  destruct (a_win c) as [w|] eqn:W.
  - right. exists w. split; auto. destruct (av_some c I w W) as (_ & _ & _ & D). now rewrite D, S.
  - left. now destruct (av_none c I W).
Qed.

(* the winner is never marked as a loser *)
Definition AWin (c : acfg) : Prop := forall w, a_win c = Some w -> a_pc c w <> ALost.
Lemma astep_awin c a : AWin c -> AWin (astep c a).
Proof.
  intros I w. destruct a as [i | i]; unfold astep.
  - destruct (a_pc c i) eqn:PC; try apply I. destruct (Nat.ltb _ _); [| apply I].
    destruct (a_win c) as [w0 |] eqn:W; cbn [a_win a_pc].
    + intro E. injection E as <-. fu w0 i.
      * rewrite Nat.eqb_refl. discriminate.
      * apply I. exact W.
    + intro E. injection E as <-. rewrite fupd_same. discriminate.
  - destruct (a_pc c i) eqn:PC; try apply I. cbn [a_win a_pc]. intro E. fu w i; [discriminate | apply I; exact E].
Qed.
Lemma arun_awin acts : forall c, AWin c -> AWin (arun acts c).
Proof. induction acts as [| a l IH]; intros c I; cbn [arun fold_left]; auto. apply IH. now apply astep_awin. Qed.

(* Signals of every kind - items and the terminal - take part in the election in the same way (amb.rs: next, error and complete all
   go through is_win).  At quiescence, if any input has anything to say, there is a winner and EXACTLY its script has been delivered:
   all of its items and its terminal, and nothing of any other input - also when every input only completes, or when a loser fails. *)
Theorem amb_quiescent_delivers_winner scripts acts :
  let c := arun acts (ainit scripts) in
  (forall a, astep c a = c) -> (exists i, scripts i <> []) ->
  exists w, a_win c = Some w /\ a_log c = map (fun v => (w, v)) (scripts w).
Proof.
  intros c Q [i NE].
  assert (I : AInv c) by (apply arun_inv, ainit_inv).
  assert (S : a_script c = scripts) by (unfold c; now rewrite arun_script).
  assert (WL : AWin c) by (apply arun_awin; intros w E; discriminate E).
  destruct (a_win c) as [w |] eqn:W.
  - exists w. split; [reflexivity |]. destruct (av_some c I w W) as (A & B & C & D).
    rewrite D, S. f_equal. apply firstn_all2. rewrite <- S.
    destruct (a_pc c w) eqn:PC.
    + (* idle: if it had more to say, the check would move it *)
      destruct (Nat.ltb (a_k c w) (length (a_script c w))) eqn:LT; [| apply Nat.ltb_ge in LT; exact LT].
      exfalso. pose proof (Q (ACheck w)) as E. unfold astep in E. rewrite PC, LT, W in E.
      apply (f_equal (fun x => a_pc x w)) in E. cbn [a_pc] in E. unfold fupd in E. rewrite !Nat.eqb_refl in E. congruence.
    + (* about to emit: the send would lengthen the log *)
      exfalso. pose proof (Q (ASend w)) as E. unfold astep in E. rewrite PC in E.
      apply (f_equal (fun x => length (a_log x))) in E. cbn [a_log] in E. rewrite app_length in E. cbn in E. lia.
    + exfalso. exact (WL w W PC).
  - exfalso. destruct (av_none c I W) as [_ Z]. destruct (Z i) as [P K].
    pose proof (Q (ACheck i)) as E. unfold astep in E. rewrite P, K, W in E.
    assert (LT : Nat.ltb 0 (length (a_script c i)) = true).
    { apply Nat.ltb_lt. rewrite S. destruct (scripts i); [congruence | cbn; lia]. }
    rewrite LT in E. apply (f_equal a_win) in E. cbn [a_win] in E. congruence.
Qed.

(* ================================================================== take *)
Ltac kc := cbn [k_count k_n k_open k_pc k_log].
Ltac kc_in H := cbn [k_count k_n k_open k_pc k_log] in H.
Lemma kslots_app l1 l2 : kslots (l1 ++ l2) = kslots l1 ++ kslots l2.
Proof. unfold kslots. apply flat_map_app. Qed.
Lemma kdones_app l1 l2 : kdones (l1 ++ l2) = kdones l1 + kdones l2.
Proof. unfold kdones. now rewrite filter_app, app_length. Qed.

Record KInv (c : kcfg) : Prop := {
  kv_slots : forall nn, In nn (kslots (k_log c)) -> nn < k_n c /\ nn < k_count c;
  kv_nodup : NoDup (kslots (k_log c));
  kv_go : forall i nn, k_pc c i = KGo nn -> nn < k_n c /\ ~ In nn (kslots (k_log c));
  kv_one : forall i j nn, k_pc c i = KGo nn -> k_pc c j = KGo nn -> i = j;
  kv_done : if k_open c then kdones (k_log c) = 0 else exists body, k_log c = body ++ [KDone] /\ kdones body = 0 }.

Lemma kstep_inv c a : KInv c -> KInv (kstep c a).
Proof.
  intro I. destruct a as [i|i v|i]; unfold kstep; destruct (k_pc c i) eqn:PC; try exact I.
  - constructor; kc.
    + intros nn H. destruct (kv_slots c I nn H). split; lia.
    + apply (kv_nodup c I).
    + intros j nn H. fu j i.
      * injection H as <-. split; [lia|]. intro H. apply (kv_slots c I) in H. lia.
      * destruct (kv_go c I j nn H). split; [lia | auto].
    + intros j j' nn H H'. fu j i; fu j' i; auto.
      * injection H as <-. apply (kv_go c I) in H'. lia.
      * injection H' as <-. apply (kv_go c I) in H. lia.
      * apply (kv_one c I j j' nn H H').
    + apply (kv_done c I).
  - destruct (kv_go c I i nn PC) as [LT NEW].
    assert (GO : forall j nn', fupd (k_pc c) i (if Nat.leb (k_count c) (S nn) then KEnd else KIdle) j = KGo nn' -> k_pc c j = KGo nn' /\ j <> i).
    { intros j nn' H. fu j i; [destruct (Nat.leb _ _); discriminate | auto]. }
    destruct (Nat.ltb nn (k_count c) && k_open c) eqn:E.
    + apply andb_true_iff in E. destruct E as [E1 E2]. apply Nat.ltb_lt in E1.
      constructor; kc; rewrite ?kslots_app; cbn [kslots flat_map app].
      * intros x H. apply in_app_iff in H. destruct H as [H|[<-|[]]]; [apply (kv_slots c I x H) | split; lia].
      * apply nodup_snoc'; [apply (kv_nodup c I) | exact NEW].
      * intros j nn' H. apply GO in H. destruct H as [H NE]. destruct (kv_go c I j nn' H) as [A B]. split; [exact A|].
        rewrite in_app_iff. cbn [In]. intros [X|[<-|[]]]; [auto|]. apply NE. apply (kv_one c I j i nn H PC).
      * intros j j' nn' H H'. apply GO in H. apply GO in H'. apply (kv_one c I j j' nn'); tauto.
      * pose proof (kv_done c I) as D. rewrite E2 in *. rewrite kdones_app, D. reflexivity.
    + constructor; kc.
      * apply (kv_slots c I).
      * apply (kv_nodup c I).
      * intros j nn' H. apply GO in H. apply (kv_go c I j nn'); tauto.
      * intros j j' nn' H H'. apply GO in H. apply GO in H'. apply (kv_one c I j j' nn'); tauto.
      * apply (kv_done c I).
  - assert (GO : forall j nn', fupd (k_pc c) i KIdle j = KGo nn' -> k_pc c j = KGo nn').
    { intros j nn' H. fu j i; [discriminate | auto]. }
    constructor; kc.
    + intros nn H. destruct (k_open c); [rewrite kslots_app in H; cbn [kslots flat_map app] in H; rewrite app_nil_r in H|]; apply (kv_slots c I nn H).
    + destruct (k_open c); [rewrite kslots_app; cbn [kslots flat_map app]; rewrite app_nil_r|]; apply (kv_nodup c I).
    + intros j nn H. apply GO in H. destruct (kv_go c I j nn H) as [A B]. split; [exact A|].
      destruct (k_open c); [rewrite kslots_app; cbn [kslots flat_map app]; rewrite app_nil_r|]; exact B.
    + intros j j' nn H H'. apply GO in H. apply GO in H'. apply (kv_one c I j j' nn H H').
    + pose proof (kv_done c I) as D. destruct (k_open c); [exists (k_log c); split; auto | exact D].
Qed.
Lemma kinit_inv count : KInv (kinit count).
Proof. constructor; unfold kinit; kc; try discriminate; try (intros nn []); auto. constructor. Qed.
Lemma krun_inv acts : forall c, KInv c -> KInv (krun acts c).
Proof. induction acts as [|a acts IH]; intros c I; cbn [krun fold_left]; auto. apply IH. now apply kstep_inv. Qed.
Lemma kstep_count c a : k_count (kstep c a) = k_count c.
Proof. destruct a as [i|i v|i]; unfold kstep; destruct (k_pc c i); auto. Qed.
Lemma krun_count acts : forall c, k_count (krun acts c) = k_count c.
Proof. induction acts as [|a acts IH]; intro c; cbn [krun fold_left]; auto. fold (krun acts (kstep c a)). now rewrite IH, kstep_count. Qed.

Lemma nodup_bounded (l : list nat) n : NoDup l -> (forall x, In x l -> x < n) -> length l <= n.
Proof.
  intros N B. rewrite <- (seq_length n 0). apply NoDup_incl_length; auto. intros x H. apply in_seq. specialize (B x H). lia.
Qed.

(* under every interleaving of any number of upstream threads: at most `count` items, each with its own slot number
   below count; at most one complete, and nothing after it *)
Theorem take_at_most count acts :
  let c := krun acts (kinit count) in
  length (kslots (k_log c)) <= count /\ NoDup (kslots (k_log c)) /\ kdones (k_log c) <= 1 /\
  (k_open c = false -> exists body, k_log c = body ++ [KDone] /\ kdones body = 0).
Proof.
  intro c. assert (I : KInv c) by (apply krun_inv, kinit_inv).
  assert (C : k_count c = count) by (unfold c; now rewrite krun_count).
  split; [|split; [|split]].
  - apply nodup_bounded; [apply (kv_nodup c I)|]. intros x H. rewrite <- C. now apply (kv_slots c I).
  - apply (kv_nodup c I).
  - pose proof (kv_done c I) as D. destruct (k_open c); [lia|]. destruct D as (b & -> & D). rewrite kdones_app, D. cbn. lia.
  - intro O. pose proof (kv_done c I) as D. now rewrite O in D.
Qed.
