(* C11: combinators fed from several threads conserve items and terminate exactly once - for every interleaving. *)
From Coq Require Import List Bool Arith Lia.
From RX Require Import ConcComb.
Import ListNotations.
Arguments Nat.ltb : simpl never.
Arguments Nat.leb : simpl never.
Arguments Nat.eqb : simpl never.

(* ================================================================== merge / flat_map *)
Ltac mc := cbn [m_reg m_open m_log m_in mi_script mi_k mi_st].
Ltac mc_in H := cbn [m_reg m_open m_log m_in mi_script mi_k mi_st] in H.

Lemma mupd_same f i x : mupd f i x i = x.
Proof. unfold mupd. now rewrite Nat.eqb_refl. Qed.
Lemma mupd_other f i x q : q <> i -> mupd f i x q = f q.
Proof. unfold mupd. intro H. apply Nat.eqb_neq in H. now rewrite H. Qed.

Lemma remove_nat_in i j l : In j (remove_nat i l) <-> In j l /\ j <> i.
Proof.
  unfold remove_nat. rewrite filter_In. split; intros [H1 H2]; split; auto.
  - intro E. subst. now rewrite Nat.eqb_refl in H2.
  - apply Nat.eqb_neq in H2. now rewrite H2.
Qed.
Lemma remove_nat_nodup i l : NoDup l -> NoDup (remove_nat i l).
Proof. apply NoDup_filter. Qed.

Lemma mitems_app i l1 l2 : mitems i (l1 ++ l2) = mitems i l1 ++ mitems i l2.
Proof. unfold mitems. apply flat_map_app. Qed.
Lemma mcompletes_app l1 l2 : mcompletes (l1 ++ l2) = mcompletes l1 + mcompletes l2.
Proof. unfold mcompletes. now rewrite filter_app, app_length. Qed.

Lemma firstn_S_nth (l : list nat) k : k < length l -> firstn (S k) l = firstn k l ++ [nth k l 0].
Proof.
  revert k. induction l as [|x l IH]; intros k H; cbn [length] in H; [lia|].
  destruct k; cbn [firstn nth app]; auto. f_equal. apply IH. lia.
Qed.

Record MInv (c : mcfg) : Prop := {
  mv_nodup : NoDup (m_reg c);
  mv_reg : forall i, In i (m_reg c) <-> mi_st (m_in c i) = MRunning;
  mv_closed : m_open c = false -> m_reg c = [] /\ forall i, mi_st (m_in c i) <> MLast;
  mv_last : forall i, mi_st (m_in c i) = MLast -> m_reg c = [] /\ m_open c = true /\ forall j, mi_st (m_in c j) = MLast -> j = i;
  mv_alive : m_open c = true -> m_reg c <> [] \/ exists i, mi_st (m_in c i) = MLast;
  mv_items : forall i, mi_k (m_in c i) <= length (mi_script (m_in c i)) /\
                       mitems i (m_log c) = firstn (mi_k (m_in c i)) (mi_script (m_in c i));
  mv_done : forall i, mi_st (m_in c i) = MDone \/ mi_st (m_in c i) = MLast -> mi_k (m_in c i) = length (mi_script (m_in c i));
  mv_notyet : forall i, mi_st (m_in c i) = MNotYet -> mi_k (m_in c i) = 0;
  mv_comp : if m_open c then mcompletes (m_log c) = 0
            else exists body, m_log c = body ++ [MC] /\ mcompletes body = 0 }.

Ltac upd q i := let NE := fresh "NE" in destruct (Nat.eq_dec q i) as [->|NE]; [rewrite ?mupd_same in * | rewrite ?(mupd_other _ _ _ _ NE) in *].

Lemma running_open c i : MInv c -> mi_st (m_in c i) = MRunning -> m_open c = true /\ In i (m_reg c).
Proof.
  intros I R. assert (H : In i (m_reg c)) by now apply (mv_reg c I).
  split; [|exact H]. destruct (m_open c) eqn:O; auto. destruct (mv_closed c I O) as [E _]. rewrite E in H. destruct H.
Qed.

Lemma minv_item c i :
  MInv c -> mi_st (m_in c i) = MRunning -> mi_k (m_in c i) < length (mi_script (m_in c i)) ->
  MInv {| m_reg := m_reg c; m_open := m_open c;
          m_log := if m_open c then m_log c ++ [MI i (nth (mi_k (m_in c i)) (mi_script (m_in c i)) 0)] else m_log c;
          m_in := mupd (m_in c) i {| mi_script := mi_script (m_in c i); mi_k := S (mi_k (m_in c i)); mi_st := MRunning |} |}.
Proof.
  intros I R LT. destruct (running_open c i I R) as [O RG]. rewrite O.
  constructor; mc.
  - apply (mv_nodup c I).
  - intro q. upd q i; mc; [tauto | apply (mv_reg c I)].
  - discriminate.
  - intros q H. upd q i; mc_in H; [discriminate|]. destruct (mv_last c I q H) as (A & B & C). split; [exact A|]. split; [reflexivity|].
    intros j Hj. upd j i; mc_in Hj; [discriminate | now apply C].
  - intros _. left. intro E. rewrite E in RG. destruct RG.
  - intro q. destruct (mv_items c I q) as [A B]. rewrite mitems_app. upd q i; mc.
    + split; [lia|]. rewrite B, firstn_S_nth by exact LT. f_equal. unfold mitems. cbn [flat_map]. rewrite Nat.eqb_refl. reflexivity.
    + split; [exact A|]. rewrite B. unfold mitems at 1. cbn [flat_map].
      assert (E : Nat.eqb i q = false) by (apply Nat.eqb_neq; congruence). rewrite E. cbn [app]. now rewrite app_nil_r.
  - intros q H. upd q i; mc_in H; [destruct H; discriminate | now apply (mv_done c I)].
  - intros q H. upd q i; mc_in H; [discriminate | now apply (mv_notyet c I)].
  - pose proof (mv_comp c I) as H. rewrite O in H. rewrite mcompletes_app, H. reflexivity.
Qed.

Lemma minv_end c i :
  MInv c -> mi_st (m_in c i) = MRunning -> ~ mi_k (m_in c i) < length (mi_script (m_in c i)) ->
  MInv {| m_reg := remove_nat i (m_reg c); m_open := m_open c; m_log := m_log c;
          m_in := mupd (m_in c) i {| mi_script := mi_script (m_in c i); mi_k := mi_k (m_in c i);
                                     mi_st := match remove_nat i (m_reg c) with [] => MLast | _ => MDone end |} |}.
Proof.
  intros I R GE. destruct (running_open c i I R) as [O RG].
  assert (NOLAST : forall q, mi_st (m_in c q) = MLast -> False).
  { intros q H. destruct (mv_last c I q H) as (A & _). rewrite A in RG. destruct RG. }
  constructor; mc.
  - apply remove_nat_nodup, (mv_nodup c I).
  - intro q. rewrite remove_nat_in. upd q i; mc.
    + split; [intros [_ H]; congruence | destruct (remove_nat i (m_reg c)); discriminate].
    + rewrite <- (mv_reg c I q). tauto.
  - rewrite O. discriminate.
  - intros q H. upd q i; mc_in H.
    + destruct (remove_nat i (m_reg c)) eqn:RM; [|discriminate]. split; [reflexivity|]. split; [exact O|].
      intros j Hj. upd j i; auto. exfalso. now apply (NOLAST j).
    + exfalso. now apply (NOLAST q).
  - intros _. destruct (remove_nat i (m_reg c)) eqn:RM; [right | left; discriminate].
    exists i. now rewrite mupd_same.
  - intro q. upd q i; mc; apply (mv_items c I).
  - intros q H. upd q i; mc_in H; [|now apply (mv_done c I)]. mc. destruct (mv_items c I i) as [A _]. lia.
  - intros q H. upd q i; mc_in H; [destruct (remove_nat i (m_reg c)); discriminate | now apply (mv_notyet c I)].
  - apply (mv_comp c I).
Qed.

Lemma minv_fin c i :
  MInv c -> mi_st (m_in c i) = MLast ->
  MInv {| m_reg := m_reg c; m_open := false; m_log := if m_open c then m_log c ++ [MC] else m_log c;
          m_in := mupd (m_in c) i {| mi_script := mi_script (m_in c i); mi_k := mi_k (m_in c i); mi_st := MDone |} |}.
Proof.
  intros I L. destruct (mv_last c I i L) as (RE & O & U). rewrite O.
  constructor; mc.
  - apply (mv_nodup c I).
  - intro q. upd q i; mc; [|apply (mv_reg c I)]. rewrite RE. split; [intros [] | discriminate].
  - intros _. split; [exact RE|]. intros q H. upd q i; mc_in H; [discriminate|]. apply NE. now apply U.
  - intros q H. exfalso. upd q i; mc_in H; [discriminate|]. apply NE. now apply U.
  - discriminate.
  - intro q. destruct (mv_items c I q) as [A B]. rewrite mitems_app. unfold mitems at 2. cbn [flat_map]. rewrite app_nil_r.
    upd q i; mc; split; auto.
  - intros q H. upd q i; mc_in H; mc; apply (mv_done c I); auto.
  - intros q H. upd q i; mc_in H; [discriminate | now apply (mv_notyet c I)].
  - exists (m_log c). split; [reflexivity|]. pose proof (mv_comp c I) as H. now rewrite O in H.
Qed.

Lemma nodup_snoc (l : list nat) j : NoDup l -> ~ In j l -> NoDup (l ++ [j]).
Proof.
  induction l as [|x l IH]; intros N H; cbn [app]; [constructor; [intros []|constructor]|].
  inversion N as [|? ? H1 H2]; subst. constructor.
  - rewrite in_app_iff. cbn [In]. intros [A|[A|[]]]; [auto | subst; apply H; now left].
  - apply IH; auto. intro A. apply H. now right.
Qed.

Lemma minv_reg c i j :
  MInv c -> mi_st (m_in c i) = MRunning -> mi_st (m_in c j) = MNotYet ->
  MInv {| m_reg := m_reg c ++ [j]; m_open := m_open c; m_log := m_log c;
          m_in := mupd (m_in c) j {| mi_script := mi_script (m_in c j); mi_k := mi_k (m_in c j); mi_st := MRunning |} |}.
Proof.
  intros I R N. destruct (running_open c i I R) as [O RG].
  assert (NOLAST : forall q, mi_st (m_in c q) = MLast -> False).
  { intros q H. destruct (mv_last c I q H) as (A & _). rewrite A in RG. destruct RG. }
  assert (NJ : ~ In j (m_reg c)).
  { intro H. apply (mv_reg c I) in H. congruence. }
  constructor; mc.
  - apply nodup_snoc; [apply (mv_nodup c I) | exact NJ].
  - intro q. rewrite in_app_iff. cbn [In]. upd q j; mc; [tauto|]. rewrite <- (mv_reg c I q). split; [intros [H|[H|[]]]; congruence | tauto].
  - rewrite O. discriminate.
  - intros q H. exfalso. upd q j; mc_in H; [discriminate | now apply (NOLAST q)].
  - intros _. left. destruct (m_reg c); discriminate.
  - intro q. upd q j; mc; apply (mv_items c I).
  - intros q H. upd q j; mc_in H; [destruct H; discriminate | now apply (mv_done c I)].
  - intros q H. upd q j; mc_in H; [discriminate | now apply (mv_notyet c I)].
  - apply (mv_comp c I).
Qed.

Lemma mstep_inv c a : MInv c -> MInv (mstep c a).
Proof.
  intro I. destruct a as [i|i|i|i j]; unfold mstep; cbv zeta.
  - destruct (mi_st (m_in c i)) eqn:S; try exact I. destruct (Nat.ltb _ _) eqn:LT; [|exact I].
    apply Nat.ltb_lt in LT. now apply minv_item.
  - destruct (mi_st (m_in c i)) eqn:S; try exact I. destruct (Nat.ltb _ _) eqn:LT; [exact I|].
    apply Nat.ltb_ge in LT. apply minv_end; auto. lia.
  - destruct (mi_st (m_in c i)) eqn:S; try exact I. now apply minv_fin.
  - destruct (mi_st (m_in c i)) eqn:S; try exact I. destruct (mi_st (m_in c j)) eqn:S'; try exact I. now apply (minv_reg c i j).
Qed.

Lemma minit_inv n scripts : 1 <= n -> MInv (minit n scripts).
Proof.
  intro N. constructor; unfold minit; mc.
  - apply seq_NoDup.
  - intro i. rewrite in_seq. destruct (Nat.ltb i n) eqn:E; [apply Nat.ltb_lt in E | apply Nat.ltb_ge in E]; split; try discriminate; auto; lia.
  - discriminate.
  - intros i H. destruct (Nat.ltb i n); discriminate.
  - intros _. left. destruct n; [lia | discriminate].
  - intro i. split; [lia | reflexivity].
  - intros i [H|H]; destruct (Nat.ltb i n); discriminate.
  - reflexivity.
  - reflexivity.
Qed.

Lemma mrun_inv acts : forall c, MInv c -> MInv (mrun acts c).
Proof. induction acts as [|a acts IH]; intros c I; cbn [mrun fold_left]; auto. apply IH. now apply mstep_inv. Qed.

Lemma mstep_script c a i : mi_script (m_in (mstep c a) i) = mi_script (m_in c i).
Proof.
  destruct a as [j|j|j|j j']; unfold mstep; cbv zeta.
  - destruct (mi_st (m_in c j)); auto. destruct (Nat.ltb _ _); auto. mc. unfold mupd. destruct (Nat.eqb i j) eqn:E; auto.
    apply Nat.eqb_eq in E. now subst.
  - destruct (mi_st (m_in c j)); auto. destruct (Nat.ltb _ _); auto. mc. unfold mupd. destruct (Nat.eqb i j) eqn:E; auto.
    apply Nat.eqb_eq in E. now subst.
  - destruct (mi_st (m_in c j)); auto. mc. unfold mupd. destruct (Nat.eqb i j) eqn:E; auto. apply Nat.eqb_eq in E. now subst.
  - destruct (mi_st (m_in c j)); auto. destruct (mi_st (m_in c j')); auto. mc. unfold mupd. destruct (Nat.eqb i j') eqn:E; auto.
    apply Nat.eqb_eq in E. now subst.
Qed.
Lemma mrun_script acts : forall c i, mi_script (m_in (mrun acts c) i) = mi_script (m_in c i).
Proof.
  induction acts as [|a acts IH]; intros c i; cbn [mrun fold_left]; auto.
  fold (mrun acts (mstep c a)). now rewrite IH, mstep_script.
Qed.

(* at every moment, under every interleaving: each input's items arrive in script order, none lost, none twice;
   at most one complete, and it is the last event, issued when every input that ever started has delivered
   its whole script *)
Theorem merge_conserves n scripts acts :
  1 <= n ->
  let c := mrun acts (minit n scripts) in
  (forall i, mitems i (m_log c) = firstn (mi_k (m_in c i)) (scripts i)) /\
  mcompletes (m_log c) <= 1 /\
  (m_open c = false ->
   exists body, m_log c = body ++ [MC] /\ mcompletes body = 0 /\
                forall i, mi_st (m_in c i) <> MNotYet -> mitems i body = scripts i).
Proof.
  intros N c. assert (I : MInv c) by (apply mrun_inv, minit_inv, N).
  assert (SC : forall i, mi_script (m_in c i) = scripts i) by (intro i; unfold c; now rewrite mrun_script).
  split; [|split].
  - intro i. rewrite <- SC. apply (mv_items c I).
  - pose proof (mv_comp c I) as H. destruct (m_open c); [lia|]. destruct H as (body & -> & B). rewrite mcompletes_app, B. cbn. lia.
  - intro O. pose proof (mv_comp c I) as H. rewrite O in H. destruct H as (body & E & B). exists body. split; [exact E|]. split; [exact B|].
    intros i NY. destruct (mv_closed c I O) as [RE NL].
    assert (D : mi_st (m_in c i) = MDone).
    { destruct (mi_st (m_in c i)) eqn:S; auto; try congruence.
      apply (mv_reg c I) in S. rewrite RE in S. destruct S. }
    destruct (mv_items c I i) as [_ IT]. rewrite E, mitems_app in IT. unfold mitems at 2 in IT. cbn [flat_map] in IT. rewrite app_nil_r in IT.
    rewrite IT, (mv_done c I i (or_introl D)), firstn_all. apply SC.
Qed.

(* when nothing can move any more the subscriber has been completed (exactly once, last) *)
Theorem merge_terminates n scripts acts :
  1 <= n ->
  let c := mrun acts (minit n scripts) in
  (forall a, mstep c a = c) -> m_open c = false.
Proof.
  intros N c Q. assert (I : MInv c) by (apply mrun_inv, minit_inv, N).
  destruct (m_open c) eqn:O; auto. exfalso.
  destruct (mv_alive c I O) as [H|[i L]].
  - destruct (m_reg c) as [|i r] eqn:RE; [congruence|].
    assert (R : mi_st (m_in c i) = MRunning) by (apply (mv_reg c I); rewrite RE; now left).
    destruct (Nat.ltb (mi_k (m_in c i)) (length (mi_script (m_in c i)))) eqn:LT.
    + pose proof (Q (MItem i)) as E. unfold mstep in E. cbv zeta in E. rewrite R, LT in E.
      apply (f_equal (fun x => mi_k (m_in x i))) in E. mc_in E. rewrite mupd_same in E. mc_in E. lia.
    + pose proof (Q (MEnd i)) as E. unfold mstep in E. cbv zeta in E. rewrite R, LT in E.
      apply (f_equal (fun x => mi_st (m_in x i))) in E. mc_in E. rewrite mupd_same in E. mc_in E. rewrite R in E.
      destruct (remove_nat i (m_reg c)); discriminate.
  - pose proof (Q (MFin i)) as E. unfold mstep in E. cbv zeta in E. rewrite L in E.
    apply (f_equal m_open) in E. mc_in E. congruence.
Qed.
