(* BehaviorSubject::complete / error against a concurrent subscriber: with the subscriber's check of the stored terminal and its
   registration in ONE section, under every interleaving the newcomer is handed the terminal exactly once; with the guard released
   in between it can be lost (witness). *)
From Coq Require Import List Bool Arith.
From RX Require Import ConcBehaviorClose.
Import ListNotations.

Definition bsome (o : option bool) : bool := match o with Some _ => true | None => false end.
Definition bsome_true (o : option bool) : bool := match o with Some true => true | _ => false end.

Definition bhinvb (c : bhcfg) : bool :=
  bh_atomic c &&
  implb (bsome (bh_snap c)) (bh_flag c) &&
  implb (bh_notified c) (bsome (bh_snap c)) &&
  implb (bh_got_stored c) (bh_flag c && bh_checked c && negb (bh_joined c)) &&
  implb (bh_joined c) (bh_checked c && negb (bh_got_stored c)) &&
  implb (bh_checked c) (bh_got_stored c || bh_joined c) &&
  implb (bh_joined c && bsome (bh_snap c)) (bsome_true (bh_snap c)) &&
  implb (bsome_true (bh_snap c)) (bh_joined c) &&
  implb (bh_got_live c) (bh_joined c && bh_notified c) &&
  implb (bh_joined c && bh_notified c) (bh_got_live c).

Lemma bhinv_step c a : bhinvb c = true -> bhinvb (bhstep c a) = true.
Proof.
  destruct c as [at_ fl sn nt ck jo gs gl].
  destruct a, at_, sn as [[|] |], fl, nt, ck, jo, gs, gl; intro H; try reflexivity; discriminate H.
Qed.
Lemma bhinv_run acts : forall c, bhinvb c = true -> bhinvb (bhrun acts c) = true.
Proof. induction acts as [| a l IH]; intros c I; cbn; [exact I | apply IH, bhinv_step, I]. Qed.

Theorem behavior_close_hands_over_the_terminal_once acts :
  let c := bhrun acts (bhinit true) in
  bh_checked c = true -> bh_notified c = true ->
  (bh_got_stored c = true /\ bh_got_live c = false) \/ (bh_got_stored c = false /\ bh_got_live c = true).
Proof.
  intros c K N. assert (I : bhinvb c = true) by (apply bhinv_run; reflexivity).
  destruct c as [at_ fl sn nt ck jo gs gl]. cbn in K, N. subst.
  destruct at_, sn as [[|] |], fl, jo, gs, gl; try discriminate I; cbn; auto.
Qed.
Print Assumptions behavior_close_hands_over_the_terminal_once.

(* the guard on the stored error released between the check and the registration: the closer stores, drains and notifies in between *)
Lemma unguarded_behavior_close_loses_a_subscriber :
  let c := bhrun [BhCheck; BhFlag; BhDrain; BhNotify; BhJoin] (bhinit false) in
  bh_checked c = true /\ bh_notified c = true /\ bh_joined c = true /\ bh_got_stored c = false /\ bh_got_live c = false.
Proof. vm_compute. repeat split. Qed.
