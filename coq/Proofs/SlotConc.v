(* C16, sample and debounce: whatever the interleaving of the source with the consumer, the subscriber receives only items
   the source emitted, in source order, none twice. *)
From Coq Require Import List Arith Bool Lia.
From RX Require Import ConcSlot.
Import ListNotations.

Definition below (n : nat) (o : option nat) : Prop := match o with Some i => i < n | None => True end.
Definition lt_opt (a b : option nat) : Prop := match a, b with Some i, Some j => i < j | _, _ => True end.

(* everything delivered < the item in hand < the item in the slot < the next position *)
Record LInv (s : lslot) : Prop := {
  li_out : forall i, In i (l_out s) -> i < l_next s /\ below (S i) None /\ lt_opt (Some i) (l_hand s) /\ lt_opt (Some i) (l_slot s);
  li_hand : below (l_next s) (l_hand s);
  li_slot : below (l_next s) (l_slot s);
  li_hs : lt_opt (l_hand s) (l_slot s);
  li_sorted : strictly_increasing (l_out s) = true }.

Lemma si_snoc l x : strictly_increasing l = true -> (forall i, In i l -> i < x) -> strictly_increasing (l ++ [x]) = true.
Proof.
  induction l as [|a r IH]; intros S B; [reflexivity|].
  cbn [app]. destruct r as [|b r'].
  - cbn. rewrite andb_true_r. apply Nat.ltb_lt. apply B. now left.
  - cbn [strictly_increasing app] in *. apply andb_prop in S. destruct S as [S1 S2]. rewrite S1. cbn [andb].
    apply IH; auto. intros i Hi. apply B. now right.
Qed.

Lemma linv_init : LInv linit.
Proof. constructor; cbn; auto. intros i []. Qed.

Lemma linv_step s a : LInv s -> LInv (lstep s a).
Proof.
  intros [O H S HS SO]. destruct a; cbn [lstep].
  - (* the source stores its next item *)
    constructor; cbn.
    + intros i Hi. destruct (O i Hi) as (A & _ & C & D). repeat split; auto; cbn; try lia.
    + destruct (l_hand s); cbn in *; auto; lia.
    + lia.
    + destruct (l_hand s); cbn in *; auto.
    + exact SO.
  - (* the consumer takes the slot *)
    destruct (l_hand s) eqn:E; [constructor; auto; now rewrite ?E|].
    constructor; cbn; auto.
    + intros i Hi. destruct (O i Hi) as (A & _ & C & D). repeat split; auto.
    + destruct (l_slot s); cbn; auto.
  - (* the consumer delivers what it took *)
    destruct (l_hand s) as [i|] eqn:E; [|constructor; auto; now rewrite ?E].
    constructor; cbn; auto.
    + intros j Hj. apply in_app_or in Hj. destruct Hj as [Hj | [<- | []]].
      * destruct (O j Hj) as (A & _ & C & D). repeat split; auto.
      * repeat split; auto; destruct (l_slot s); cbn in *; auto.
    + apply si_snoc; auto. intros j Hj. destruct (O j Hj) as (_ & _ & C & _). exact C.
Qed.

Theorem slot_inv acts : LInv (lrun acts).
Proof.
  unfold lrun. assert (G : forall l s, LInv s -> LInv (fold_left lstep l s)).
  { induction l as [|a l IH]; intros s I; cbn [fold_left]; auto. apply IH. now apply linv_step. }
  apply G, linv_init.
Qed.

(* sample / debounce, every interleaving: the delivered positions are strictly increasing (source order, none twice) and
   each is the position of an item the source has emitted *)
Theorem slot_delivers_in_order_once acts :
  strictly_increasing (l_out (lrun acts)) = true /\ forall i, In i (l_out (lrun acts)) -> i < l_next (lrun acts).
Proof.
  destruct (slot_inv acts) as [O _ _ _ SO]. split; auto. intros i Hi. now destruct (O i Hi).
Qed.
