(* Per-operator theorems, part B: take_while, take_last, skip, skip_last, skip_while, distinct, scan,
   and the forwarding family (fwd, map_to_any, tap, ignore). *)
From Coq Require Import List ZArith Bool Arith Lia.
From RX Require Import Val Syntax Step Spec Loc.
From RXP Require Import LocBase.
Import ListNotations.

(* every theorem has the same outer shape *)
Ltac start_run i xs en :=
  destruct i as [xs en]; unfold loc_run; rewrite lst0_live, events_eq; cbn [spec_op init_state].

(* ---------------------------------------------------------------- take_while *)
Lemma take_while_step p st x :
  loc_step (OTakeWhile p) (live st) (Nx x) =
  if appp p x then (live st, [Nx x])
  else ({| l_st := st; l_done := true; l_up := false |}, [Co]).
Proof.
  unfold loc_step, live; cbn [l_up l_st handler].
  destruct (appp p x); reflexivity.
Qed.

Lemma take_while_feed p st en : forall xs,
  snd (loc_feed (OTakeWhile p) (live st) (map Nx xs ++ ending_evs en)) =
  map Nx (takewhile (appp p) xs) ++ ending_evs (if forallb (appp p) xs then en else Completes).
Proof.
  induction xs as [|x xs IH]; cbn [map app takewhile forallb].
  - apply feed_ending_dflt; reflexivity.
  - rewrite feed_cons_snd, take_while_step.
    destruct (appp p x) eqn:P; cbn [fst snd andb].
    + rewrite IH. reflexivity.
    + rewrite feed_dead_snd by reflexivity. reflexivity.
Qed.
Theorem loc_take_while_correct p i : loc_run (OTakeWhile p) (events i) = events (spec_op (OTakeWhile p) i).
Proof. start_run i xs en. rewrite events_eq. apply take_while_feed. Qed.

(* ---------------------------------------------------------------- take_last *)
Lemma tl_skipn {A} : forall k (l : list A), tl (skipn k l) = skipn (S k) l.
Proof.
  induction k as [|k IH]; intros [|a l]; try reflexivity.
  change (skipn (S k) (a :: l)) with (skipn k l). rewrite IH. reflexivity.
Qed.

Lemma push_last_n_lastn n seen x : push_last_n n (lastn n seen) x = lastn n (seen ++ [x]).
Proof.
  unfold push_last_n, lastn.
  assert (E : skipn (length seen - n) seen ++ [x] = skipn (length seen - n) (seen ++ [x])).
  { rewrite skipn_app. replace (length seen - n - length seen) with 0 by lia. reflexivity. }
  rewrite E. rewrite skipn_length, !app_length. cbn [length].
  destruct (Nat.ltb n (length seen + 1 - (length seen - n))) eqn:L.
  - apply Nat.ltb_lt in L. rewrite tl_skipn. f_equal. lia.
  - apply Nat.ltb_ge in L. f_equal. lia.
Qed.

Lemma take_last_step n st x :
  loc_step (OTakeLast n) (live st) (Nx x) = (live (st_set_buf st (push_last_n n (st_buf st) x)), []).
Proof. reflexivity. Qed.

Lemma take_last_ending n st en :
  snd (loc_feed (OTakeLast n) (live st) (ending_evs en)) = events (when_complete en (st_buf st)).
Proof.
  destruct en as [|e|]; cbn [ending_evs when_complete]; rewrite events_eq; cbn [ending_evs map app].
  - cbn [loc_feed]. unfold loc_step, live; cbn [l_up l_st handler is_term loc_acts loc_act l_done l_abort l_set_st].
    cbn [snd]. now rewrite !app_nil_r.
  - reflexivity.
  - reflexivity.
Qed.

Lemma take_last_feed n en : forall xs seen st, st_buf st = lastn n seen ->
  snd (loc_feed (OTakeLast n) (live st) (map Nx xs ++ ending_evs en)) =
  events (when_complete en (lastn n (seen ++ xs))).
Proof.
  induction xs as [|x xs IH]; intros seen st Hb; cbn [map app].
  - rewrite app_nil_r, <- Hb. apply take_last_ending.
  - rewrite feed_cons_snd, take_last_step. cbn [fst snd app].
    rewrite (IH (seen ++ [x])).
    + now rewrite <- app_assoc.
    + cbn [st_buf st_set_buf]. rewrite Hb. apply push_last_n_lastn.
Qed.
Theorem loc_take_last_correct n i : loc_run (OTakeLast n) (events i) = events (spec_op (OTakeLast n) i).
Proof.
  start_run i xs en. rewrite (take_last_feed n en xs [] st0); reflexivity.
Qed.

(* ---------------------------------------------------------------- skip *)
Lemma skip_step n st x :
  loc_step (OSkip n) (live st) (Nx x) =
  (live (st_set_cnt st (S (st_cnt st))), if Nat.leb n (st_cnt st) then [Nx x] else []).
Proof.
  unfold loc_step, live; cbn [l_up l_st handler].
  destruct (Nat.leb n (st_cnt st)); reflexivity.
Qed.

Lemma skip_feed n en : forall xs st,
  snd (loc_feed (OSkip n) (live st) (map Nx xs ++ ending_evs en)) =
  map Nx (skipn (n - st_cnt st) xs) ++ ending_evs en.
Proof.
  induction xs as [|x xs IH]; intros st; cbn [map app].
  - rewrite skipn_nil. apply feed_ending_dflt; reflexivity.
  - rewrite feed_cons_snd, skip_step. cbn [fst snd]. rewrite IH. cbn [st_cnt st_set_cnt].
    destruct (Nat.leb n (st_cnt st)) eqn:L.
    + apply Nat.leb_le in L. replace (n - st_cnt st) with 0 by lia. replace (n - S (st_cnt st)) with 0 by lia.
      reflexivity.
    + apply Nat.leb_gt in L. replace (n - st_cnt st) with (S (n - S (st_cnt st))) by lia. reflexivity.
Qed.
Theorem loc_skip_correct n i : loc_run (OSkip n) (events i) = events (spec_op (OSkip n) i).
Proof. start_run i xs en. rewrite events_eq, skip_feed. cbn [st_cnt st0]. now rewrite Nat.sub_0_r. Qed.

(* ---------------------------------------------------------------- skip_last *)
Lemma skip_last_step n st x :
  loc_step (OSkipLast n) (live st) (Nx x) =
  if Nat.ltb n (length (st_buf st ++ [x]))
  then (live (st_set_buf st (tl (st_buf st ++ [x]))),
        match st_buf st ++ [x] with y :: _ => [Nx y] | [] => [] end)
  else (live (st_set_buf st (st_buf st ++ [x])), []).
Proof.
  unfold loc_step, live; cbn [l_up l_st handler].
  destruct (Nat.ltb n (length (st_buf st ++ [x]))); [destruct (st_buf st ++ [x])|]; reflexivity.
Qed.

Lemma skip_last_feed n en : forall xs st, length (st_buf st) <= n ->
  snd (loc_feed (OSkipLast n) (live st) (map Nx xs ++ ending_evs en)) =
  map Nx (firstn (length (st_buf st) + length xs - n) (st_buf st ++ xs)) ++ ending_evs en.
Proof.
  induction xs as [|x xs IH]; intros st Hb; cbn [map app length].
  - replace (length (st_buf st) + 0 - n) with 0 by lia. cbn [firstn map app].
    apply feed_ending_dflt; reflexivity.
  - rewrite feed_cons_snd, skip_last_step.
    assert (Hl : length (st_buf st ++ [x]) = S (length (st_buf st))) by apply last_length.
    replace (st_buf st ++ x :: xs) with ((st_buf st ++ [x]) ++ xs) by (now rewrite <- app_assoc).
    destruct (Nat.ltb n (length (st_buf st ++ [x]))) eqn:L; cbn [fst snd].
    + apply Nat.ltb_lt in L.
      destruct (st_buf st ++ [x]) as [|y t] eqn:E; [cbn [length] in Hl; lia|].
      cbn [length] in Hl, L. cbn [tl]. rewrite IH by (cbn [st_buf st_set_buf]; lia).
      cbn [st_buf st_set_buf].
      replace (length (st_buf st) + S (length xs) - n) with (S (length t + length xs - n)) by lia.
      reflexivity.
    + apply Nat.ltb_ge in L. rewrite IH by (cbn [st_buf st_set_buf]; lia).
      cbn [st_buf st_set_buf app]. rewrite Hl.
      replace (length (st_buf st) + S (length xs) - n) with (S (length (st_buf st)) + length xs - n) by lia.
      reflexivity.
Qed.
Theorem loc_skip_last_correct n i : loc_run (OSkipLast n) (events i) = events (spec_op (OSkipLast n) i).
Proof. start_run i xs en. rewrite events_eq, skip_last_feed by (cbn; lia). reflexivity. Qed.

(* ---------------------------------------------------------------- skip_while *)
Lemma skip_while_step p st x :
  loc_step (OSkipWhile p) (live st) (Nx x) =
  if st_flag st then (live st, [Nx x])
  else if appp p x then (live st, []) else (live (st_set_flag st true), [Nx x]).
Proof.
  unfold loc_step, live; cbn [l_up l_st handler].
  destruct (st_flag st); [reflexivity|]. destruct (appp p x); reflexivity.
Qed.

Lemma skip_while_feed_open p en : forall xs st, st_flag st = true ->
  snd (loc_feed (OSkipWhile p) (live st) (map Nx xs ++ ending_evs en)) = map Nx xs ++ ending_evs en.
Proof.
  induction xs as [|x xs IH]; intros st Hf; cbn [map app].
  - apply feed_ending_dflt; reflexivity.
  - rewrite feed_cons_snd, skip_while_step, Hf. cbn [fst snd]. now rewrite IH.
Qed.

Lemma skip_while_feed p en : forall xs st, st_flag st = false ->
  snd (loc_feed (OSkipWhile p) (live st) (map Nx xs ++ ending_evs en)) =
  map Nx (dropwhile (appp p) xs) ++ ending_evs en.
Proof.
  induction xs as [|x xs IH]; intros st Hf; cbn [map app dropwhile].
  - apply feed_ending_dflt; reflexivity.
  - rewrite feed_cons_snd, skip_while_step, Hf.
    destruct (appp p x) eqn:P; cbn [fst snd].
    + now rewrite IH.
    + rewrite skip_while_feed_open by reflexivity. reflexivity.
Qed.
Theorem loc_skip_while_correct p i : loc_run (OSkipWhile p) (events i) = events (spec_op (OSkipWhile p) i).
Proof. start_run i xs en. rewrite events_eq. now apply skip_while_feed. Qed.

(* ---------------------------------------------------------------- distinct (until changed) *)
Lemma distinct_step st x :
  loc_step ODistinct (live st) (Nx x) =
  match st_acc st with
  | Some l => if val_eqb l x then (live st, []) else (live (st_set_acc st (Some x)), [Nx x])
  | None => (live (st_set_acc st (Some x)), [Nx x])
  end.
Proof.
  unfold loc_step, live; cbn [l_up l_st handler].
  destruct (st_acc st) as [l|]; [destruct (val_eqb l x)|]; reflexivity.
Qed.

Lemma distinct_feed en : forall xs st,
  snd (loc_feed ODistinct (live st) (map Nx xs ++ ending_evs en)) =
  map Nx (dedup (st_acc st) xs) ++ ending_evs en.
Proof.
  induction xs as [|x xs IH]; intros st; cbn [map app dedup].
  - apply feed_ending_dflt; reflexivity.
  - rewrite feed_cons_snd, distinct_step.
    destruct (st_acc st) as [l|] eqn:A; [destruct (val_eqb l x) eqn:V|]; cbn [fst snd]; rewrite IH.
    + now rewrite A.
    + reflexivity.
    + reflexivity.
Qed.
Theorem loc_distinct_correct i : loc_run ODistinct (events i) = events (spec_op ODistinct i).
Proof. start_run i xs en. rewrite events_eq. apply distinct_feed. Qed.

(* ---------------------------------------------------------------- scan *)
Lemma scan_step f st x :
  loc_step (OScan f) (live st) (Nx x) =
  let a := match st_acc st with Some a => app2 f a x | None => x end in
  (live (st_set_acc st (Some a)), [Nx a]).
Proof. reflexivity. Qed.

Lemma scan_feed f en : forall xs st,
  snd (loc_feed (OScan f) (live st) (map Nx xs ++ ending_evs en)) =
  map Nx (scanl (app2 f) (st_acc st) xs) ++ ending_evs en.
Proof.
  induction xs as [|x xs IH]; intros st; cbn [map app scanl].
  - apply feed_ending_dflt; reflexivity.
  - rewrite feed_cons_snd, scan_step. cbn [fst snd]. rewrite IH. reflexivity.
Qed.
Theorem loc_scan_correct f i : loc_run (OScan f) (events i) = events (spec_op (OScan f) i).
Proof. start_run i xs en. rewrite events_eq. apply scan_feed. Qed.

(* ---------------------------------------------------------------- fwd *)
Lemma fwd_feed st en : forall xs,
  snd (loc_feed OFwd (live st) (map Nx xs ++ ending_evs en)) = map Nx xs ++ ending_evs en.
Proof.
  induction xs as [|x xs IH]; cbn [map app].
  - apply feed_ending_dflt; reflexivity.
  - rewrite feed_cons_snd. change (loc_step OFwd (live st) (Nx x)) with (live st, [Nx x]).
    cbn [fst snd]. now rewrite IH.
Qed.
Theorem loc_fwd_correct i : loc_run OFwd (events i) = events (spec_op OFwd i).
Proof. start_run i xs en. rewrite events_eq. apply fwd_feed. Qed.

(* ---------------------------------------------------------------- map_to_any *)
Lemma map_to_any_feed st en : forall xs,
  snd (loc_feed OMapToAny (live st) (map Nx xs ++ ending_evs en)) = map Nx xs ++ ending_evs en.
Proof.
  induction xs as [|x xs IH]; cbn [map app].
  - apply feed_ending_dflt; reflexivity.
  - rewrite feed_cons_snd. change (loc_step OMapToAny (live st) (Nx x)) with (live st, [Nx x]).
    cbn [fst snd]. now rewrite IH.
Qed.
Theorem loc_map_to_any_correct i : loc_run OMapToAny (events i) = events (spec_op OMapToAny i).
Proof. start_run i xs en. rewrite events_eq. apply map_to_any_feed. Qed.

(* ---------------------------------------------------------------- tap *)
Lemma tap_ending t st en :
  snd (loc_feed (OTap t) (live st) (ending_evs en)) = ending_evs en.
Proof. destruct en as [|e|]; reflexivity. Qed.

Lemma tap_feed t st en : forall xs,
  snd (loc_feed (OTap t) (live st) (map Nx xs ++ ending_evs en)) = map Nx xs ++ ending_evs en.
Proof.
  induction xs as [|x xs IH]; cbn [map app].
  - apply tap_ending.
  - rewrite feed_cons_snd. change (loc_step (OTap t) (live st) (Nx x)) with (live st, [Nx x]).
    cbn [fst snd]. now rewrite IH.
Qed.
Theorem loc_tap_correct t i : loc_run (OTap t) (events i) = events (spec_op (OTap t) i).
Proof. start_run i xs en. rewrite events_eq. apply tap_feed. Qed.

(* ---------------------------------------------------------------- ignore_elements *)
Lemma ignore_feed st en : forall xs,
  snd (loc_feed OIgnore (live st) (map Nx xs ++ ending_evs en)) = ending_evs en.
Proof.
  induction xs as [|x xs IH]; cbn [map app].
  - apply feed_ending_dflt; reflexivity.
  - rewrite feed_cons_snd. change (loc_step OIgnore (live st) (Nx x)) with (live st, @nil ev).
    cbn [fst snd app]. exact IH.
Qed.
Theorem loc_ignore_correct i : loc_run OIgnore (events i) = events (spec_op OIgnore i).
Proof. start_run i xs en. rewrite events_eq. cbn [map app]. apply ignore_feed. Qed.

Print Assumptions loc_take_while_correct.
Print Assumptions loc_take_last_correct.
Print Assumptions loc_skip_correct.
Print Assumptions loc_skip_last_correct.
Print Assumptions loc_skip_while_correct.
Print Assumptions loc_distinct_correct.
Print Assumptions loc_scan_correct.
Print Assumptions loc_fwd_correct.
Print Assumptions loc_map_to_any_correct.
Print Assumptions loc_tap_correct.
Print Assumptions loc_ignore_correct.
