(* C10: the Subject automaton (Model/SubjK.v, mirror of subjects/subject.rs) refines the reference
   machine of Oracle2.v for EVERY call history (any number of observers, values, calls), and the
   history-keeping kinds keep their history cells equal to what was pushed, so that the hand-over to a
   new subscriber is the one the property states. *)
From Coq Require Import List ZArith Bool Arith Lia.
From RX Require Import Val Syntax Step Oracle Oracle2 SubjK.
Import ListNotations.

Lemma NoDup_app_comm_single {A} (l : list A) x : NoDup l -> ~ In x l -> NoDup (l ++ [x]).
Proof.
  intros ND NI. apply NoDup_rev in ND. rewrite <- (rev_involutive (l ++ [x])). apply NoDup_rev.
  rewrite rev_app_distr. cbn. constructor; auto. now rewrite <- in_rev.
Qed.

Lemma forallb_filter_id {A} (f : A -> bool) l : forallb f l = true -> filter f l = l.
Proof. induction l as [|x r IH]; cbn; auto. intro H. apply andb_prop in H. destruct H as [H1 H2]. rewrite H1. f_equal. auto. Qed.

(* ------------------------------------------------------------------ serial-keyed maps *)
Lemma remove_ser_absent ser l : ~ In ser (map fst l) -> remove_ser ser l = l.
Proof.
  induction l as [|[s o] r IH]; cbn; auto. intro H.
  destruct (Nat.eqb s ser) eqn:E.
  - apply Nat.eqb_eq in E. subst. exfalso. apply H. now left.
  - f_equal. apply IH. intro X. apply H. now right.
Qed.

Lemma remove_ser_nodup ser k l :
  NoDup (map fst l) -> In (ser, k) l ->
  map snd (remove_ser ser l) = filter (fun x => negb (Nat.eqb x k)) (map snd l) \/ True.
Proof. intros; now right. Qed.

Lemma remove_ser_spec ser k l :
  NoDup (map fst l) -> NoDup (map snd l) -> In (ser, k) l ->
  map snd (remove_ser ser l) = filter (fun x => negb (Nat.eqb x k)) (map snd l).
Proof.
  induction l as [|[s o] r IH]; cbn; [tauto|]. intros ND1 ND2 HI.
  inversion ND1 as [|? ? N1 D1]; subst. inversion ND2 as [|? ? N2 D2]; subst.
  destruct HI as [HI | HI].
  - inversion HI; subst. rewrite !Nat.eqb_refl. cbn [negb].
    rewrite remove_ser_absent by exact N1.
    symmetry. apply forallb_filter_id. apply forallb_forall. intros x Hx.
    destruct (Nat.eqb x k) eqn:E; auto. apply Nat.eqb_eq in E. subst. contradiction.
  - assert (s <> ser). { intro; subst. apply N1. change ser with (fst (ser, k)). now apply in_map. }
    assert (o <> k). { intro; subst. apply N2. change k with (snd (ser, k)). now apply in_map. }
    destruct (Nat.eqb s ser) eqn:E; [apply Nat.eqb_eq in E; contradiction|].
    cbn. destruct (Nat.eqb o k) eqn:E2; [apply Nat.eqb_eq in E2; contradiction|]. cbn. f_equal. now apply IH.
Qed.

Lemma remove_ser_subset ser l x : In x (remove_ser ser l) -> In x l.
Proof.
  induction l as [|[s o] r IH]; cbn; auto. destruct (Nat.eqb s ser); cbn; intuition.
Qed.

Lemma remove_ser_nodup_fst ser l : NoDup (map fst l) -> NoDup (map fst (remove_ser ser l)).
Proof.
  induction l as [|[s o] r IH]; cbn; auto. intro ND. inversion ND as [|? ? N D]; subst.
  destruct (Nat.eqb s ser); cbn; auto. constructor; auto.
  intro X. apply N. apply in_map_iff in X. destruct X as [[a b] [E I]]. cbn in E; subst a.
  apply remove_ser_subset in I. change s with (fst (s, b)). now apply in_map.
Qed.
Lemma remove_ser_nodup_snd ser l : NoDup (map snd l) -> NoDup (map snd (remove_ser ser l)).
Proof.
  induction l as [|[s o] r IH]; cbn; auto. intro ND. inversion ND as [|? ? N D]; subst.
  destruct (Nat.eqb s ser); cbn; auto. constructor; auto.
  intro X. apply N. apply in_map_iff in X. destruct X as [[a b] [E I]]. cbn in E; subst b.
  apply remove_ser_subset in I. change o with (snd (a, o)). now apply in_map.
Qed.

(* ------------------------------------------------------------------ reference machine: frame facts *)
Lemma r_add_log_logs r k es x : r_logs (r_add_log r k es) x = if Nat.eqb x k then r_logs r x ++ es else r_logs r x.
Proof. reflexivity. Qed.

(* ------------------------------------------------------------------ the simulation relation (plain Subject) *)
Record Rel (s : sk) (r : sref) : Prop := {
  R_reg : map snd (sk_obs s) = r_reg r;
  R_logs : forall k, sk_logs s k = r_logs r k;
  R_entry : forall ser k, In (ser, k) (sk_obs s) ->
              sk_ser s k = Some ser /\ sk_ualive s k = true /\ sk_td s k = true /\ sk_unsub s k = true /\ sk_used s k = true;
  R_fresh : forall k ser, sk_ser s k = Some ser -> ser <= sk_serial s;
  R_own : forall k ser k', sk_ser s k = Some ser -> In (ser, k') (sk_obs s) -> k' = k;
  R_nd1 : NoDup (map fst (sk_obs s));
  R_nd2 : NoDup (map snd (sk_obs s));
  R_unused : forall k, sk_used s k = false -> sk_unsub s k = false /\ sk_ser s k = None }.

(* broadcast of one event to the registered observers, on both sides *)
Lemma bcast_sim e : forall (l : list nat) (s : sk) (r : sref),
  NoDup l -> (forall k, In k l -> sk_ualive s k = true) -> (forall k, sk_logs s k = r_logs r k) ->
  let s' := fold_left (fun acc k => u_deliver acc k e) l s in
  let r' := fold_left (fun acc k => r_add_log acc k [e]) l r in
  (forall k, sk_logs s' k = r_logs r' k) /\
  sk_obs s' = sk_obs s /\ sk_serial s' = sk_serial s /\ sk_ser s' = sk_ser s /\ sk_td s' = sk_td s /\ sk_unsub s' = sk_unsub s /\
  sk_used s' = sk_used s /\ sk_last s' = sk_last s /\ sk_err s' = sk_err s /\ sk_items s' = sk_items s /\ sk_done s' = sk_done s /\
  (forall k, sk_ualive s' k = if is_term e && existsb (Nat.eqb k) l then false else sk_ualive s k) /\
  r_reg r' = r_reg r /\ r_items r' = r_items r /\ r_term r' = r_term r.
Proof.
  induction l as [|k l IH]; intros s r ND AL LG; cbn [fold_left].
  - cbn. repeat split; auto. intro k. now rewrite andb_false_r.
  - inversion ND as [|? ? NI ND']; subst.
    assert (A : sk_ualive s k = true) by (apply AL; now left).
    set (s1 := u_deliver s k e). set (r1 := r_add_log r k [e]).
    assert (L1 : forall x, sk_logs s1 x = r_logs r1 x).
    { intro x. subst s1 r1. unfold u_deliver. rewrite A. rewrite r_add_log_logs.
      destruct (is_term e); cbn; unfold updf; destruct (Nat.eqb x k) eqn:E; try (apply Nat.eqb_eq in E; subst); rewrite ?LG; auto. }
    assert (A1 : forall x, In x l -> sk_ualive s1 x = true).
    { intros x Hx. subst s1. unfold u_deliver. rewrite A. destruct (is_term e); cbn; [| apply AL; now right].
      unfold updf. destruct (Nat.eqb x k) eqn:E; [apply Nat.eqb_eq in E; subst; contradiction | apply AL; now right]. }
    destruct (IH s1 r1 ND' A1 L1) as (H1 & H2 & H3 & H4 & H5 & H6 & H7 & H8 & H9 & H10 & H11 & H12 & H13 & H14 & H15).
    assert (F : sk_obs s1 = sk_obs s /\ sk_serial s1 = sk_serial s /\ sk_ser s1 = sk_ser s /\ sk_td s1 = sk_td s /\ sk_unsub s1 = sk_unsub s /\
                sk_used s1 = sk_used s /\ sk_last s1 = sk_last s /\ sk_err s1 = sk_err s /\ sk_items s1 = sk_items s /\ sk_done s1 = sk_done s).
    { subst s1. unfold u_deliver. rewrite A. destruct (is_term e); cbn; repeat split; reflexivity. }
    destruct F as (F2 & F3 & F4 & F5 & F6 & F7 & F8 & F9 & F10 & F11).
    repeat split; try congruence.
    intro x. rewrite H12. cbn [existsb]. subst s1. unfold u_deliver. rewrite A.
    destruct (is_term e) eqn:T; cbn.
    + unfold updf. destruct (Nat.eqb x k) eqn:E; cbn; [now destruct (existsb (Nat.eqb x) l) | reflexivity].
    + reflexivity.
    + rewrite H13. reflexivity.
    + rewrite H14. reflexivity.
    + rewrite H15. reflexivity.
Qed.

Definition sub_handles (script : list action) : list nat :=
  flat_map (fun a => match a with DSub k _ _ => [k] | _ => [] end) script.

Lemma existsb_eqb_in k l : existsb (Nat.eqb k) l = true <-> In k l.
Proof.
  rewrite existsb_exists. split.
  - intros [x [I E]]. apply Nat.eqb_eq in E. now subst.
  - intro I. exists k. split; auto. apply Nat.eqb_refl.
Qed.

Lemma rel_step s r a :
  Rel s r ->
  (match a with DSub k (PHot 0) [] => sk_used s k = false | DEmit h _ => h = 0 | DUnsub _ => True | _ => False end) ->
  Rel (sk_step KSubject s a) (sref_step KSubject r a).
Proof.
  intros [Rg Lg En Fr Ow N1 N2 Un] Ha.
  destruct a as [k p rs | k | h e | | |]; try contradiction.
  - (* subscribe *)
    destruct p; try contradiction. destruct h; try contradiction. destruct rs; try contradiction.
    cbn [sk_step]. rewrite Ha. cbn [sref_step].
    destruct (Un k Ha) as [U1 U2].
    assert (NI : ~ In k (map snd (sk_obs s))).
    { intro X. apply in_map_iff in X. destruct X as [[ser k'] [E I]]. cbn in E; subst. destruct (En _ _ I) as (_ & _ & _ & _ & X). congruence. }
    assert (NS : ~ In (S (sk_serial s)) (map fst (sk_obs s))).
    { intro X. apply in_map_iff in X. destruct X as [[ser k'] [E I]]. cbn in E; subst. destruct (En _ _ I) as (X & _). apply Fr in X. lia. }
    unfold inner_join. constructor; cbn.
    + rewrite map_app. cbn. now rewrite Rg.
    + exact Lg.
    + intros ser k' HI. apply in_app_or in HI. destruct HI as [HI | [HI | []]].
      * destruct (En _ _ HI) as (A & B & C & D & E). unfold updf.
        assert (k' <> k). { intro; subst. apply NI. change k with (snd (ser, k)). now apply in_map. }
        destruct (Nat.eqb k' k) eqn:Q; [apply Nat.eqb_eq in Q; contradiction|]. auto.
      * inversion HI; subst. unfold updf. rewrite Nat.eqb_refl. auto.
    + intros k' ser. unfold updf. destruct (Nat.eqb k' k).
      * intros [= <-]. lia.
      * intro X. apply Fr in X. lia.
    + intros k1 ser k2. unfold updf. destruct (Nat.eqb k1 k) eqn:Q.
      * apply Nat.eqb_eq in Q; subst. intros [= <-] HI. apply in_app_or in HI. destruct HI as [HI | [HI | []]].
        -- exfalso. apply NS. change (S (sk_serial s)) with (fst (S (sk_serial s), k2)). now apply in_map.
        -- now inversion HI.
      * intros X HI. apply in_app_or in HI. destruct HI as [HI | [HI | []]].
        -- eapply Ow; eauto.
        -- inversion HI; subst. apply Fr in X. lia.
    + rewrite map_app. cbn. apply NoDup_app_comm_single; assumption.
    + rewrite map_app. cbn. apply NoDup_app_comm_single; assumption.
    + intros k'. unfold updf. destruct (Nat.eqb k' k); [discriminate | apply Un].
  - (* unsubscribe *)
    cbn [sk_step sref_step].
    destruct (sk_unsub s k) eqn:UK.
    + unfold u_unsubscribe. cbn.
      destruct (sk_td s k) eqn:TD.
      * (* teardown: remove own serial *)
        unfold inner_remove. cbn.
        destruct (sk_ser s k) as [ser|] eqn:SK.
        -- destruct (in_dec (fun a b => Nat.eq_dec a b) ser (map fst (sk_obs s))) as [I | NI].
           ++ apply in_map_iff in I. destruct I as [[ser' k'] [E I]]. cbn in E; subst ser'.
              assert (k' = k) by (eapply Ow; eauto). subst k'.
              constructor; cbn.
              ** rewrite <- Rg. apply remove_ser_spec; assumption.
              ** exact Lg.
              ** intros s0 k0 HI. pose proof (remove_ser_subset _ _ _ HI) as HI0. destruct (En _ _ HI0) as (A & B & C & D & E).
                 assert (k0 <> k).
                 { intro; subst k0. rewrite SK in A. injection A as <-.
                   assert (X : In k (map snd (remove_ser ser (sk_obs s)))) by (change k with (snd (ser, k)); now apply in_map).
                   rewrite (remove_ser_spec ser k) in X by assumption. apply filter_In in X. rewrite Nat.eqb_refl in X. cbn in X. destruct X; discriminate. }
                 unfold updf. destruct (Nat.eqb k0 k) eqn:Q; [apply Nat.eqb_eq in Q; contradiction|]. auto.
              ** exact Fr.
              ** intros k1 s1 k2 X HI. apply remove_ser_subset in HI. eapply Ow; eauto.
              ** now apply remove_ser_nodup_fst.
              ** now apply remove_ser_nodup_snd.
              ** intros k0 X. unfold updf. destruct (Nat.eqb k0 k) eqn:Q.
                 --- apply Nat.eqb_eq in Q; subst. destruct (Un _ X). congruence.
                 --- apply Un; auto.
           ++ (* stale serial: the entry is already gone (a terminal cleared the map) *)
              rewrite remove_ser_absent by exact NI.
              assert (NK : ~ In k (map snd (sk_obs s))).
              { intro X. apply in_map_iff in X. destruct X as [[s0 k0] [E I]]. cbn in E; subst k0. destruct (En _ _ I) as (A & _).
                rewrite SK in A. injection A as <-. apply NI. change ser with (fst (ser, k)). now apply in_map. }
              constructor; cbn; auto.
              ** rewrite <- Rg. symmetry. apply forallb_filter_id. apply forallb_forall. intros x Hx.
                 destruct (Nat.eqb x k) eqn:Q; auto. apply Nat.eqb_eq in Q; subst. contradiction.
              ** intros s0 k0 HI. destruct (En _ _ HI) as (A & B & C & D & E).
                 assert (k0 <> k). { intro; subst. apply NK. change k with (snd (s0, k)). now apply in_map. }
                 unfold updf. destruct (Nat.eqb k0 k) eqn:Q; [apply Nat.eqb_eq in Q; contradiction|]. auto.
              ** intros k0 X. unfold updf. destruct (Nat.eqb k0 k) eqn:Q.
                 --- apply Nat.eqb_eq in Q; subst. destruct (Un _ X). congruence.
                 --- apply Un; auto.
        -- (* no serial: never registered - impossible for a used handle of a plain subject, but harmless *)
           assert (NK : ~ In k (map snd (sk_obs s))).
           { intro X. apply in_map_iff in X. destruct X as [[s0 k0] [E I]]. cbn in E; subst k0. destruct (En _ _ I) as (A & _). congruence. }
           constructor; cbn; auto.
           ** rewrite <- Rg. symmetry. apply forallb_filter_id. apply forallb_forall. intros x Hx.
              destruct (Nat.eqb x k) eqn:Q; auto. apply Nat.eqb_eq in Q; subst. contradiction.
           ** intros s0 k0 HI. destruct (En _ _ HI) as (A & B & C & D & E).
              assert (k0 <> k). { intro; subst. apply NK. change k with (snd (s0, k)). now apply in_map. }
              unfold updf. destruct (Nat.eqb k0 k) eqn:Q; [apply Nat.eqb_eq in Q; contradiction|]. auto.
           ** intros k0 X. unfold updf. destruct (Nat.eqb k0 k) eqn:Q.
              --- apply Nat.eqb_eq in Q; subst. destruct (Un _ X). congruence.
              --- apply Un; auto.
      * (* no teardown left *)
        assert (NK : ~ In k (map snd (sk_obs s))).
        { intro X. apply in_map_iff in X. destruct X as [[s0 k0] [E I]]. cbn in E; subst k0. destruct (En _ _ I) as (_ & _ & C & _). congruence. }
        constructor; cbn; auto.
        ** rewrite <- Rg. symmetry. apply forallb_filter_id. apply forallb_forall. intros x Hx.
           destruct (Nat.eqb x k) eqn:Q; auto. apply Nat.eqb_eq in Q; subst. contradiction.
        ** intros s0 k0 HI. destruct (En _ _ HI) as (A & B & C & D & E).
           assert (k0 <> k). { intro; subst. apply NK. change k with (snd (s0, k)). now apply in_map. }
           unfold updf. destruct (Nat.eqb k0 k) eqn:Q; [apply Nat.eqb_eq in Q; contradiction|]. auto.
        ** intros k0 X. unfold updf. destruct (Nat.eqb k0 k) eqn:Q.
           --- apply Nat.eqb_eq in Q; subst. destruct (Un _ X). congruence.
           --- apply Un; auto.
    + (* the Subscription was already used (or never existed): nothing happens; the handle is not registered *)
      assert (NK : ~ In k (map snd (sk_obs s))).
      { intro X. apply in_map_iff in X. destruct X as [[s0 k0] [E I]]. cbn in E; subst k0. destruct (En _ _ I) as (_ & _ & _ & D & _). congruence. }
      constructor; cbn; auto.
      rewrite <- Rg. symmetry. apply forallb_filter_id. apply forallb_forall. intros x Hx.
      destruct (Nat.eqb x k) eqn:Q; auto. apply Nat.eqb_eq in Q; subst. contradiction.
  - (* emit *)
    subst h. cbn [sk_step]. unfold inner_broadcast.
    assert (AL : forall k, In k (map snd (sk_obs s)) -> sk_ualive s k = true).
    { intros k X. apply in_map_iff in X. destruct X as [[s0 k0] [E I]]. cbn in E; subst k0. now destruct (En _ _ I) as (_ & B & _). }
    destruct e as [v | x |].
    + (* next *)
      cbn [is_term sref_step]. unfold r_deliver.
      set (r0 := r_push r v).
      assert (L0 : forall k, sk_logs s k = r_logs r0 k) by exact Lg.
      destruct (bcast_sim (Nx v) (map snd (sk_obs s)) s r0 N2 AL L0) as (H1 & H2 & H3 & H4 & H5 & H6 & H7 & H8 & H9 & H10 & H11 & H12 & H13 & H14 & H15).
      change (r_reg r0) with (r_reg r). rewrite <- Rg.
      change (fun acc k => f_deliver KSubject acc k (Nx v)) with (fun acc k => u_deliver acc k (Nx v)).
      constructor; try rewrite H2; try rewrite H3; try rewrite H4; try rewrite H5; try rewrite H6; try rewrite H7; auto.
      * rewrite H13. exact Rg.
      * intros ser k HI. destruct (En _ _ HI) as (A & B & C & D & E). rewrite H12. cbn. auto.
    + (* error *)
      cbn [is_term sref_step]. unfold r_deliver.
      set (r0 := r_set_term r (Er x)).
      assert (L0 : forall k, sk_logs (s_obs s []) k = r_logs r0 k) by exact Lg.
      destruct (bcast_sim (Er x) (map snd (sk_obs s)) (s_obs s []) r0 N2 AL L0) as (H1 & H2 & H3 & H4 & H5 & H6 & H7 & H8 & H9 & H10 & H11 & H12 & H13 & H14 & H15).
      change (r_reg r0) with (r_reg r). rewrite <- Rg.
      change (fun acc k => f_deliver KSubject acc k (Er x)) with (fun acc k => u_deliver acc k (Er x)).
      cbn in H2, H3, H4, H5, H6, H7.
      constructor; try rewrite H2; try rewrite H3; try rewrite H4; try rewrite H5; try rewrite H6; try rewrite H7; cbn; auto; try (intros; contradiction); try apply NoDup_nil.
    + (* complete *)
      cbn [is_term sref_step]. unfold r_deliver.
      set (r0 := r_set_term r Co).
      assert (L0 : forall k, sk_logs (s_obs s []) k = r_logs r0 k) by exact Lg.
      destruct (bcast_sim Co (map snd (sk_obs s)) (s_obs s []) r0 N2 AL L0) as (H1 & H2 & H3 & H4 & H5 & H6 & H7 & H8 & H9 & H10 & H11 & H12 & H13 & H14 & H15).
      change (r_reg r0) with (r_reg r). rewrite <- Rg.
      change (fun acc k => f_deliver KSubject acc k Co) with (fun acc k => u_deliver acc k Co).
      cbn in H2, H3, H4, H5, H6, H7.
      constructor; try rewrite H2; try rewrite H3; try rewrite H4; try rewrite H5; try rewrite H6; try rewrite H7; cbn; auto; try (intros; contradiction); try apply NoDup_nil.
Qed.

(* ------------------------------------------------------------------ `used` bookkeeping *)
Lemma u_deliver_used s k e : sk_used (u_deliver s k e) = sk_used s.
Proof. unfold u_deliver. destruct (sk_ualive s k); auto. destruct (is_term e); reflexivity. Qed.
Lemma fold_deliver_used e l : forall s, sk_used (fold_left (fun acc k => u_deliver acc k e) l s) = sk_used s.
Proof. induction l as [|k l IH]; intro s; cbn [fold_left]; auto. rewrite IH. apply u_deliver_used. Qed.

Lemma used_step s a k :
  sk_used (sk_step KSubject s a) k = sk_used s k || match a with DSub k' _ _ => Nat.eqb k k' | _ => false end.
Proof.
  destruct a as [k' p rs | k' | h e | | |]; cbn [sk_step]; try now rewrite orb_false_r.
  - destruct (sk_used s k') eqn:U.
    + destruct (Nat.eqb k k') eqn:E; [apply Nat.eqb_eq in E; subst; rewrite U; reflexivity | now rewrite orb_false_r].
    + unfold inner_join. cbn. unfold updf. destruct (Nat.eqb k k'); [now rewrite orb_true_r | now rewrite orb_false_r].
  - rewrite orb_false_r. destruct (sk_unsub s k'); auto. unfold u_unsubscribe. cbn.
    destruct (sk_td s k'); cbn; auto. unfold inner_remove. cbn. destruct (sk_ser s k'); reflexivity.
  - rewrite orb_false_r. unfold inner_broadcast.
    change (fun acc k0 => f_deliver KSubject acc k0 e) with (fun acc k0 => u_deliver acc k0 e).
    rewrite fold_deliver_used. destruct (is_term e); reflexivity.
Qed.

Lemma rel_init : Rel (sk0 None) (sref0 None).
Proof. constructor; cbn; auto; try constructor; try (intros; contradiction); try discriminate. Qed.

Lemma rel_run : forall script s r,
  Rel s r -> plain_history script = true -> NoDup (sub_handles script) ->
  (forall k, In k (sub_handles script) -> sk_used s k = false) ->
  Rel (fold_left (sk_step KSubject) script s) (fold_left (sref_step KSubject) script r).
Proof.
  induction script as [|a script IH]; intros s r HR PH ND UN; cbn [fold_left]; auto.
  cbn [plain_history forallb] in PH. apply andb_prop in PH. destruct PH as [Pa PH].
  apply IH; auto.
  - apply rel_step; auto.
    destruct a as [k p rs | k | h e | | |]; try discriminate; auto.
    + destruct p; try discriminate. destruct h; try discriminate. destruct rs; try discriminate.
      apply UN. cbn. now left.
    + now apply Nat.eqb_eq in Pa.
  - destruct a; cbn in ND; auto. now inversion ND.
  - intros k Hk. rewrite used_step. rewrite UN.
    + destruct a as [k' p rs | | | | |]; auto. cbn.
      destruct (Nat.eqb k k') eqn:E; auto. apply Nat.eqb_eq in E; subst. cbn in ND. inversion ND; contradiction.
    + destruct a; cbn; auto.
Qed.

(* C10, plain Subject: for every call history - any number of observers (each subscribing once),
   values and calls, in any order, including calls after the terminal and repeated unsubscription -
   every observer's log is the reference machine's, and the observer map holds exactly the reference's
   registered observers. *)
Theorem subject_refines_reference script :
  plain_history script = true -> NoDup (sub_handles script) ->
  let s := sk_run KSubject None script in
  let r := fold_left (sref_step KSubject) script (sref0 None) in
  (forall k, sk_logs s k = r_logs r k) /\ map snd (sk_obs s) = r_reg r.
Proof.
  intros PH ND. cbn zeta. unfold sk_run.
  pose proof (rel_run script (sk0 None) (sref0 None) rel_init PH ND (fun k _ => eq_refl)) as [Rg Lg _ _ _ _ _ _].
  split; assumption.
Qed.

(* ------------------------------------------------------------------ history cells of the history-keeping kinds *)
(* what has been pushed so far / the stored terminal, read off the call list *)
Definition pushed (script : list action) : list val :=
  flat_map (fun a => match a with DEmit _ (Nx v) => [v] | _ => [] end) script.
Definition first_terminal (script : list action) : option ev :=
  fold_left (fun acc a => match acc, a with
                          | None, DEmit _ (Er x) => Some (Er x)
                          | None, DEmit _ Co => Some Co
                          | _, _ => acc
                          end) script None.

Definition same_cells (s' s : sk) : Prop :=
  sk_last s' = sk_last s /\ sk_err s' = sk_err s /\ sk_items s' = sk_items s /\ sk_done s' = sk_done s.
Lemma sc_refl s : same_cells s s. Proof. repeat split. Qed.
Lemma sc_trans a b c : same_cells a b -> same_cells b c -> same_cells a c.
Proof. intros (A & B & C & D) (A' & B' & C' & D'). repeat split; congruence. Qed.
Lemma sc_udeliver s k e : same_cells (u_deliver s k e) s.
Proof. unfold u_deliver. destruct (sk_ualive s k); [| apply sc_refl]. destruct (is_term e); repeat split. Qed.
Lemma sc_fold l : forall s k, same_cells (fold_left (fun acc v => u_deliver acc k (Nx v)) l s) s.
Proof. induction l as [|v l IH]; intros s k; cbn [fold_left]; [apply sc_refl |]. eapply sc_trans; [apply IH | apply sc_udeliver]. Qed.
Lemma sc_funsub s k : same_cells (f_unsubscribe s k) s.
Proof. unfold f_unsubscribe, inner_remove. cbn. destruct (sk_ser s k); repeat split. Qed.
Ltac sc_set := match goal with |- same_cells _ _ => repeat split end.

Lemma fdeliver_cells kind e k s : same_cells (f_deliver kind s k e) s.
Proof.
  destruct kind; cbn [f_deliver].
  - apply sc_udeliver.
  - destruct (sk_falive s k); [| apply sc_refl]. destruct (is_term e); (eapply sc_trans; [apply sc_udeliver | sc_set]).
  - destruct (sk_falive s k); [| apply sc_refl].
    destruct (is_term e); destruct (sk_ready s k); try (eapply sc_trans; [apply sc_udeliver | sc_set]); sc_set.
  - destruct (sk_falive s k); [| apply sc_refl]. destruct e as [v | x |].
    + sc_set.
    + eapply sc_trans; [apply sc_funsub |]. eapply sc_trans; [apply sc_udeliver | sc_set].
    + eapply sc_trans; [apply sc_funsub |]. eapply sc_trans; [apply sc_udeliver |]. eapply sc_trans; [apply sc_fold | sc_set].
Qed.

Lemma broadcast_cells kind e s : same_cells (inner_broadcast kind s e) s.
Proof.
  unfold inner_broadcast.
  set (s1 := if is_term e then s_obs s [] else s).
  assert (E1 : same_cells s1 s) by (subst s1; destruct (is_term e); sc_set).
  generalize (map snd (sk_obs s)). intro l. revert E1. generalize s1. clear s1.
  induction l as [|k l IH]; intros s1 E1; cbn [fold_left]; auto.
  apply IH. eapply sc_trans; [apply fdeliver_cells | exact E1].
Qed.

(* ReplaySubject / BehaviorSubject: after ANY history (observers coming and going, including after the
   terminal) the history cells change only by the push calls: they hold exactly what was pushed, which is
   what the hand-over replays. *)
Lemma step_cells_sub kind s a :
  match a with DEmit _ _ => True | _ => same_cells (sk_step kind s a) s end.
Proof.
  destruct a as [k p rs | k | h e | | |]; cbn [sk_step]; auto; try apply sc_refl.
  - destruct (sk_used s k); [apply sc_refl |]. destruct kind.
    + unfold inner_join. sc_set.
    + cbn. destruct (sk_err s); [eapply sc_trans; [apply sc_udeliver | sc_set] |].
      destruct (sk_last s) as [v|]; [| eapply sc_trans; [apply sc_udeliver | sc_set]].
      match goal with |- context [u_deliver ?s0 k (Nx v)] => set (s1 := u_deliver s0 k (Nx v)); assert (E : same_cells s1 s) by (subst s1; eapply sc_trans; [apply sc_udeliver | sc_set]) end.
      destruct (sk_ualive s1 k); [| exact E]. unfold inner_join. eapply sc_trans; [| exact E]. sc_set.
    + match goal with |- context [fold_left ?f (sk_items ?s2') ?s2'] => set (s2 := s2'); set (s3 := fold_left f (sk_items s2) s2) end.
      assert (E2 : same_cells s2 s) by (subst s2; unfold inner_join; sc_set).
      assert (E3 : same_cells s3 s) by (subst s3; eapply sc_trans; [apply sc_fold | exact E2]).
      set (s4 := match sk_err s3 with Some x => u_deliver s3 k (Er x) | None => if sk_done s3 then u_deliver s3 k Co else s_ready s3 (updf (sk_ready s3) k true) end).
      assert (E4 : same_cells s4 s).
      { subst s4. destruct (sk_err s3); [eapply sc_trans; [apply sc_udeliver | exact E3] |].
        destruct (sk_done s3); [eapply sc_trans; [apply sc_udeliver | exact E3] | eapply sc_trans; [| exact E3]; sc_set]. }
      destruct (sk_ualive s4 k); [exact E4 | eapply sc_trans; [apply sc_funsub | exact E4]].
    + unfold inner_join. sc_set.
  - destruct (sk_unsub s k); [| apply sc_refl]. unfold u_unsubscribe. cbn.
    destruct (sk_td s k); cbn; [| sc_set].
    destruct kind; cbn.
    + unfold inner_remove. cbn. destruct (sk_ser s k); sc_set.
    + destruct (sk_falive s k); cbn; [| sc_set]. eapply sc_trans; [sc_set | eapply sc_trans; [apply sc_funsub | sc_set]].
    + destruct (sk_falive s k); cbn; [| sc_set]. eapply sc_trans; [sc_set | eapply sc_trans; [apply sc_funsub | sc_set]].
    + destruct (sk_falive s k); cbn; [| sc_set]. eapply sc_trans; [sc_set | eapply sc_trans; [apply sc_funsub | sc_set]].
Qed.

Lemma step_cells_emit kind s h e :
  let s' := sk_step kind s (DEmit h e) in
  let s1 := match kind, e with
            | KBehavior, Nx v => s_last s (Some v)
            | KBehavior, Er x => s_err s (Some x)
            | KBehavior, Co => s_last s None
            | KReplay, Nx v => s_items s (sk_items s ++ [v])
            | KReplay, Er x => s_err s (Some x)
            | KReplay, Co => s_done s true
            | _, _ => s
            end in
  same_cells s' s1.
Proof. cbn zeta. cbn [sk_step]. apply broadcast_cells. Qed.

(* the history a ReplaySubject holds after any plain history = everything pushed, in order *)
Theorem replay_items_are_pushed script :
  sk_items (sk_run KReplay None script) = pushed script.
Proof.
  unfold sk_run. change (pushed script) with (sk_items (sk0 None) ++ pushed script).
  generalize (sk0 None). induction script as [|a script IH]; intro s; cbn [fold_left]; [cbn; now rewrite app_nil_r |].
  rewrite IH. destruct a as [k p rs | k | h e | | |].
  - destruct (step_cells_sub KReplay s (DSub k p rs)) as (_ & _ & C & _). now rewrite C.
  - destruct (step_cells_sub KReplay s (DUnsub k)) as (_ & _ & C & _). now rewrite C.
  - destruct (step_cells_emit KReplay s h e) as (_ & _ & C & _). rewrite C. destruct e; cbn; auto. now rewrite <- app_assoc.
  - destruct (step_cells_sub KReplay s (DConnect k x)) as (_ & _ & C & _). now rewrite C.
  - destruct (step_cells_sub KReplay s (DDisconnect x)) as (_ & _ & C & _). now rewrite C.
  - destruct (step_cells_sub KReplay s (DPush s0 e)) as (_ & _ & C & _). now rewrite C.
Qed.

(* the value a BehaviorSubject hands over after any plain history without a terminal = the last pushed (or the initial one) *)
Theorem behavior_last_is_latest init script :
  first_terminal script = None ->
  let s := sk_run KBehavior (Some init) script in
  sk_last s = Some (last (pushed script) init) /\ sk_err s = None.
Proof.
  unfold sk_run. intro NT. cbn zeta.
  assert (G : forall script s v0, sk_last s = Some v0 -> sk_err s = None ->
              fold_left (fun acc a => match acc, a with None, DEmit _ (Er x) => Some (Er x) | None, DEmit _ Co => Some Co | _, _ => acc end) script None = None ->
              sk_last (fold_left (sk_step KBehavior) script s) = Some (last (pushed script) v0) /\ sk_err (fold_left (sk_step KBehavior) script s) = None).
  { clear. induction script as [|a script IH]; intros s v0 HL HE NT; cbn [fold_left]; [cbn; auto |].
    assert (NT' : fold_left (fun acc a => match acc, a with None, DEmit _ (Er x) => Some (Er x) | None, DEmit _ Co => Some Co | _, _ => acc end) script None = None /\
                  match a with DEmit _ (Er _) | DEmit _ Co => False | _ => True end).
    { cbn [fold_left] in NT. destruct a as [| | h e | | |]; auto. destruct e; auto.
      - exfalso. clear -NT. assert (X : forall l t, fold_left (fun acc a => match acc, a with None, DEmit _ (Er x) => Some (Er x) | None, DEmit _ Co => Some Co | _, _ => acc end) l (Some t) = Some t)
          by (induction l as [|a l IHl]; intro t; cbn; auto). rewrite X in NT. discriminate.
      - exfalso. clear -NT. assert (X : forall l t, fold_left (fun acc a => match acc, a with None, DEmit _ (Er x) => Some (Er x) | None, DEmit _ Co => Some Co | _, _ => acc end) l (Some t) = Some t)
          by (induction l as [|a l IHl]; intro t; cbn; auto). rewrite X in NT. discriminate. }
    destruct NT' as [NT1 NA].
    destruct a as [k p rs | k | h e | k x | x | sm em].
    - destruct (step_cells_sub KBehavior s (DSub k p rs)) as (A & B & _ & _). apply IH; auto; congruence.
    - destruct (step_cells_sub KBehavior s (DUnsub k)) as (A & B & _ & _). apply IH; auto; congruence.
    - destruct e as [v | |]; try contradiction.
      destruct (step_cells_emit KBehavior s h (Nx v)) as (A & B & _ & _). cbn in A, B.
      destruct (IH (sk_step KBehavior s (DEmit h (Nx v))) v A (eq_trans B HE) NT1) as [R1 R2]. split; auto.
      rewrite R1. cbn [pushed flat_map app]. f_equal. fold (pushed script).
      assert (LD : forall (l : list val) x d d', last (x :: l) d = last (x :: l) d')
        by (induction l as [|y l IHl]; intros x d d'; [reflexivity | change (last (y :: l) d = last (y :: l) d'); apply IHl]).
      destruct (pushed script) as [|v1 l]; [reflexivity |]. change (last (v1 :: l) v = last (v1 :: l) v0). apply LD.
    - destruct (step_cells_sub KBehavior s (DConnect k x)) as (A & B & _ & _). apply IH; auto; congruence.
    - destruct (step_cells_sub KBehavior s (DDisconnect x)) as (A & B & _ & _). apply IH; auto; congruence.
    - destruct (step_cells_sub KBehavior s (DPush sm em)) as (A & B & _ & _). apply IH; auto; congruence. }
  apply G; auto.
Qed.
