(* C12 (plain Subject): under every interleaving of any number of producers with a subscribing and an
   unsubscribing thread, the observer receives from each producer a GAP-FREE, duplicate-free, in-order block
   of that producer's items; the whole script if it was subscribed throughout. *)
From Coq Require Import List Bool Arith Lia.
From RX Require Import ConcSubject.
Import ListNotations.

(* how many of p's items have been decided for o: delivered-or-skipped *)
Definition seen (pr : sprod) : nat := match sp_pos pr with SPast => S (sp_k pr) | _ => sp_k pr end.

Lemma got_app p l x : got p (l ++ [x]) = if Nat.eqb (fst (fst x)) p then got p l ++ [snd (fst x)] else got p l.
Proof. unfold got. rewrite filter_app, map_app. cbn. destruct (Nat.eqb (fst (fst x)) p); cbn; auto using app_nil_r. Qed.

Record SInv (c : scfg) : Prop := {
  si_gone : s_joined c = true -> s_inmap c = false -> s_alive c = false;          (* left the map => slots were cleared first *)
  si_notyet : s_joined c = false -> s_inmap c = false /\ s_log c = [];
  si_cleared : s_leave c <> 0 -> s_alive c = false;
  si_pending : forall p, sp_pos (s_prod c p) = SPending -> s_joined c = true;
  si_block : forall p, exists a, got p (s_log c) = seq a (length (got p (s_log c))) /\
                                 a + length (got p (s_log c)) <= seen (s_prod c p) /\
                                 (got p (s_log c) <> [] -> s_joined c = true /\ (a + length (got p (s_log c)) = seen (s_prod c p) \/ s_alive c = false)) }.

Lemma sinv_init scripts : SInv (sinit scripts).
Proof.
  constructor; cbn; auto; try discriminate; try (intro H; exfalso; apply H; reflexivity).
  intro p. exists 0. unfold got. cbn. split; [reflexivity | split; [lia | intro H; exfalso; apply H; reflexivity]].
Qed.

Lemma seq_snoc a n : seq a n ++ [a + n] = seq a (S n).
Proof.
  revert a. induction n as [|n IH]; intro a; [cbn; now rewrite Nat.add_0_r |].
  change (seq a (S (S n))) with (a :: seq (S a) (S n)). change (seq a (S n)) with (a :: seq (S a) n).
  cbn [app]. f_equal. rewrite <- IH. f_equal. f_equal. lia.
Qed.

Arguments got : simpl never.
Ltac s3 := split; [| split].

Theorem sstep_inv c a : SInv c -> SInv (sstep c a).
Proof.
  intros I0. pose proof I0 as [Gn Ny Cl Pe Bl]. destruct a as [p | p | p | | |]; cbn [sstep].
  - (* snapshot *)
    destruct (sp_pos (s_prod c p)) eqn:PP; try exact I0.
    destruct (Nat.ltb (sp_k (s_prod c p)) (length (sp_script (s_prod c p)))); [| exact I0].
    constructor; cbn [s_inmap s_alive s_joined s_leave s_prod s_log].
    + exact Gn.
    + exact Ny.
    + exact Cl.
    + intros q. unfold supd. destruct (Nat.eqb q p) eqn:E; [| apply Pe]. cbn [sp_pos].
      destruct (s_inmap c) eqn:IM; [| discriminate]. intros _.
      destruct (s_joined c) eqn:J; auto. destruct (Ny eq_refl). congruence.
    + intro q. destruct (Bl q) as (a & A1 & A2 & A3). exists a. unfold supd. destruct (Nat.eqb q p) eqn:E; [| s3; assumption].
      apply Nat.eqb_eq in E. subst q. unfold seen in *. rewrite PP in *. cbn [sp_pos sp_k].
      destruct (s_inmap c) eqn:IM.
      * s3; assumption.
      * s3; [assumption | lia |]. intro NE. destruct (A3 NE) as [J X]. split; auto.
  - (* the call of o's next *)
    destruct (sp_pos (s_prod c p)) eqn:PP; try exact I0.
    pose proof (Pe p PP) as J.
    constructor; cbn [s_inmap s_alive s_joined s_leave s_prod s_log].
    + exact Gn.
    + intros NJ. congruence.
    + exact Cl.
    + intros q. unfold supd. destruct (Nat.eqb q p); [discriminate | apply Pe].
    + intro q. destruct (Bl q) as (a & A1 & A2 & A3). unfold supd.
      destruct (s_alive c) eqn:AL.
      * rewrite got_app. cbn [fst snd]. destruct (Nat.eqb p q) eqn:E.
        -- apply Nat.eqb_eq in E. subst q. rewrite Nat.eqb_refl. unfold seen in *. rewrite PP in *. cbn [sp_pos sp_k].
           destruct (got p (s_log c)) as [|g gs] eqn:G.
           ++ exists (sp_k (s_prod c p)). cbn. s3; [reflexivity | lia |]. intros _. split; auto. left. lia.
           ++ assert (NE : g :: gs <> []) by discriminate. destruct (A3 NE) as [_ [X | X]]; [| congruence].
              set (L := g :: gs) in *.
              exists a. rewrite app_length. change (length [sp_k (s_prod c p)]) with 1. rewrite Nat.add_1_r. rewrite <- seq_snoc. rewrite <- A1.
              s3; [now rewrite X | lia |]. intros _. split; auto. left. lia.
        -- rewrite (Nat.eqb_sym q p), E. exists a. s3; assumption.
      * exists a. destruct (Nat.eqb q p) eqn:E; [| s3; assumption]. apply Nat.eqb_eq in E. subst q.
        unfold seen in *. rewrite PP in *. cbn [sp_pos sp_k]. s3; [assumption | lia |]. intro NE. destruct (A3 NE). split; auto.
  - (* the rest of the broadcast of this item is over *)
    destruct (sp_pos (s_prod c p)) eqn:PP; try exact I0.
    constructor; cbn [s_inmap s_alive s_joined s_leave s_prod s_log].
    + exact Gn.
    + exact Ny.
    + exact Cl.
    + intros q. unfold supd. destruct (Nat.eqb q p); [discriminate | apply Pe].
    + intro q. destruct (Bl q) as (a & A1 & A2 & A3). exists a. unfold supd. destruct (Nat.eqb q p) eqn:E; [| s3; assumption].
      apply Nat.eqb_eq in E. subst q. unfold seen in *. rewrite PP in *. cbn [sp_pos sp_k]. s3; assumption.
  - (* subscribe *)
    destruct (s_joined c) eqn:J; [exact I0 |].
    destruct (Ny eq_refl) as [IM LG].
    constructor; cbn [s_inmap s_alive s_joined s_leave s_prod s_log].
    + discriminate.
    + discriminate.
    + exact Cl.
    + auto.
    + intro q. exists 0. rewrite LG. unfold got. cbn. s3; [reflexivity | lia | intro H; exfalso; apply H; reflexivity].
  - (* unsubscribe, first half: the slots *)
    destruct (Nat.eqb (s_leave c) 0); [| exact I0].
    constructor; cbn [s_inmap s_alive s_joined s_leave s_prod s_log].
    + auto.
    + exact Ny.
    + auto.
    + exact Pe.
    + intro q. destruct (Bl q) as (a & A1 & A2 & A3). exists a. s3; [assumption | assumption |]. intro NE. destruct (A3 NE). split; auto.
  - (* unsubscribe, second half: remove from the map *)
    destruct (Nat.eqb (s_leave c) 1) eqn:U; [| exact I0].
    apply Nat.eqb_eq in U.
    assert (AL : s_alive c = false) by (apply Cl; lia).
    constructor; cbn [s_inmap s_alive s_joined s_leave s_prod s_log].
    + auto.
    + intros NJ. destruct (Ny NJ). auto.
    + auto.
    + exact Pe.
    + exact Bl.
Qed.

Theorem srun_inv acts : forall c, SInv c -> SInv (srun acts c).
Proof. induction acts as [|a r IH]; intros c I; cbn; auto. apply IH. now apply sstep_inv. Qed.

(* from each producer the observer receives a block of CONSECUTIVE items, each once, in order *)
Theorem subject_gap_free scripts acts p :
  exists a, got p (s_log (srun acts (sinit scripts))) = seq a (length (got p (s_log (srun acts (sinit scripts))))).
Proof.
  destruct (si_block _ (srun_inv acts _ (sinv_init scripts)) p) as (a & A1 & _). exists a. exact A1.
Qed.

(* the values are the script's *)
Lemma log_values acts : forall c,
  (forall p k v, In (p, k, v) (s_log c) -> v = nth k (sp_script (s_prod c p)) 0) /\ True ->
  (forall p, sp_script (s_prod (srun acts c) p) = sp_script (s_prod c p)) /\
  (forall p k v, In (p, k, v) (s_log (srun acts c)) -> v = nth k (sp_script (s_prod c p)) 0).
Proof.
  induction acts as [|a r IH]; intros c [H _]; cbn [srun fold_left]; [split; auto |].
  assert (S1 : forall p, sp_script (s_prod (sstep c a) p) = sp_script (s_prod c p)).
  { intro p. destruct a as [q | q | q | | |]; cbn [sstep];
      try (destruct (sp_pos (s_prod c q)); try reflexivity; try (destruct (Nat.ltb _ _); try reflexivity); cbn; unfold supd; destruct (Nat.eqb p q) eqn:E; try reflexivity; apply Nat.eqb_eq in E; now subst);
      try (destruct (s_joined c); reflexivity); try (destruct (Nat.eqb _ _); reflexivity). }
  assert (H1 : forall p k v, In (p, k, v) (s_log (sstep c a)) -> v = nth k (sp_script (s_prod (sstep c a) p)) 0).
  { intros p k v I. rewrite S1. destruct a as [q | q | q | | |]; cbn [sstep] in I;
      try (destruct (sp_pos (s_prod c q)); try (destruct (Nat.ltb _ _)); cbn in I; auto; fail);
      try (destruct (s_joined c); cbn in I; auto; fail); try (destruct (Nat.eqb _ _); cbn in I; auto; fail).
    destruct (sp_pos (s_prod c q)); cbn in I; auto. destruct (s_alive c); auto.
    apply in_app_or in I. destruct I as [I | [I | []]]; auto. inversion I; subst. reflexivity. }
  destruct (IH (sstep c a) (conj H1 I)) as [A B]. split.
  - intro p. rewrite A. apply S1.
  - intros p k v I. rewrite (B p k v I). now rewrite S1.
Qed.

(* subscribed throughout: joined before the producers started, never unsubscribed => every item, once, in order *)
Definition Through (c : scfg) : Prop :=
  s_alive c = true /\ s_inmap c = true /\ s_leave c = 0 /\ s_joined c = true /\ forall q, got q (s_log c) = seq 0 (seen (s_prod c q)).

Lemma through_step c a : a <> SClear -> Through c -> Through (sstep c a).
Proof.
  intros NA (AL & IM & US & J & B). destruct a as [p | p | p | | |]; cbn [sstep]; try contradiction.
  - destruct (sp_pos (s_prod c p)) eqn:PP; try (repeat split; assumption).
    destruct (Nat.ltb _ _); [| repeat split; assumption].
    repeat split; cbn [s_inmap s_alive s_joined s_leave s_prod s_log]; auto.
    intro x. unfold supd. destruct (Nat.eqb x p) eqn:E; [| apply B]. apply Nat.eqb_eq in E. subst x.
    rewrite IM. rewrite B. unfold seen. now rewrite PP.
  - destruct (sp_pos (s_prod c p)) eqn:PP; try (repeat split; assumption).
    repeat split; cbn [s_inmap s_alive s_joined s_leave s_prod s_log]; auto.
    intro x. rewrite AL. rewrite got_app. cbn [fst snd]. unfold supd.
    destruct (Nat.eqb x p) eqn:E.
    + apply Nat.eqb_eq in E. subst x. rewrite Nat.eqb_refl. rewrite B. unfold seen. rewrite PP. cbn [sp_pos sp_k]. apply (seq_snoc 0).
    + rewrite (Nat.eqb_sym p x), E. apply B.
  - destruct (sp_pos (s_prod c p)) eqn:PP; try (repeat split; assumption).
    repeat split; cbn [s_inmap s_alive s_joined s_leave s_prod s_log]; auto.
    intro x. unfold supd. destruct (Nat.eqb x p) eqn:E; [| apply B]. apply Nat.eqb_eq in E. subst x. rewrite B. unfold seen. now rewrite PP.
  - rewrite J. repeat split; assumption.
  - rewrite US. cbn. repeat split; assumption.
Qed.

Theorem subject_all_items scripts acts p :
  (forall a, In a acts -> a <> SClear) ->
  let c := srun (SJoin :: acts) (sinit scripts) in
  got p (s_log c) = seq 0 (seen (s_prod c p)).
Proof.
  intros NC. cbn zeta.
  assert (T0 : Through (sstep (sinit scripts) SJoin)).
  { cbn. repeat split; auto. }
  assert (G : forall acts c, (forall a, In a acts -> a <> SClear) -> Through c -> Through (srun acts c)).
  { clear. induction acts as [|a r IH]; intros c NC T; cbn [srun fold_left]; auto.
    apply IH; [intros x Hx; apply NC; now right |]. apply through_step; auto. apply NC. now left. }
  destruct (G acts _ NC T0) as (_ & _ & _ & _ & B). apply B.
Qed.
