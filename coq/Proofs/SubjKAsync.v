(* C10, AsyncSubject: the automaton of subjects/async_subject.rs (= subject.observable().take_last(1): the take_last
   node's upstream observer registered in the inner Subject, its one-item buffer) refines the reference machine
   (Oracle2.sref_step) for EVERY call history in which the subject is not used after its own terminal: on completion
   every registered subscriber gets the last item pushed since it joined, then complete; on error the error only. *)
From Coq Require Import List ZArith Bool Arith Lia.
From RX Require Import Val Syntax Step Oracle Oracle2 SubjK.
From RXP Require Import SubjKRef SubjKReplay SubjKBehavior.
Import ListNotations.

Definition lastl (l : list val) : list val := match last (map Some l) None with Some v => [v] | None => [] end.
Lemma lastl_app l v : lastl (l ++ [v]) = [v].
Proof. unfold lastl. now rewrite last_some_app. Qed.
Lemma lastl_len l : length (lastl l) <= 1.
Proof. unfold lastl. destruct (last (map Some l) None); cbn; lia. Qed.
Lemma push1 (b : list val) v : length b <= 1 -> push_last_n 1 b v = [v].
Proof. destruct b as [|x [|y t]]; cbn; intros; try reflexivity; lia. Qed.

(* per-handle log extension on the reference side *)
Lemma r_fold_logs (F : nat -> list ev) : forall l r, NoDup l ->
  let r' := fold_left (fun acc k => r_add_log acc k (F k)) l r in
  (forall j, r_logs r' j = if existsb (Nat.eqb j) l then r_logs r j ++ F j else r_logs r j) /\
  r_reg r' = r_reg r /\ r_items r' = r_items r /\ r_term r' = r_term r /\ r_joined_at r' = r_joined_at r.
Proof.
  induction l as [|k l IH]; intros r ND; cbn [fold_left existsb]; [repeat split; auto|].
  inversion ND as [|? ? NI ND']; subst.
  destruct (IH (r_add_log r k (F k)) ND') as (A & B & C & D & E). cbn zeta in *. repeat split; auto.
  intro j. rewrite A, r_add_log_logs. destruct (Nat.eqb j k) eqn:Q; cbn [orb]; auto.
  apply Nat.eqb_eq in Q. subst j.
  assert (X : existsb (Nat.eqb k) l = false).
  { destruct (existsb (Nat.eqb k) l) eqn:X; auto. apply existsb_eqb_in in X. contradiction. }
  now rewrite X.
Qed.

(* an item: every registered take_last node remembers it *)
Lemma async_item_fold v : forall (l : list nat) (s : sk),
  NoDup l -> (forall k, In k l -> sk_falive s k = true /\ length (sk_buf s k) <= 1) ->
  let s' := fold_left (fun acc k => f_deliver KAsync acc k (Nx v)) l s in
  (sk_obs s', sk_serial s', sk_last s', sk_err s', sk_items s', sk_done s', sk_used s', sk_ualive s', sk_falive s', sk_ready s', sk_ser s', sk_td s', sk_unsub s', sk_logs s') =
  (sk_obs s, sk_serial s, sk_last s, sk_err s, sk_items s, sk_done s, sk_used s, sk_ualive s, sk_falive s, sk_ready s, sk_ser s, sk_td s, sk_unsub s, sk_logs s) /\
  (forall k, sk_buf s' k = if existsb (Nat.eqb k) l then [v] else sk_buf s k).
Proof.
  induction l as [|k l IH]; intros s ND AL; cbn [fold_left existsb]; [split; auto|].
  inversion ND as [|? ? NI ND']; subst.
  destruct (AL k (or_introl eq_refl)) as (F & B).
  assert (E1 : f_deliver KAsync s k (Nx v) = s_buf s (updf (sk_buf s) k [v])).
  { unfold f_deliver. rewrite F. now rewrite push1. }
  rewrite E1.
  assert (AL1 : forall x, In x l -> sk_falive (s_buf s (updf (sk_buf s) k [v])) x = true /\ length (sk_buf (s_buf s (updf (sk_buf s) k [v])) x) <= 1).
  { intros x Hx. destruct (AL x (or_intror Hx)) as (F' & B'). cbn. split; auto. unfold updf. destruct (Nat.eqb x k); cbn; auto. }
  destruct (IH _ ND' AL1) as (A & C). cbn zeta in *. split; [rewrite A; reflexivity|].
  intro x. rewrite C. cbn. unfold updf. destruct (Nat.eqb x k) eqn:Q; cbn [orb]; [| reflexivity].
  now destruct (existsb (Nat.eqb x) l).
Qed.

(* a terminal (the inner Subject has cleared its map already): error -> the error; complete -> the buffered item, complete;
   then finalize: the node's upstream observer is unsubscribed *)
Definition term_out (e : ev) (b : list val) : list ev :=
  match e with Co => map Nx b ++ [Co] | Er x => [Er x] | Nx _ => [] end.

Lemma async_term_one s k e : is_term e = true -> sk_obs s = [] -> sk_falive s k = true -> sk_ualive s k = true ->
  let s' := f_deliver KAsync s k e in
  (sk_obs s', sk_serial s', sk_last s', sk_err s', sk_items s', sk_done s', sk_used s', sk_ready s', sk_td s', sk_unsub s', sk_buf s') =
  (sk_obs s, sk_serial s, sk_last s, sk_err s, sk_items s, sk_done s, sk_used s, sk_ready s, sk_td s, sk_unsub s, sk_buf s) /\
  (forall j, sk_logs s' j = if Nat.eqb j k then sk_logs s j ++ term_out e (sk_buf s k) else sk_logs s j) /\
  (forall j, sk_ualive s' j = if Nat.eqb j k then false else sk_ualive s j) /\
  (forall j, sk_falive s' j = if Nat.eqb j k then false else sk_falive s j) /\
  (forall j, sk_ser s' j = if Nat.eqb j k then None else sk_ser s j).
Proof.
  intros T OB F A. cbn zeta. unfold f_deliver. rewrite F.
  destruct e as [v | x |]; [discriminate | |].
  - (* error *)
    set (s1 := s_falive s (updf (sk_falive s) k false)).
    assert (A1 : sk_ualive s1 k = true) by exact A.
    set (s2 := u_deliver s1 k (Er x)).
    pose proof (u_deliver_rest s1 k (Er x)) as R. fold s2 in R. unfold rest in R.
    injection R as Q1 Q2 Q3 Q4 Q5 Q6 Q7 Q8 Q9 Q10 Q11 Q12 Q13.
    assert (L2 : forall j, sk_logs s2 j = if Nat.eqb j k then sk_logs s j ++ [Er x] else sk_logs s j).
    { intro j. subst s2. rewrite u_deliver_logs, A1. cbn [andb]. reflexivity. }
    assert (U2 : forall j, sk_ualive s2 j = if Nat.eqb j k then false else sk_ualive s j).
    { intro j. subst s2. rewrite u_deliver_ualive, A1. cbn [andb is_term]. reflexivity. }
    clearbody s2. unfold f_unsubscribe, inner_remove. cbn [sk_ser s_falive sk_obs].
    assert (O2 : sk_obs s2 = []) by (rewrite Q1; exact OB).
    destruct (sk_ser s2 k) eqn:SK; cbn; rewrite ?O2; cbn; repeat split; auto; try congruence.
    all: try (intro j; unfold updf; rewrite ?Q8, ?Q10; cbn; unfold updf; destruct (Nat.eqb j k); auto).
    all: try (rewrite Q2, Q3, Q4, Q5, Q6, Q7, Q9, Q11, Q12, Q13, OB; reflexivity).
  - (* complete *)
    set (s1 := s_falive s (updf (sk_falive s) k false)).
    assert (A1 : sk_ualive s1 k = true) by exact A.
    destruct (items_fold k (sk_buf s1 k) s1 A1) as (R3 & U3 & L3). cbn zeta in *.
    set (s3 := fold_left (fun acc v => u_deliver acc k (Nx v)) (sk_buf s1 k) s1) in *.
    assert (A3 : sk_ualive s3 k = true) by (rewrite U3; exact A1).
    set (s2 := u_deliver s3 k Co).
    pose proof (u_deliver_rest s3 k Co) as R. fold s2 in R. rewrite R3 in R. unfold rest in R.
    injection R as Q1 Q2 Q3 Q4 Q5 Q6 Q7 Q8 Q9 Q10 Q11 Q12 Q13.
    assert (L2 : forall j, sk_logs s2 j = if Nat.eqb j k then sk_logs s j ++ (map Nx (sk_buf s k) ++ [Co]) else sk_logs s j).
    { intro j. subst s2. rewrite u_deliver_logs, A3. cbn [andb]. rewrite L3. change (sk_logs s1 j) with (sk_logs s j). change (sk_buf s1 k) with (sk_buf s k).
      destruct (Nat.eqb j k); [now rewrite app_assoc | reflexivity]. }
    assert (U2 : forall j, sk_ualive s2 j = if Nat.eqb j k then false else sk_ualive s j).
    { intro j. subst s2. rewrite u_deliver_ualive, A3. cbn [andb is_term]. rewrite U3. reflexivity. }
    clearbody s2 s3. unfold f_unsubscribe, inner_remove. cbn [sk_ser s_falive sk_obs].
    assert (O2 : sk_obs s2 = []) by (rewrite Q1; exact OB).
    destruct (sk_ser s2 k) eqn:SK; cbn; rewrite ?O2; cbn; repeat split; auto; try congruence.
    all: try (intro j; unfold updf; rewrite ?Q8, ?Q10; cbn; unfold updf; destruct (Nat.eqb j k); auto).
    all: try (rewrite Q2, Q3, Q4, Q5, Q6, Q7, Q9, Q11, Q12, Q13, OB; reflexivity).
Qed.

Lemma async_term_fold e : is_term e = true -> forall (l : list nat) (s : sk),
  NoDup l -> sk_obs s = [] -> (forall k, In k l -> sk_falive s k = true /\ sk_ualive s k = true) ->
  let s' := fold_left (fun acc k => f_deliver KAsync acc k e) l s in
  (sk_obs s', sk_serial s', sk_last s', sk_err s', sk_items s', sk_done s', sk_used s', sk_ready s', sk_td s', sk_unsub s', sk_buf s') =
  (sk_obs s, sk_serial s, sk_last s, sk_err s, sk_items s, sk_done s, sk_used s, sk_ready s, sk_td s, sk_unsub s, sk_buf s) /\
  (forall j, sk_logs s' j = if existsb (Nat.eqb j) l then sk_logs s j ++ term_out e (sk_buf s j) else sk_logs s j) /\
  (forall j, sk_ualive s' j = if existsb (Nat.eqb j) l then false else sk_ualive s j) /\
  (forall j, sk_falive s' j = if existsb (Nat.eqb j) l then false else sk_falive s j) /\
  (forall j, sk_ser s' j = if existsb (Nat.eqb j) l then None else sk_ser s j).
Proof.
  intro T. induction l as [|k l IH]; intros s ND OB AL; cbn [fold_left existsb]; [repeat split; auto|].
  inversion ND as [|? ? NI ND']; subst.
  destruct (AL k (or_introl eq_refl)) as (F & A).
  destruct (async_term_one s k e T OB F A) as (R1 & L1 & U1 & F1 & S1). cbn zeta in *.
  set (s1 := f_deliver KAsync s k e) in *.
  injection R1 as Q1 Q2 Q3 Q4 Q5 Q6 Q7 Q8 Q9 Q10 Q11.
  assert (OB1 : sk_obs s1 = []) by (rewrite Q1; exact OB).
  assert (AL1 : forall x, In x l -> sk_falive s1 x = true /\ sk_ualive s1 x = true).
  { intros x Hx. assert (NE : Nat.eqb x k = false) by (apply Nat.eqb_neq; intro; subst; contradiction).
    rewrite F1, U1, NE. apply AL. now right. }
  destruct (IH s1 ND' OB1 AL1) as (R2 & L2 & U2 & F2 & S2). clearbody s1.
  split; [rewrite R2, Q1, Q2, Q3, Q4, Q5, Q6, Q7, Q8, Q9, Q10, Q11; reflexivity|].
  assert (X : forall j, Nat.eqb j k = true -> existsb (Nat.eqb j) l = false).
  { intros j Q. apply Nat.eqb_eq in Q. subst j. destruct (existsb (Nat.eqb k) l) eqn:X; auto. apply existsb_eqb_in in X. contradiction. }
  repeat split; intro j.
  - rewrite L2, L1, Q11. destruct (Nat.eqb j k) eqn:Q; cbn [orb]; [rewrite (X j Q); apply Nat.eqb_eq in Q; subst j; reflexivity | reflexivity].
  - rewrite U2, U1. destruct (Nat.eqb j k) eqn:Q; cbn [orb]; [now destruct (existsb (Nat.eqb j) l) | reflexivity].
  - rewrite F2, F1. destruct (Nat.eqb j k) eqn:Q; cbn [orb]; [now destruct (existsb (Nat.eqb j) l) | reflexivity].
  - rewrite S2, S1. destruct (Nat.eqb j k) eqn:Q; cbn [orb]; [now destruct (existsb (Nat.eqb j) l) | reflexivity].
Qed.

(* ------------------------------------------------------------------ the simulation relation *)
Record RelA (s : sk) (r : sref) : Prop := {
  A_reg : map snd (sk_obs s) = r_reg r;
  A_logs : forall k, sk_logs s k = r_logs r k;
  A_entry : forall ser k, In (ser, k) (sk_obs s) ->
              sk_ser s k = Some ser /\ sk_ualive s k = true /\ sk_falive s k = true /\
              sk_td s k = true /\ sk_unsub s k = true /\ sk_used s k = true /\
              sk_buf s k = lastl (skipn (r_joined_at r k) (r_items r)) /\ r_joined_at r k <= length (r_items r);
  A_fresh : forall k ser, sk_ser s k = Some ser -> ser <= sk_serial s;
  A_own : forall k ser k', sk_ser s k = Some ser -> In (ser, k') (sk_obs s) -> k' = k;
  A_nd1 : NoDup (map fst (sk_obs s));
  A_nd2 : NoDup (map snd (sk_obs s));
  A_unused : forall k, sk_used s k = false -> sk_unsub s k = false /\ sk_ser s k = None;
  A_gone : forall k, ~ In k (map snd (sk_obs s)) -> sk_falive s k = false }.

Lemma skipn_app_le {A} n (l : list A) x : n <= length l -> skipn n (l ++ [x]) = skipn n l ++ [x].
Proof. revert n. induction l as [|y l IH]; intros [|n] H; cbn in *; auto; try lia. apply IH. lia. Qed.

Lemma rela_step s r a :
  RelA s r ->
  (match a with
   | DSub k (PHot 0) [] => sk_used s k = false
   | DEmit h _ => h = 0
   | DUnsub _ => True
   | _ => False
   end) ->
  RelA (sk_step KAsync s a) (sref_step KAsync r a).
Proof.
  intros [Rg Lg En Fr Ow N1 N2 Un Gn] Ha.
  destruct a as [k p rs | k | h e | | |]; try contradiction.
  - (* subscribe: join, empty buffer *)
    destruct p; try contradiction. destruct h; try contradiction. destruct rs; try contradiction.
    cbn [sk_step]. rewrite Ha. cbn [sref_step].
    destruct (Un k Ha) as [U1 U2].
    assert (NI : ~ In k (map snd (sk_obs s))).
    { intro X. apply in_map_iff in X. destruct X as [[ser k'] [E I]]. cbn in E; subst. destruct (En _ _ I) as (_ & _ & _ & _ & _ & X & _). congruence. }
    assert (NS : ~ In (S (sk_serial s)) (map fst (sk_obs s))).
    { intro X. apply in_map_iff in X. destruct X as [[ser k'] [E I]]. cbn in E; subst. destruct (En _ _ I) as (X & _). apply Fr in X. lia. }
    unfold inner_join, r_join. constructor; cbn.
    + rewrite map_app. cbn. now rewrite Rg.
    + exact Lg.
    + intros ser k' HI. unfold updf.
      apply in_app_or in HI. destruct HI as [HI | [HI | []]].
      * destruct (En _ _ HI) as (A & B & C & D & E & F & G & H).
        assert (k' <> k) by (intro; subst; apply NI; eapply in_snd; eauto).
        destruct (Nat.eqb k' k) eqn:Q; [apply Nat.eqb_eq in Q; contradiction|]. auto 12.
      * inversion HI; subst. rewrite Nat.eqb_refl. repeat split; auto.
        rewrite skipn_all. reflexivity.
    + intros k' ser. unfold updf. destruct (Nat.eqb k' k).
      * intros [= <-]. lia.
      * intro X. apply Fr in X. lia.
    + intros k1 ser k2. unfold updf. destruct (Nat.eqb k1 k) eqn:Q.
      * apply Nat.eqb_eq in Q; subst. intros [= <-] HI. apply in_app_or in HI. destruct HI as [HI | [HI | []]].
        -- exfalso. apply NS. eapply in_fst; eauto.
        -- now inversion HI.
      * intros X HI. apply in_app_or in HI. destruct HI as [HI | [HI | []]].
        -- eapply Ow; eauto.
        -- inversion HI; subst. apply Fr in X. lia.
    + rewrite map_app. cbn. apply NoDup_app_comm_single; assumption.
    + rewrite map_app. cbn. apply NoDup_app_comm_single; assumption.
    + intros k'. unfold updf. destruct (Nat.eqb k' k); [discriminate | apply Un].
    + intros k' NK. unfold updf. rewrite map_app in NK. cbn in NK.
      destruct (Nat.eqb k' k) eqn:Q.
      * apply Nat.eqb_eq in Q; subst. exfalso. apply NK. apply in_or_app. right. now left.
      * apply Gn. intro X. apply NK. apply in_or_app. now left.
  - (* unsubscribe *)
    cbn [sk_step sref_step].
    destruct (sk_unsub s k) eqn:UK.
    + unfold u_unsubscribe. cbn [s_ualive s_unsub sk_td sk_falive].
      destruct (sk_td s k) eqn:TD.
      * destruct (sk_falive s k) eqn:FK.
        -- assert (IK : In k (map snd (sk_obs s))).
           { destruct (in_dec Nat.eq_dec k (map snd (sk_obs s))) as [I|NI]; auto. rewrite (Gn k NI) in FK. discriminate. }
           apply in_map_iff in IK. destruct IK as [[ser k'] [E I]]. cbn in E; subst k'.
           destruct (En _ _ I) as (SK & _).
           unfold f_unsubscribe, inner_remove. cbn. rewrite SK. cbn.
           constructor; cbn.
           ++ rewrite <- Rg. apply remove_ser_spec; assumption.
           ++ exact Lg.
           ++ intros s0 k0 HI. pose proof (remove_ser_subset _ _ _ HI) as HI0. destruct (En _ _ HI0) as (A & B & C & D & E & F & G & H).
              assert (k0 <> k).
              { intro; subst k0. rewrite SK in A. injection A as <-.
                assert (X : In k (map snd (remove_ser ser (sk_obs s)))) by (eapply in_snd; eauto).
                rewrite (remove_ser_spec ser k) in X by assumption. apply filter_In in X. rewrite Nat.eqb_refl in X. cbn in X. destruct X; discriminate. }
              unfold updf. destruct (Nat.eqb k0 k) eqn:Q; [apply Nat.eqb_eq in Q; contradiction|]. auto 12.
           ++ intros k0 s0. unfold updf. destruct (Nat.eqb k0 k); [discriminate | apply Fr].
           ++ intros k1 s1 k2. unfold updf. destruct (Nat.eqb k1 k); [discriminate|]. intros X HI. apply remove_ser_subset in HI. eapply Ow; eauto.
           ++ now apply remove_ser_nodup_fst.
           ++ now apply remove_ser_nodup_snd.
           ++ intros k0 X. unfold updf. destruct (Nat.eqb k0 k) eqn:Q.
              ** apply Nat.eqb_eq in Q; subst. destruct (Un _ X). congruence.
              ** apply Un; auto.
           ++ intros k0 NK. unfold updf. destruct (Nat.eqb k0 k) eqn:Q; auto. apply Gn. intro X. apply NK.
              rewrite (remove_ser_spec ser k) by assumption. apply filter_In. split; auto. now rewrite Q.
        -- assert (NK : ~ In k (map snd (sk_obs s))).
           { intro X. apply in_map_iff in X. destruct X as [[s0 k0] [E I]]. cbn in E; subst k0. destruct (En _ _ I) as (_ & _ & C & _). congruence. }
           constructor; cbn; auto.
           ++ rewrite <- Rg. symmetry. now apply filter_id_notin.
           ++ intros s0 k0 HI. destruct (En _ _ HI) as (A & B & C & D & E & F & G & H).
              assert (k0 <> k) by (intro; subst; apply NK; eapply in_snd; eauto).
              unfold updf. destruct (Nat.eqb k0 k) eqn:Q; [apply Nat.eqb_eq in Q; contradiction|]. auto 12.
           ++ intros k0 X. unfold updf. destruct (Nat.eqb k0 k) eqn:Q.
              ** apply Nat.eqb_eq in Q; subst. destruct (Un _ X). congruence.
              ** apply Un; auto.
      * assert (NK : ~ In k (map snd (sk_obs s))).
        { intro X. apply in_map_iff in X. destruct X as [[s0 k0] [E I]]. cbn in E; subst k0. destruct (En _ _ I) as (_ & _ & _ & C & _). congruence. }
        constructor; cbn; auto.
        ++ rewrite <- Rg. symmetry. now apply filter_id_notin.
        ++ intros s0 k0 HI. destruct (En _ _ HI) as (A & B & C & D & E & F & G & H).
           assert (k0 <> k) by (intro; subst; apply NK; eapply in_snd; eauto).
           unfold updf. destruct (Nat.eqb k0 k) eqn:Q; [apply Nat.eqb_eq in Q; contradiction|]. auto 12.
        ++ intros k0 X. unfold updf. destruct (Nat.eqb k0 k) eqn:Q.
           ** apply Nat.eqb_eq in Q; subst. destruct (Un _ X). congruence.
           ** apply Un; auto.
    + assert (NK : ~ In k (map snd (sk_obs s))).
      { intro X. apply in_map_iff in X. destruct X as [[s0 k0] [E I]]. cbn in E; subst k0. destruct (En _ _ I) as (_ & _ & _ & _ & D & _). congruence. }
      constructor; cbn; auto.
      rewrite <- Rg. symmetry. now apply filter_id_notin.
  - (* emit *)
    subst h. cbn [sk_step]. unfold inner_broadcast.
    assert (AL : forall k, In k (map snd (sk_obs s)) -> sk_falive s k = true /\ sk_ualive s k = true).
    { intros k X. apply in_map_iff in X. destruct X as [[s0 k0] [E I]]. cbn in E; subst k0. destruct (En _ _ I) as (_ & B & C & _). auto. }
    destruct e as [v | x |]; cbn [is_term sref_step].
    + (* an item: buffered, nothing delivered *)
      assert (ALB : forall k, In k (map snd (sk_obs s)) -> sk_falive s k = true /\ length (sk_buf s k) <= 1).
      { intros k X. split; [apply AL; exact X|]. apply in_map_iff in X. destruct X as [[s0 k0] [E I]]. cbn in E; subst k0.
        destruct (En _ _ I) as (_ & _ & _ & _ & _ & _ & G & _). rewrite G. apply lastl_len. }
      destruct (async_item_fold v (map snd (sk_obs s)) s N2 ALB) as (T & B). cbn zeta in *.
      set (s' := fold_left (fun acc k => f_deliver KAsync acc k (Nx v)) (map snd (sk_obs s)) s) in *.
      injection T as G1 G2 G3 G4 G5 G6 G7 G8 G9 G10 G11 G12 G13 G14. clearbody s'.
      constructor; cbn [r_push r_reg r_logs r_items r_joined_at].
      * rewrite G1. exact Rg.
      * intro k. rewrite G14. apply Lg.
      * intros ser k HI. rewrite G1 in HI. destruct (En _ _ HI) as (A & B' & C & D & E & F & G & H).
        rewrite G11, G8, G9, G12, G13, G7, B. repeat split; auto.
        -- assert (X : existsb (Nat.eqb k) (map snd (sk_obs s)) = true) by (apply existsb_eqb_in; eapply in_snd; eauto).
           rewrite X. rewrite skipn_app_le by exact H. now rewrite lastl_app.
        -- rewrite app_length. cbn. lia.
      * intros k ser. rewrite G11, G2. apply Fr.
      * intros k ser k'. rewrite G11, G1. apply Ow.
      * rewrite G1. exact N1.
      * rewrite G1. exact N2.
      * intros k. rewrite G7, G13, G11. apply Un.
      * intros k NK. rewrite G1 in NK. rewrite G9. now apply Gn.
    + (* error *)
      set (s1 := s_obs s []).
      assert (AL1 : forall k, In k (map snd (sk_obs s)) -> sk_falive s1 k = true /\ sk_ualive s1 k = true) by exact AL.
      destruct (async_term_fold (Er x) eq_refl (map snd (sk_obs s)) s1 N2 eq_refl AL1) as (T & L & U & F & S). cbn zeta in *.
      set (s' := fold_left (fun acc k => f_deliver KAsync acc k (Er x)) (map snd (sk_obs s)) s1) in *.
      injection T as G1 G2 G3 G4 G5 G6 G7 G8 G9 G10 G11. clearbody s'.
      unfold r_deliver. cbn [r_set_term r_reg].
      destruct (r_fold_logs (fun _ => [Er x]) (r_reg r) (r_set_term r (Er x))) as (RL & RR & RI & RT & RJ); [rewrite <- Rg; exact N2|]. cbn zeta in *.
      constructor; cbn [r_set_reg r_reg r_logs r_items r_joined_at].
      * rewrite G1. reflexivity.
      * intro k. rewrite L, RL, <- Rg. cbn [term_out r_set_term r_logs]. subst s1. cbn. rewrite Lg. reflexivity.
      * rewrite G1. intros ? ? [].
      * intros k ser. rewrite S, G2. destruct (existsb (Nat.eqb k) (map snd (sk_obs s))); [discriminate | apply Fr].
      * rewrite G1. intros ? ? ? _ [].
      * rewrite G1. constructor.
      * rewrite G1. constructor.
      * intros k. rewrite G7, G10, S. intro X. destruct (Un _ X) as [Y Z]. split; [exact Y|].
        destruct (existsb (Nat.eqb k) (map snd (sk_obs s))); [reflexivity | exact Z].
      * intros k _. rewrite F. destruct (existsb (Nat.eqb k) (map snd (sk_obs s))) eqn:X; auto.
        apply Gn. intro Y. apply existsb_eqb_in in Y. subst s1. cbn in *. congruence.
    + (* complete: the buffered item, then complete *)
      set (s1 := s_obs s []).
      assert (AL1 : forall k, In k (map snd (sk_obs s)) -> sk_falive s1 k = true /\ sk_ualive s1 k = true) by exact AL.
      destruct (async_term_fold Co eq_refl (map snd (sk_obs s)) s1 N2 eq_refl AL1) as (T & L & U & F & S). cbn zeta in *.
      set (s' := fold_left (fun acc k => f_deliver KAsync acc k Co) (map snd (sk_obs s)) s1) in *.
      injection T as G1 G2 G3 G4 G5 G6 G7 G8 G9 G10 G11. clearbody s'.
      set (FF := fun k => match last (map Some (skipn (r_joined_at r k) (r_items r))) None with Some v => [Nx v; Co] | None => [Co] end).
      destruct (r_fold_logs FF (r_reg r) r) as (RL & RR & RI & RT & RJ); [rewrite <- Rg; exact N2|]. cbn zeta in *.
      constructor; cbn [r_set_reg r_set_term r_reg r_logs r_items r_joined_at].
      * rewrite G1. reflexivity.
      * intro k. rewrite L. fold FF. rewrite RL, <- Rg. subst s1. cbn [sk_logs sk_buf s_obs]. rewrite Lg.
        destruct (existsb (Nat.eqb k) (map snd (sk_obs s))) eqn:X; [|reflexivity].
        apply existsb_eqb_in in X. apply in_map_iff in X. destruct X as [[s0 k0] [E I]]. cbn in E; subst k0.
        destruct (En _ _ I) as (_ & _ & _ & _ & _ & _ & G & _). rewrite G. unfold FF, lastl, term_out.
        destruct (last (map Some (skipn (r_joined_at r k) (r_items r))) None); reflexivity.
      * rewrite G1. intros ? ? [].
      * intros k ser. rewrite S, G2. destruct (existsb (Nat.eqb k) (map snd (sk_obs s))); [discriminate | apply Fr].
      * rewrite G1. intros ? ? ? _ [].
      * rewrite G1. constructor.
      * rewrite G1. constructor.
      * intros k. rewrite G7, G10, S. intro X. destruct (Un _ X) as [Y Z]. split; [exact Y|].
        destruct (existsb (Nat.eqb k) (map snd (sk_obs s))); [reflexivity | exact Z].
      * intros k _. rewrite F. destruct (existsb (Nat.eqb k) (map snd (sk_obs s))) eqn:X; auto.
        apply Gn. intro Y. apply existsb_eqb_in in Y. subst s1. cbn in *. congruence.
Qed.

(* ------------------------------------------------------------------ `used` bookkeeping *)
Lemma fdel_used_a s k e : sk_used (f_deliver KAsync s k e) = sk_used s.
Proof.
  unfold f_deliver. destruct (sk_falive s k); auto. destruct e as [v | x |]; [reflexivity | |].
  - rewrite funsub_used, u_deliver_used. reflexivity.
  - rewrite funsub_used, u_deliver_used, fold_items_used. reflexivity.
Qed.
Lemma fold_fdel_used_a e l : forall s, sk_used (fold_left (fun acc k => f_deliver KAsync acc k e) l s) = sk_used s.
Proof. induction l as [|k l IH]; intro s; cbn [fold_left]; auto. rewrite IH. apply fdel_used_a. Qed.

Lemma used_step_async s a k :
  sk_used (sk_step KAsync s a) k = sk_used s k || match a with DSub k' _ _ => Nat.eqb k k' | _ => false end.
Proof.
  destruct a as [k' p rs | k' | h e | | |]; try (cbn [sk_step]; now rewrite orb_false_r).
  - cbn [sk_step]. destruct (sk_used s k') eqn:U.
    + destruct (Nat.eqb k k') eqn:E; [apply Nat.eqb_eq in E; subst; rewrite U; reflexivity | now rewrite orb_false_r].
    + unfold inner_join. cbn. unfold updf. destruct (Nat.eqb k k'); [now rewrite orb_true_r | now rewrite orb_false_r].
  - cbn [sk_step]. rewrite orb_false_r. destruct (sk_unsub s k'); auto. unfold u_unsubscribe. cbn [s_ualive s_unsub sk_td sk_falive].
    destruct (sk_td s k'); cbn; auto. destruct (sk_falive s k'); [rewrite funsub_used|]; reflexivity.
  - cbn [sk_step]. rewrite orb_false_r. unfold inner_broadcast. rewrite fold_fdel_used_a. destruct e; destruct (is_term _); reflexivity.
Qed.

Lemma rela_init : RelA (sk0 None) (sref0 None).
Proof. constructor; cbn; auto; try (now constructor); try (intros; contradiction); try discriminate. Qed.

Lemma rela_run : forall script s r,
  RelA s r -> plain_history script = true -> NoDup (sub_handles script) ->
  (forall k, In k (sub_handles script) -> sk_used s k = false) ->
  RelA (fold_left (sk_step KAsync) script s) (fold_left (sref_step KAsync) script r).
Proof.
  induction script as [|a script IH]; intros s r HR PH ND UN; cbn [fold_left]; auto.
  cbn [plain_history forallb] in PH. apply andb_prop in PH. destruct PH as [Pa PH].
  apply IH; auto.
  - apply rela_step; auto.
    destruct a as [k p rs | k | h e | | |]; try discriminate; auto.
    + destruct p; try discriminate. destruct h; try discriminate. destruct rs; try discriminate.
      apply UN. cbn. now left.
    + now apply Nat.eqb_eq in Pa.
  - destruct a; cbn in ND; auto. now inversion ND.
  - intros k Hk. rewrite used_step_async. rewrite UN.
    + destruct a as [k' p rs | | | | |]; auto. cbn.
      destruct (Nat.eqb k k') eqn:E; auto. apply Nat.eqb_eq in E; subst. cbn in ND. inversion ND; contradiction.
    + destruct a; cbn; auto.
Qed.

(* C10, AsyncSubject: for EVERY call history (use after the terminal included - an AsyncSubject keeps no memory of it)
   every observer's log is the reference machine's: nothing until the subject completes, then the last item pushed since
   the observer joined followed by complete; an error alone on failure; and the inner Subject holds exactly the
   reference's registered observers. *)
Theorem async_refines_reference script :
  plain_history script = true -> NoDup (sub_handles script) ->
  let s := sk_run KAsync None script in
  let r := fold_left (sref_step KAsync) script (sref0 None) in
  (forall k, sk_logs s k = r_logs r k) /\ map snd (sk_obs s) = r_reg r.
Proof.
  intros PH ND. cbn zeta. unfold sk_run.
  pose proof (rela_run script (sk0 None) (sref0 None) rela_init PH ND (fun k _ => eq_refl)) as [Rg Lg _ _ _ _ _ _ _].
  auto.
Qed.
