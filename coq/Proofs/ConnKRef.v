(* C13: what the subscribers of ref_count / replay over a hot source see is what the reference machine of the
   definition (Oracle2.cref_step) assigns to the call history - for EVERY history. *)
From Coq Require Import List ZArith Bool Arith Lia.
From RX Require Import Val Syntax Step ConnK Oracle2.
From RXP Require Import ConnKInv.
Import ListNotations.

Definition sub_handles (script : list action) : list nat :=
  flat_map (fun a => match a with DSub k _ _ => [k] | _ => [] end) script.

(* ---- deliveries: the automaton's fold over the snapshot = the reference's q_deliver *)
Lemma ck_deliver_log s k e j :
  c_clogs (ck_deliver s k e) j = if c_alive s k && Nat.eqb j k then c_clogs s j ++ [e] else c_clogs s j.
Proof.
  unfold ck_deliver. destruct (c_alive s k); cbn; auto. unfold cupd. destruct (Nat.eqb j k) eqn:E; auto.
  apply Nat.eqb_eq in E. now subst.
Qed.
Lemma ck_deliver_alive s k e j :
  c_alive (ck_deliver s k e) j = if c_alive s k && is_term e && Nat.eqb j k then false else c_alive s j.
Proof.
  unfold ck_deliver. destruct (c_alive s k) eqn:A; cbn; auto; destruct (is_term e); cbn; auto;
  unfold cupd; destruct (Nat.eqb j k); auto.
Qed.
Lemma ck_deliver_rest s k e :
  c_usedh (ck_deliver s k e) = c_usedh s /\ c_unsub (ck_deliver s k e) = c_unsub s /\ c_items (ck_deliver s k e) = c_items s /\
  c_term (ck_deliver s k e) = c_term s /\ c_used_conn (ck_deliver s k e) = c_used_conn s.
Proof. unfold ck_deliver. destruct (c_alive s k); cbn; auto. Qed.

Lemma fold_deliver_spec e l : forall s, NoDup l -> (forall k, In k l -> c_alive s k = true) ->
  let s' := fold_left (fun acc k => ck_deliver acc k e) l s in
  (forall j, c_clogs s' j = if existsb (Nat.eqb j) l then c_clogs s j ++ [e] else c_clogs s j) /\
  (forall j, c_alive s' j = if is_term e && existsb (Nat.eqb j) l then false else c_alive s j) /\
  c_usedh s' = c_usedh s /\ c_unsub s' = c_unsub s /\ c_items s' = c_items s /\ c_term s' = c_term s /\ c_used_conn s' = c_used_conn s.
Proof.
  induction l as [|k l IH]; intros s ND AL; cbn [fold_left existsb].
  - cbn. rewrite andb_false_r. repeat split; auto.
  - inversion ND as [|? ? NI ND']; subst.
    assert (AL' : forall j, In j l -> c_alive (ck_deliver s k e) j = true).
    { intros j Hj. rewrite ck_deliver_alive. assert (Nat.eqb j k = false) by (apply Nat.eqb_neq; intro; subst; contradiction).
      rewrite H, andb_false_r. apply AL. now right. }
    destruct (IH (ck_deliver s k e) ND' AL') as (A & B & C & D & E & F & G). cbn zeta in *.
    destruct (ck_deliver_rest s k e) as (C' & D' & E' & F' & G').
    assert (AK : c_alive s k = true) by (apply AL; now left).
    repeat split; try congruence.
    + intro j. rewrite A, ck_deliver_log, AK. cbn [andb]. destruct (Nat.eqb j k) eqn:E1; cbn [orb]; auto.
      apply Nat.eqb_eq in E1. subst j. assert (existsb (Nat.eqb k) l = false).
      { destruct (existsb (Nat.eqb k) l) eqn:X; auto. apply existsb_exists in X. destruct X as (x & X1 & X2). apply Nat.eqb_eq in X2. subst. contradiction. }
      now rewrite H.
    + intro j. rewrite B, ck_deliver_alive, AK. cbn [andb]. destruct (is_term e); cbn [andb]; auto. destruct (Nat.eqb j k); cbn [orb]; auto.
      destruct (existsb (Nat.eqb j) l); auto.
Qed.

Lemma q_add_log_logs r k es j : q_logs (q_add_log r k es) j = if Nat.eqb j k then q_logs r j ++ es else q_logs r j.
Proof. reflexivity. Qed.
Lemma q_deliver_spec es l : forall r,
  let r' := fold_left (fun acc k => q_add_log acc k es) l r in
  (forall j, NoDup l -> q_logs r' j = if existsb (Nat.eqb j) l then q_logs r j ++ es else q_logs r j) /\
  q_reg r' = q_reg r /\ q_conn r' = q_conn r /\ q_items r' = q_items r /\ q_term r' = q_term r /\ q_dbl r' = q_dbl r /\ q_live r' = q_live r.
Proof.
  induction l as [|k l IH]; intro r; cbn [fold_left existsb]; [repeat split; auto|].
  destruct (IH (q_add_log r k es)) as (A & B & C & D & E & F & G). cbn zeta in *. repeat split; auto.
  intros j ND. inversion ND as [|? ? NI ND']; subst. rewrite (A j ND'), q_add_log_logs.
  destruct (Nat.eqb j k) eqn:E1; cbn [orb]; auto. apply Nat.eqb_eq in E1. subst j.
  assert (existsb (Nat.eqb k) l = false).
  { destruct (existsb (Nat.eqb k) l) eqn:X; auto. apply existsb_exists in X. destruct X as (x & X1 & X2). apply Nat.eqb_eq in X2. subst. contradiction. }
  now rewrite H.
Qed.

(* ================================================================== ref_count *)
Record RcRel (s : ck) (r : cref) : Prop := {
  rr_reg : c_reg s = q_reg r;
  rr_logs : forall k, c_clogs s k = q_logs r k;
  rr_conn : q_conn r = c_slotc s;
  rr_nodup : NoDup (c_reg s);
  rr_alive : forall k, In k (c_reg s) -> c_alive s k = true /\ c_unsub s k = true;
  rr_used : forall k, c_unsub s k = true -> c_usedh s k = true;
  rr_inv : RCInv s }.

Lemma existsb_in j l : existsb (Nat.eqb j) l = true <-> In j l.
Proof.
  rewrite existsb_exists. split; [intros (x & A & B); apply Nat.eqb_eq in B; now subst | intro H; exists j; split; auto; apply Nat.eqb_refl].
Qed.
Lemma filter_neq_notin k l : ~ In k l -> filter (fun x => negb (Nat.eqb x k)) l = l.
Proof.
  induction l as [|x l IH]; intro H; cbn; auto. destruct (Nat.eqb x k) eqn:E.
  - apply Nat.eqb_eq in E. subst. exfalso. apply H. now left.
  - cbn. f_equal. apply IH. intro A. apply H. now right.
Qed.

Lemma nodup_snoc_ck (l : list nat) j : NoDup l -> ~ In j l -> NoDup (l ++ [j]).
Proof.
  induction l as [|x l IH]; intros N H; cbn [app]; [constructor; [intros []|constructor]|].
  inversion N as [|? ? H1 H2]; subst. constructor.
  - rewrite in_app_iff. cbn [In]. intros [A|[A|[]]]; [auto | subst; apply H; now left].
  - apply IH; auto. intro A. apply H. now right.
Qed.
Lemma filter_in_neq k j l : In j (filter (fun x => negb (Nat.eqb x k)) l) <-> In j l /\ j <> k.
Proof.
  rewrite filter_In. split; intros [A B]; split; auto.
  - intro E. subst. now rewrite Nat.eqb_refl in B.
  - apply Nat.eqb_neq in B. now rewrite B.
Qed.
Ltac cu j k := unfold cupd; let E := fresh "EQ" in destruct (Nat.eqb j k) eqn:E; [apply Nat.eqb_eq in E; try subst j | apply Nat.eqb_neq in E]; auto.

Lemma rc_sim s r a :
  RcRel s r -> (forall k p rs, a = DSub k p rs -> c_usedh s k = false) ->
  RcRel (ck_step CRefCount s a) (cref_step CRefCount None r a).
Proof.
  intros R FRESH. pose proof (rr_inv s r R) as INV. pose proof (rc_step s a INV) as INV'.
  destruct INV as (L & SL & N & CN).
  destruct a as [k p rs | k | h e | k x | x | sm em]; cbn [ck_step cref_step] in *; try exact R.
  - (* subscribe *)
    rewrite (FRESH k p rs eq_refl) in *.
    assert (NI : ~ In k (c_reg s)).
    { intro H. destruct (rr_alive s r R k H) as [_ U]. apply (rr_used s r R) in U. rewrite (FRESH k p rs eq_refl) in U. discriminate. }
    cbn [c_reg c_slotc] in *. rewrite app_length in *. cbn [length] in *. rewrite (rr_conn s r R).
    assert (E : (Nat.eqb (length (c_reg s) + 1) 1 && negb (c_slotc s)) = negb (c_slotc s)).
    { rewrite SL. destruct (c_reg s) as [|x l]; cbn; auto. destruct (length l); auto. }
    rewrite E in *. destruct (c_slotc s) eqn:SC; cbn [negb] in *.
    + constructor; cbn.
      * now rewrite (rr_reg s r R).
      * apply (rr_logs s r R).
      * reflexivity.
      * apply nodup_snoc_ck; [apply (rr_nodup s r R) | exact NI].
      * intros j Hj. apply in_app_iff in Hj. destruct Hj as [Hj|[<-|[]]].
        -- destruct (rr_alive s r R j Hj) as [A B]. split; cu j k.
        -- split; unfold cupd; now rewrite Nat.eqb_refl.
      * intros j. unfold cupd. destruct (Nat.eqb j k) eqn:EQ; auto. apply (rr_used s r R).
      * exact INV'.
    + constructor; cbn.
      * now rewrite (rr_reg s r R).
      * apply (rr_logs s r R).
      * reflexivity.
      * apply nodup_snoc_ck; [apply (rr_nodup s r R) | exact NI].
      * intros j Hj. apply in_app_iff in Hj. destruct Hj as [Hj|[<-|[]]].
        -- destruct (rr_alive s r R j Hj) as [A B]. split; cu j k.
        -- split; unfold cupd; now rewrite Nat.eqb_refl.
      * intros j. unfold cupd. destruct (Nat.eqb j k) eqn:EQ; auto. apply (rr_used s r R).
      * exact INV'.
  - (* unsubscribe *)
    destruct (c_unsub s k) eqn:U.
    + cbn [c_reg c_slotc c_slot_live c_nsrc] in *. rewrite <- (rr_reg s r R).
      assert (ND : NoDup (filter (fun x => negb (Nat.eqb x k)) (c_reg s))) by (apply NoDup_filter, (rr_nodup s r R)).
      assert (AL : forall j, In j (filter (fun x => negb (Nat.eqb x k)) (c_reg s)) -> cupd (c_alive s) k false j = true /\ cupd (c_unsub s) k false j = true).
      { intros j Hj. apply filter_in_neq in Hj. destruct Hj as [A B]. destruct (rr_alive s r R j A) as [C D]. unfold cupd. apply Nat.eqb_neq in B. now rewrite B. }
      assert (US : forall j, cupd (c_unsub s) k false j = true -> c_usedh s j = true).
      { intro j. unfold cupd. destruct (Nat.eqb j k); [discriminate | apply (rr_used s r R)]. }
      destruct (filter (fun x => negb (Nat.eqb x k)) (c_reg s)) as [|x l] eqn:RG; cbn [length Nat.eqb andb] in *.
      * change (Nat.eqb 0 0) with true in *. cbn [andb] in *. destruct (c_slotc s) eqn:SC; cbn [andb] in *.
        -- constructor; cbn; auto. apply (rr_logs s r R).
        -- constructor; cbn; auto. apply (rr_logs s r R).
      * change (Nat.eqb (S (length l)) 0) with false in *. cbn [andb] in *.
        constructor; cbn; auto; [apply (rr_logs s r R) | apply (rr_conn s r R)].
    + (* the handle is not subscribed (any more): nothing happens on either side *)
      assert (NI : ~ In k (c_reg s)). { intro H. destruct (rr_alive s r R k H) as [_ X]. congruence. }
      rewrite <- (rr_reg s r R), (filter_neq_notin k _ NI).
      constructor; cbn.
      * reflexivity.
      * apply (rr_logs s r R).
      * rewrite (rr_conn s r R), SL. destruct (c_reg s); reflexivity.
      * apply (rr_nodup s r R).
      * apply (rr_alive s r R).
      * apply (rr_used s r R).
      * exact INV'.
  - (* the source emits *)
    rewrite N in *. destruct (c_slotc s) eqn:SC.
    + (* connected: one forwarding observer, one broadcast *)
      cbn [seq fold_left] in *. unfold ck_feed in *. unfold q_source_ev. rewrite (rr_conn s r R), SC.
      unfold q_deliver.
      assert (QD : forall es j, q_logs (fold_left (fun acc k => q_add_log acc k es) (q_reg r) r) j = if existsb (Nat.eqb j) (q_reg r) then q_logs r j ++ es else q_logs r j).
      { intros es j. apply (q_deliver_spec es (q_reg r) r). rewrite <- (rr_reg s r R). apply (rr_nodup s r R). }
      assert (QR : forall es, q_reg (fold_left (fun acc k => q_add_log acc k es) (q_reg r) r) = q_reg r) by (intro es; apply (q_deliver_spec es (q_reg r) r)).
      destruct e as [v|x|]; cbn [is_term] in *.
      * (* an item *)
        unfold ck_broadcast in *. cbn [is_term] in *.
        destruct (fold_deliver_spec (Nx v) (c_reg s) s (rr_nodup s r R) (fun k H => proj1 (rr_alive s r R k H))) as (A & B & C & D & _).
        destruct (sc_fold_deliver (Nx v) (c_reg s) s) as (S1 & S2 & _).
        cbn zeta in *. constructor; cbn.
        -- rewrite S1, QR. apply (rr_reg s r R).
        -- intro j. rewrite A, QD, <- (rr_reg s r R), (rr_logs s r R). reflexivity.
        -- now rewrite S2.
        -- rewrite S1. apply (rr_nodup s r R).
        -- intros j Hj. rewrite S1 in Hj. rewrite B, D. cbn [is_term andb]. apply (rr_alive s r R j Hj).
        -- intro j. rewrite C, D. apply (rr_used s r R).
        -- exact INV'.
      * (* an error *)
        unfold ck_broadcast in *. cbn [is_term] in *.
        set (s2 := ck_set _ [] _ _ _) in *.
        assert (AL2 : forall k, In k (c_reg s) -> c_alive s2 k = true) by (intros k H; apply (rr_alive s r R k H)).
        destruct (fold_deliver_spec (Er x) (c_reg s) s2 (rr_nodup s r R) AL2) as (A & B & C & D & _).
        destruct (sc_fold_deliver (Er x) (c_reg s) s2) as (S1 & S2 & _).
        cbn zeta in *. constructor; cbn.
        -- now rewrite S1.
        -- intro j. rewrite A, QD, <- (rr_reg s r R). unfold s2. cbn. rewrite (rr_logs s r R). reflexivity.
        -- now rewrite S2.
        -- rewrite S1. constructor.
        -- intros j Hj. rewrite S1 in Hj. destruct Hj.
        -- intro j. rewrite C, D. unfold s2. cbn. apply (rr_used s r R).
        -- exact INV'.
      * (* complete *)
        unfold ck_broadcast in *. cbn [is_term] in *.
        set (s2 := ck_set _ [] _ _ _) in *.
        assert (AL2 : forall k, In k (c_reg s) -> c_alive s2 k = true) by (intros k H; apply (rr_alive s r R k H)).
        destruct (fold_deliver_spec Co (c_reg s) s2 (rr_nodup s r R) AL2) as (A & B & C & D & _).
        destruct (sc_fold_deliver Co (c_reg s) s2) as (S1 & S2 & _).
        cbn zeta in *. constructor; cbn.
        -- now rewrite S1.
        -- intro j. rewrite A, QD, <- (rr_reg s r R). unfold s2. cbn. rewrite (rr_logs s r R). reflexivity.
        -- now rewrite S2.
        -- rewrite S1. constructor.
        -- intros j Hj. rewrite S1 in Hj. destruct Hj.
        -- intro j. rewrite C, D. unfold s2. cbn. apply (rr_used s r R).
        -- exact INV'.
    + (* not connected: the source holds no observer of this connectable *)
      cbn [seq fold_left] in *. unfold q_source_ev. rewrite (rr_conn s r R), SC.
      destruct (is_term e); [|exact R].
      constructor; cbn.
      * apply (rr_reg s r R).
      * apply (rr_logs s r R).
      * rewrite (rr_conn s r R). exact SC.
      * apply (rr_nodup s r R).
      * apply (rr_alive s r R).
      * apply (rr_used s r R).
      * exact INV'.
Qed.


(* ---- c_usedh only changes at a subscribe *)
Lemma usedh_fold_deliver e l : forall s, c_usedh (fold_left (fun acc k => ck_deliver acc k e) l s) = c_usedh s.
Proof. induction l as [|k l IH]; intro s; cbn [fold_left]; auto. rewrite IH. apply (ck_deliver_rest s k e). Qed.
Lemma usedh_fold_items k l : forall s, c_usedh (fold_left (fun acc v => ck_deliver acc k (Nx v)) l s) = c_usedh s.
Proof. induction l as [|v l IH]; intro s; cbn [fold_left]; auto. rewrite IH. apply (ck_deliver_rest s k (Nx v)). Qed.
Lemma usedh_broadcast s e : c_usedh (ck_broadcast s e) = c_usedh s.
Proof. unfold ck_broadcast. rewrite usedh_fold_deliver. destruct (is_term e); reflexivity. Qed.
Lemma usedh_feed kind s e : c_usedh (ck_feed kind s e) = c_usedh s.
Proof. unfold ck_feed. rewrite usedh_broadcast. destruct kind; destruct e; reflexivity. Qed.
Lemma usedh_feeds kind e l : forall s, c_usedh (fold_left (fun acc (_ : nat) => ck_feed kind acc e) l s) = c_usedh s.
Proof. induction l as [|x l IH]; intro s; cbn [fold_left]; auto. now rewrite IH, usedh_feed. Qed.

Lemma usedh_step kind s a j :
  c_usedh (ck_step kind s a) j = true -> c_usedh s j = true \/ exists p rs, a = DSub j p rs.
Proof.
  destruct a as [k p rs | k | h e | k x | x | sm em]; cbn [ck_step]; auto.
  - destruct (c_usedh s k) eqn:U; auto.
    assert (X : forall t, c_usedh t = cupd (c_usedh s) k true -> c_usedh t j = true -> c_usedh s j = true \/ exists p0 rs0, DSub k p rs = DSub j p0 rs0).
    { intros t E H. rewrite E in H. unfold cupd in H. destruct (Nat.eqb j k) eqn:Q; auto. apply Nat.eqb_eq in Q. subst. right. eauto. }
    destruct kind.
    + apply X. reflexivity.
    + cbn [c_reg c_slotc]. match goal with |- context [if ?b then _ else _] => destruct b end; apply X; reflexivity.
    + cbn [c_reg c_slotc].
      match goal with |- context [fold_left _ (c_items ?s1) ?s1'] => set (s2 := fold_left (fun acc v => ck_deliver acc k (Nx v)) (c_items s1) s1') end.
      assert (U2 : c_usedh s2 = cupd (c_usedh s) k true).
      { unfold s2. rewrite usedh_fold_items. match goal with |- context [if ?b then _ else _] => destruct b end; reflexivity. }
      destruct (c_term s2).
      * match goal with |- context [if ?b then _ else _] => destruct b end; apply X; cbn; rewrite (proj1 (ck_deliver_rest s2 k e)); exact U2.
      * apply X. exact U2.
  - destruct (c_unsub s k); auto. destruct kind; cbn; auto; match goal with |- context [if ?b then _ else _] => destruct b end; cbn; auto.
  - rewrite usedh_feeds. destruct (is_term e); cbn; auto.
  - destruct kind; cbn; auto.
  - destruct kind; cbn; auto. destruct (c_used_conn s x); auto. destruct (existsb (Nat.eqb x) (c_conns s)); cbn; auto.
Qed.

Lemma sub_handles_cons a script : sub_handles (a :: script) = (match a with DSub k _ _ => [k] | _ => [] end) ++ sub_handles script.
Proof. reflexivity. Qed.

Lemma rc_sim_run script : forall s r,
  RcRel s r -> (forall k, In k (sub_handles script) -> c_usedh s k = false) -> NoDup (sub_handles script) ->
  RcRel (fold_left (ck_step CRefCount) script s) (fold_left (cref_step CRefCount None) script r).
Proof.
  induction script as [|a script IH]; intros s r R FR ND; cbn [fold_left]; auto.
  rewrite sub_handles_cons in FR, ND.
  apply IH.
  - apply rc_sim; auto. intros k p rs ->. apply FR. cbn. now left.
  - intros k Hk. destruct (c_usedh (ck_step CRefCount s a) k) eqn:U; auto. exfalso.
    apply usedh_step in U. destruct U as [U | (p & rs & ->)].
    + rewrite FR in U; [discriminate | apply in_or_app; now right].
    + cbn [app] in ND. inversion ND; subst. contradiction.
  - destruct a; cbn [app] in ND; auto. now inversion ND.
Qed.

Lemma rc_rel0 : RcRel ck0 cref0.
Proof.
  constructor; cbn; auto; try (now constructor); try (intros k []); try discriminate.

Qed.

(* for EVERY call history in which each subscriber handle subscribes at most once: after the history the subscribers
   of source.ref_count() over a hot source have received exactly what the reference machine of the definition assigns
   (everything the source emitted while they were subscribed and the source connected), the source is subscribed iff
   the reference says "connected", and the registered subscribers are the reference's *)
Theorem ref_count_refines_reference script :
  NoDup (sub_handles script) ->
  let s := fold_left (ck_step CRefCount) script ck0 in
  let r := fold_left (cref_step CRefCount None) script cref0 in
  (forall k, c_clogs s k = q_logs r k) /\ c_reg s = q_reg r /\ c_nsrc s = (if q_conn r then 1 else 0).
Proof.
  intros ND s r. assert (R : RcRel s r) by (apply rc_sim_run; [apply rc_rel0 | reflexivity | exact ND]).
  split; [apply (rr_logs s r R)|]. split; [apply (rr_reg s r R)|].
  destruct (rr_inv s r R) as (_ & _ & N & _). rewrite N, (rr_conn s r R). reflexivity.
Qed.

(* ================================================================== replay *)
Lemma deliver_item_alive s k v : c_alive (ck_deliver s k (Nx v)) = c_alive s.
Proof. unfold ck_deliver. destruct (c_alive s k); reflexivity. Qed.

Lemma fold_items_spec k l : forall s, c_alive s k = true ->
  let s' := fold_left (fun acc v => ck_deliver acc k (Nx v)) l s in
  (forall j, c_clogs s' j = if Nat.eqb j k then c_clogs s j ++ map Nx l else c_clogs s j) /\
  c_alive s' = c_alive s /\ c_usedh s' = c_usedh s /\ c_unsub s' = c_unsub s /\ c_items s' = c_items s /\ c_term s' = c_term s /\
  same_conn s' s.
Proof.
  induction l as [|v l IH]; intros s AL; cbn [fold_left map].
  - repeat split; auto. intro j. destruct (Nat.eqb j k); auto. now rewrite app_nil_r.
  - assert (AL' : c_alive (ck_deliver s k (Nx v)) k = true) by (now rewrite deliver_item_alive).
    destruct (IH (ck_deliver s k (Nx v)) AL') as (A & B & C & D & E & F & G). cbn zeta in *.
    destruct (ck_deliver_rest s k (Nx v)) as (C' & D' & E' & F' & _).
    split; [|split; [|split; [|split; [|split; [|split]]]]]; try congruence.
    + intro j. rewrite A, ck_deliver_log, AL. cbn [andb]. destruct (Nat.eqb j k); auto. now rewrite <- app_assoc.
    + now rewrite B, deliver_item_alive.
    + eapply sc_trans; [exact G | apply sc_deliver].
Qed.

Record RpRel (s : ck) (r : cref) : Prop := {
  pr_reg : c_reg s = q_reg r;
  pr_logs : forall k, c_clogs s k = q_logs r k;
  pr_items : c_items s = q_items r;
  pr_term : c_term s = q_term r;
  pr_conn : q_conn r = c_slot_live s;
  pr_nodup : NoDup (c_reg s);
  pr_alive : forall k, In k (c_reg s) -> c_alive s k = true /\ c_unsub s k = true;
  pr_used : forall k, c_unsub s k = true -> c_usedh s k = true;
  pr_open : c_term s = None -> c_slotc s = c_slot_live s /\ c_slot_live s = negb (Nat.eqb (length (c_reg s)) 0);
  pr_done : forall t, c_term s = Some t -> c_reg s = [] /\ c_slotc s = true /\ c_slot_live s = false;
  pr_inv : RPInv s }.

Lemma rp_sim_sub s r k p rs :
  RpRel s r -> c_usedh s k = false ->
  RpRel (ck_step CReplay s (DSub k p rs)) (cref_step CReplay None r (DSub k p rs)).
Proof.
  intros R FRESH. pose proof (pr_inv s r R) as INV. pose proof (rp_step s (DSub k p rs) INV) as INV'.
  cbn [ck_step cref_step] in *. rewrite FRESH in *. cbn [c_reg c_slotc c_slot_live c_nsrc c_items] in *.
  assert (NI : ~ In k (c_reg s)).
  { intro H. destruct (pr_alive s r R k H) as [_ U]. apply (pr_used s r R) in U. congruence. }
  rewrite app_length in *. cbn [length] in *.
  destruct (c_term s) as [t|] eqn:TM.
  - (* the source has terminated: history, then the stored terminal; the subscriber is not kept *)
    destruct (pr_done s r R t TM) as (RE & SC & SLV). rewrite RE, SC in *. cbn [app length Nat.eqb negb andb] in *.
    change (Nat.eqb (0 + 1) 1) with true in *. cbn [andb] in *.
    set (s1 := ck_set _ [k] true _ _) in *.
    assert (AL1 : c_alive s1 k = true) by (unfold s1; cbn; unfold cupd; now rewrite Nat.eqb_refl).
    destruct (fold_items_spec k (c_items s) s1 AL1) as (A & B & C & D & E & F & G). cbn zeta in *.
    change (c_items s1) with (c_items s) in *.
    set (s2 := fold_left _ (c_items s) s1) in *.
    assert (T2 : c_term s2 = Some t) by (rewrite F; unfold s1; cbn; first [reflexivity | exact TM]). rewrite T2 in *.
    rewrite <- (pr_term s r R), TM.
    destruct G as (G1 & G2 & G3 & G4 & G5).
    assert (REG3 : c_reg (ck_deliver s2 k t) = [k]) by (rewrite (proj1 (sc_deliver s2 k t)), G1; reflexivity).
    assert (SC3 : c_slotc (ck_deliver s2 k t) = true) by (rewrite (proj1 (proj2 (sc_deliver s2 k t))), G2; reflexivity).
    assert (SL3 : c_slot_live (ck_deliver s2 k t) = false).
    { destruct (sc_deliver s2 k t) as (_ & _ & X & _). rewrite X, G3. unfold s1. cbn. exact SLV. }
    rewrite REG3, SC3, SL3 in *. cbn [filter Nat.eqb negb length andb] in *. rewrite Nat.eqb_refl in *. cbn [negb length Nat.eqb andb] in *.
    destruct (ck_deliver_rest s2 k t) as (U3 & N3 & I3 & T3 & _).
    constructor; cbn.
    + now rewrite <- (pr_reg s r R), RE.
    + intro j. rewrite ck_deliver_log, B, AL1. cbn [andb]. rewrite A. unfold s1. cbn.
      destruct (Nat.eqb j k); rewrite (pr_logs s r R), <- ?(pr_items s r R); auto; now rewrite <- app_assoc.
    + rewrite I3, E. unfold s1. cbn. apply (pr_items s r R).
    + rewrite T3, T2, <- (pr_term s r R). now rewrite TM.
    + rewrite (pr_conn s r R). exact SLV.
    + constructor.
    + intros j [].
    + intro j. rewrite N3, D, U3, C. unfold s1. cbn. unfold cupd. destruct (Nat.eqb j k); auto. apply (pr_used s r R).
    + intro X. rewrite T3, T2 in X. discriminate.
    + intros t' _. auto.
    + exact INV'.
  - (* the source has not terminated: join, connect if first, replay the history *)
    destruct (pr_open s r R TM) as (SC & SLV). rewrite <- (pr_term s r R), TM, (pr_conn s r R).
    assert (E : (Nat.eqb (length (c_reg s) + 1) 1 && negb (c_slotc s)) = negb (c_slot_live s)).
    { rewrite SC, SLV. destruct (c_reg s) as [|x l]; cbn; auto. destruct (length l); auto. }
    rewrite E in *.
    destruct (c_slot_live s) eqn:LV; cbn [negb] in *.
    + set (s1 := ck_set _ (c_reg s ++ [k]) _ _ _) in *.
      assert (AL1 : c_alive s1 k = true) by (unfold s1; cbn; unfold cupd; now rewrite Nat.eqb_refl).
      destruct (fold_items_spec k (c_items s) s1 AL1) as (A & B & C & D & E' & F & G). cbn zeta in *.
      change (c_items s1) with (c_items s) in *. set (s2 := fold_left _ (c_items s) s1) in *.
      assert (T2 : c_term s2 = None) by (rewrite F; unfold s1; cbn; first [reflexivity | exact TM]). rewrite T2 in *.
      destruct G as (G1 & G2 & G3 & G4 & G5).
      constructor; cbn.
      * rewrite G1. unfold s1. cbn. now rewrite (pr_reg s r R).
      * intro j. rewrite A. unfold s1. cbn. rewrite (pr_logs s r R), <- (pr_items s r R). reflexivity.
      * rewrite E'. unfold s1. cbn. apply (pr_items s r R).
      * rewrite T2. now rewrite <- (pr_term s r R).
      * rewrite G3. unfold s1. cbn. rewrite (pr_conn s r R). exact LV.
      * rewrite G1. unfold s1. cbn. apply nodup_snoc_ck; [apply (pr_nodup s r R) | exact NI].
      * intros j Hj. rewrite G1 in Hj. unfold s1 in Hj. cbn in Hj. rewrite B, D. unfold s1. cbn. apply in_app_iff in Hj. destruct Hj as [Hj|[<-|[]]].
        -- destruct (pr_alive s r R j Hj) as [X Y]. split; cu j k.
        -- split; unfold cupd; now rewrite Nat.eqb_refl.
      * intro j. rewrite D, C. unfold s1. cbn. unfold cupd. destruct (Nat.eqb j k); auto. apply (pr_used s r R).
      * intros _. rewrite G1, G2, G3. unfold s1. cbn. rewrite app_length. cbn [length]. split; [exact SC|]. destruct (length (c_reg s) + 1) eqn:X; [lia | reflexivity].
      * intros t' X. rewrite T2 in X. discriminate.
      * exact INV'.
    + set (s1 := ck_set _ (c_reg s ++ [k]) _ _ _) in *.
      assert (AL1 : c_alive s1 k = true) by (unfold s1; cbn; unfold cupd; now rewrite Nat.eqb_refl).
      destruct (fold_items_spec k (c_items s) s1 AL1) as (A & B & C & D & E' & F & G). cbn zeta in *.
      change (c_items s1) with (c_items s) in *. set (s2 := fold_left _ (c_items s) s1) in *.
      assert (T2 : c_term s2 = None) by (rewrite F; unfold s1; cbn; first [reflexivity | exact TM]). rewrite T2 in *.
      destruct G as (G1 & G2 & G3 & G4 & G5).
      constructor; cbn.
      * rewrite G1. unfold s1. cbn. now rewrite (pr_reg s r R).
      * intro j. rewrite A. unfold s1. cbn. rewrite (pr_logs s r R), <- (pr_items s r R). reflexivity.
      * rewrite E'. unfold s1. cbn. apply (pr_items s r R).
      * rewrite T2. now rewrite <- (pr_term s r R).
      * rewrite G3. unfold s1. cbn. reflexivity.
      * rewrite G1. unfold s1. cbn. apply nodup_snoc_ck; [apply (pr_nodup s r R) | exact NI].
      * intros j Hj. rewrite G1 in Hj. unfold s1 in Hj. cbn in Hj. rewrite B, D. unfold s1. cbn. apply in_app_iff in Hj. destruct Hj as [Hj|[<-|[]]].
        -- destruct (pr_alive s r R j Hj) as [X Y]. split; cu j k.
        -- split; unfold cupd; now rewrite Nat.eqb_refl.
      * intro j. rewrite D, C. unfold s1. cbn. unfold cupd. destruct (Nat.eqb j k); auto. apply (pr_used s r R).
      * intros _. rewrite G1, G2, G3. unfold s1. cbn. rewrite app_length. cbn [length]. split; [reflexivity|]. destruct (length (c_reg s) + 1) eqn:X; [lia | reflexivity].
      * intros t' X. rewrite T2 in X. discriminate.
      * exact INV'.
Qed.

Lemma rp_sim s r a :
  RpRel s r -> (forall k p rs, a = DSub k p rs -> c_usedh s k = false) ->
  RpRel (ck_step CReplay s a) (cref_step CReplay None r a).
Proof.
  intros R FRESH. destruct a as [k p rs | k | h e | k x | x | sm em]; try exact R.
  - apply rp_sim_sub; auto. apply (FRESH k p rs eq_refl).
  - (* unsubscribe *)
    pose proof (pr_inv s r R) as INV. pose proof (rp_step s (DUnsub k) INV) as INV'. destruct INV as (N & LC & CN).
    cbn [ck_step cref_step] in *. destruct (c_unsub s k) eqn:U.
    + cbn [c_reg c_slotc c_slot_live c_nsrc] in *. rewrite <- (pr_reg s r R).
      assert (ND : NoDup (filter (fun x => negb (Nat.eqb x k)) (c_reg s))) by (apply NoDup_filter, (pr_nodup s r R)).
      assert (AL : forall j, In j (filter (fun x => negb (Nat.eqb x k)) (c_reg s)) -> cupd (c_alive s) k false j = true /\ cupd (c_unsub s) k false j = true).
      { intros j Hj. apply filter_in_neq in Hj. destruct Hj as [A B]. destruct (pr_alive s r R j A) as [C D]. unfold cupd. apply Nat.eqb_neq in B. now rewrite B. }
      assert (US : forall j, cupd (c_unsub s) k false j = true -> c_usedh s j = true).
      { intro j. unfold cupd. destruct (Nat.eqb j k); [discriminate | apply (pr_used s r R)]. }
      assert (SUB : forall j, In j (filter (fun x => negb (Nat.eqb x k)) (c_reg s)) -> In j (c_reg s)) by (intros j Hj; now apply filter_in_neq in Hj).
      destruct (filter (fun x => negb (Nat.eqb x k)) (c_reg s)) as [|x l] eqn:RG; cbn [length Nat.eqb andb] in *.
      * change (Nat.eqb 0 0) with true in *. cbn [andb] in *.
        destruct (c_slotc s) eqn:SC; destruct (c_slot_live s) eqn:LV; cbn [andb] in *; try (specialize (LC eq_refl); discriminate).
        all: constructor; cbn; auto.
        all: try apply (pr_logs s r R); try apply (pr_items s r R); try apply (pr_term s r R); try exact INV'.
        all: try (intros t TM; destruct (pr_done s r R t TM) as (A & B & C); (congruence || auto)).
        all: try (intro TM; destruct (pr_open s r R TM) as (A & B); (congruence || auto)).
        all: try match goal with |- forall k, False -> _ => intros j [] end.
      * change (Nat.eqb (S (length l)) 0) with false in *. cbn [andb] in *.
        constructor; cbn; auto; try apply (pr_logs s r R); try apply (pr_items s r R); try apply (pr_term s r R); try apply (pr_conn s r R).
        -- intro TM. destruct (pr_open s r R TM) as (A & B). split; auto. rewrite B.
           destruct (c_reg s) as [|y m]; [exfalso; apply (SUB x); now left | reflexivity].
        -- intros t TM. destruct (pr_done s r R t TM) as (A & B & C). exfalso. rewrite A in SUB. apply (SUB x). now left.
    + assert (NI : ~ In k (c_reg s)). { intro H. destruct (pr_alive s r R k H) as [_ X]. congruence. }
      rewrite <- (pr_reg s r R), (filter_neq_notin k _ NI).
      constructor; cbn; try reflexivity; try apply (pr_logs s r R); try apply (pr_items s r R); try apply (pr_term s r R);
        try apply (pr_nodup s r R); try apply (pr_alive s r R); try apply (pr_used s r R); try apply (pr_open s r R); try apply (pr_done s r R); try exact INV'.
      rewrite (pr_conn s r R). destruct (c_reg s) as [|y m] eqn:RE; auto.
      destruct (c_term s) as [t|] eqn:TM; [now destruct (pr_done s r R t TM) as (_ & _ & C) | destruct (pr_open s r R TM) as (_ & B); rewrite B, RE; reflexivity].
  - (* the source emits *)
    pose proof (pr_inv s r R) as INV. pose proof (rp_step s (DEmit h e) INV) as INV'. destruct INV as (N & LC & CN).
    cbn [ck_step cref_step] in *. rewrite N in *. destruct (c_slot_live s) eqn:LV.
    + assert (TM : c_term s = None).
      { destruct (c_term s) as [t|] eqn:TM; auto. destruct (pr_done s r R t TM) as (_ & _ & C). congruence. }
      assert (SC : c_slotc s = true) by (apply LC; reflexivity).
      cbn [seq fold_left] in *. unfold ck_feed in *. unfold q_source_ev, q_deliver. rewrite (pr_conn s r R), LV.
      assert (QD : forall es j, q_logs (fold_left (fun acc k => q_add_log acc k es) (q_reg r) r) j = if existsb (Nat.eqb j) (q_reg r) then q_logs r j ++ es else q_logs r j).
      { intros es j. apply (q_deliver_spec es (q_reg r) r). rewrite <- (pr_reg s r R). apply (pr_nodup s r R). }
      destruct (q_deliver_spec [e] (q_reg r) r) as (_ & QR & QC & QI & QT & _).
      destruct e as [v|x|]; cbn [is_term] in *; unfold ck_broadcast in *; cbn [is_term] in *.
      * set (s2 := {| c_reg := c_reg s; c_usedh := c_usedh s; c_alive := c_alive s; c_unsub := c_unsub s; c_slotc := c_slotc s; c_slot_live := c_slot_live s;
                      c_conns := c_conns s; c_used_conn := c_used_conn s; c_nsrc := c_nsrc s; c_items := c_items s ++ [v]; c_term := c_term s; c_clogs := c_clogs s |}) in *.
        assert (AL2 : forall k, In k (c_reg s) -> c_alive s2 k = true) by (intros k H; apply (pr_alive s r R k H)).
        destruct (fold_deliver_spec (Nx v) (c_reg s) s2 (pr_nodup s r R) AL2) as (A & B & C & D & E & F & _).
        destruct (sc_fold_deliver (Nx v) (c_reg s) s2) as (S1 & S2 & S3 & _).
        change (c_reg s2) with (c_reg s) in *. cbn zeta in *. constructor; cbn.
        -- rewrite S1. unfold s2. cbn. now rewrite QR, (pr_reg s r R).
        -- intro j. rewrite A, QD, <- (pr_reg s r R). unfold s2. cbn. now rewrite (pr_logs s r R).
        -- rewrite E. unfold s2. cbn. now rewrite QI, (pr_items s r R).
        -- rewrite F. unfold s2. cbn. now rewrite QT, (pr_term s r R).
        -- rewrite S3. unfold s2. cbn. now rewrite LV.
        -- rewrite S1. apply (pr_nodup s r R).
        -- intros j Hj. rewrite S1 in Hj. rewrite B, D. cbn [is_term andb]. apply (pr_alive s r R j Hj).
        -- intro j. rewrite C, D. apply (pr_used s r R).
        -- intros _. rewrite S1, S2, S3. unfold s2. cbn. destruct (pr_open s r R TM) as (X & Y). rewrite LV in *. auto.
        -- intros t X. rewrite F in X. unfold s2 in X. cbn in X. congruence.
        -- exact INV'.
      * set (s2 := ck_set _ [] _ _ _) in *.
        assert (AL2 : forall k, In k (c_reg s) -> c_alive s2 k = true) by (intros k H; apply (pr_alive s r R k H)).
        destruct (fold_deliver_spec (Er x) (c_reg s) s2 (pr_nodup s r R) AL2) as (A & B & C & D & E & F & _).
        destruct (sc_fold_deliver (Er x) (c_reg s) s2) as (S1 & S2 & S3 & _).
        cbn zeta in *. constructor; cbn.
        -- now rewrite S1.
        -- intro j. rewrite A, QD, <- (pr_reg s r R). unfold s2. cbn. now rewrite (pr_logs s r R).
        -- rewrite E. unfold s2. cbn. now rewrite QI, (pr_items s r R).
        -- rewrite F. reflexivity.
        -- rewrite S3. reflexivity.
        -- rewrite S1. constructor.
        -- intros j Hj. rewrite S1 in Hj. destruct Hj.
        -- intro j. rewrite C, D. unfold s2. cbn. apply (pr_used s r R).
        -- intro X. rewrite F in X. discriminate X.
        -- intros t _. rewrite S1, S2, S3. unfold s2. cbn. auto.
        -- exact INV'.
      * set (s2 := ck_set _ [] _ _ _) in *.
        assert (AL2 : forall k, In k (c_reg s) -> c_alive s2 k = true) by (intros k H; apply (pr_alive s r R k H)).
        destruct (fold_deliver_spec Co (c_reg s) s2 (pr_nodup s r R) AL2) as (A & B & C & D & E & F & _).
        destruct (sc_fold_deliver Co (c_reg s) s2) as (S1 & S2 & S3 & _).
        cbn zeta in *. constructor; cbn.
        -- now rewrite S1.
        -- intro j. rewrite A, QD, <- (pr_reg s r R). unfold s2. cbn. now rewrite (pr_logs s r R).
        -- rewrite E. unfold s2. cbn. now rewrite QI, (pr_items s r R).
        -- rewrite F. reflexivity.
        -- rewrite S3. reflexivity.
        -- rewrite S1. constructor.
        -- intros j Hj. rewrite S1 in Hj. destruct Hj.
        -- intro j. rewrite C, D. unfold s2. cbn. apply (pr_used s r R).
        -- intro X. rewrite F in X. discriminate X.
        -- intros t _. rewrite S1, S2, S3. unfold s2. cbn. auto.
        -- exact INV'.
    + cbn [seq fold_left] in *. unfold q_source_ev. rewrite (pr_conn s r R), LV.
      destruct (is_term e); [|exact R].
      constructor; cbn; [apply (pr_reg s r R) | apply (pr_logs s r R) | apply (pr_items s r R) | apply (pr_term s r R) | rewrite (pr_conn s r R); exact LV
                        | apply (pr_nodup s r R) | apply (pr_alive s r R) | apply (pr_used s r R) | | | exact INV'].
      * intro TM. destruct (pr_open s r R TM) as (A & B). rewrite LV in *. auto.
      * intros t TM. destruct (pr_done s r R t TM) as (A & B & C). auto.
Qed.

Lemma rp_sim_run script : forall s r,
  RpRel s r -> (forall k, In k (sub_handles script) -> c_usedh s k = false) -> NoDup (sub_handles script) ->
  RpRel (fold_left (ck_step CReplay) script s) (fold_left (cref_step CReplay None) script r).
Proof.
  induction script as [|a script IH]; intros s r R FR ND; cbn [fold_left]; auto.
  rewrite sub_handles_cons in FR, ND.
  apply IH.
  - apply rp_sim; auto. intros k p rs ->. apply FR. cbn. now left.
  - intros k Hk. destruct (c_usedh (ck_step CReplay s a) k) eqn:U; auto. exfalso.
    apply usedh_step in U. destruct U as [U | (p & rs & ->)].
    + rewrite FR in U; [discriminate | apply in_or_app; now right].
    + cbn [app] in ND. inversion ND; subst. contradiction.
  - destruct a; cbn [app] in ND; auto. now inversion ND.
Qed.

Lemma rp_rel0 : RpRel ck0 cref0.
Proof.
  constructor; cbn; auto; try (now constructor); try discriminate.
  all: try (intros k []).
  all: try (repeat split; discriminate).
Qed.

(* replay(): every subscriber - early, late, after the terminal - has received exactly what the reference machine
   assigns: the whole history the source emitted while connected, then the live stream or the stored terminal;
   the history cell and the stored terminal are the reference's *)
Theorem replay_refines_reference script :
  NoDup (sub_handles script) ->
  let s := fold_left (ck_step CReplay) script ck0 in
  let r := fold_left (cref_step CReplay None) script cref0 in
  (forall k, c_clogs s k = q_logs r k) /\ c_reg s = q_reg r /\ c_items s = q_items r /\ c_term s = q_term r /\
  c_nsrc s = (if q_conn r then 1 else 0).
Proof.
  intros ND s r. assert (R : RpRel s r) by (apply rp_sim_run; [apply rp_rel0 | reflexivity | exact ND]).
  split; [apply (pr_logs s r R)|]. split; [apply (pr_reg s r R)|]. split; [apply (pr_items s r R)|]. split; [apply (pr_term s r R)|].
  destruct (pr_inv s r R) as (N & _). rewrite N, (pr_conn s r R). reflexivity.
Qed.
