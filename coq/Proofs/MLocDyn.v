(* C03 / C04: concat and on_error_resume_next - operators that subscribe further sources later - against their definitions,
   for every sequential interleaving of what the sources signal. *)
From Coq Require Import List ZArith Bool Arith Lia.
From RX Require Import Val Syntax Step Tear MLoc.
From RXP Require Import MLocProofs.
Import ListNotations.

(* entries of concat while source `cur` is the subscribed one: every observer made so far is still registered (concat
   never calls sink_complete(serial)), only the current one is subscribed *)
Definition ces (cur : nat) : list (nat * (bool * bool)) := map (fun i => (i, (true, Nat.eqb i cur))) (seq 0 (S cur)).

Lemma Jm_ces cur : Jm (ces cur).
Proof. intros k r u H _. unfold ces in H. apply in_map_iff in H. destruct H as [i [E _]]. now inversion E. Qed.

Lemma up_of_ces cur j : up_of j (ces cur) = Nat.eqb j cur.
Proof.
  apply Bool.eq_iff_eq_true. unfold up_of, ces. rewrite existsb_exists. split.
  - intros [[i [r u]] [I E]]. apply in_map_iff in I. destruct I as [i0 [Q I]]. inversion Q; subst. cbn [fst snd] in E.
    apply andb_prop in E. destruct E as [E1 E2]. apply Nat.eqb_eq in E1. subst. exact E2.
  - intro H. apply Nat.eqb_eq in H. subst j. exists (cur, (true, true)). split.
    + apply in_map_iff. exists cur. rewrite Nat.eqb_refl. split; auto. apply in_seq. lia.
    + cbn [fst snd]. now rewrite Nat.eqb_refl.
Qed.

Lemma ces_next cur : close_obs cur (ces cur) ++ [(length (close_obs cur (ces cur)), (true, true))] = ces (S cur).
Proof.
  unfold ces, close_obs. rewrite map_length, map_length, seq_length. rewrite (seq_S (S cur)). rewrite map_app. cbn [map Nat.add].
  rewrite Nat.eqb_refl. f_equal. rewrite map_map. apply map_ext_in. intros i Hi. apply in_seq in Hi.
  assert (H : Nat.eqb i (S cur) = false) by (apply Nat.eqb_neq; lia). rewrite H.
  destruct (Nat.eqb i cur) eqn:E; reflexivity.
Qed.

Ltac msimp2 := cbn [is_term handler port_of macts mact fst snd m_st m_es m_set_st m_alive m_set_es app dflt_err dflt_comp fwd
                    st_cnt st_set_cnt].

Theorem mloc_concat k : forall l cur st,
  cur <= k -> st_cnt st = cur ->
  snd (mfeed OConcat k {| m_st := st; m_es := ces cur; m_alive := true |} l) = spec_concat (S k) cur l.
Proof.
  induction l as [|[j e] l IH]; intros cur st LE CNT; [reflexivity |].
  rewrite mfeed_cons. cbn [spec_concat].
  destruct (Nat.eqb j cur) eqn:H.
  - apply Nat.eqb_eq in H. subst j. unfold mstep. cbn [m_es]. rewrite up_of_ces, Nat.eqb_refl.
    destruct e as [v | x |]; msimp2; cbn [fst snd app].
    + f_equal. now apply IH.
    + rewrite dead_after_finalize by (cbn [m_es m_set_es m_set_st]; apply Jm_close_obs, Jm_ces). reflexivity.
    + rewrite repeat_length, CNT.
      destruct (Nat.leb k cur) eqn:LK.
      * (* the last source has completed *)
        apply Nat.leb_le in LK. assert (E : Nat.leb (S k) (S cur) = true) by (apply Nat.leb_le; lia). rewrite E.
        msimp2. cbn [fst snd app]. rewrite dead_after_finalize by (cbn [m_es m_set_es m_set_st]; apply Jm_close_obs, Jm_ces). reflexivity.
      * apply Nat.leb_gt in LK. assert (E : Nat.leb (S k) (S cur) = false) by (apply Nat.leb_gt; lia). rewrite E.
        msimp2. cbn [fst snd app]. rewrite ces_next. apply IH; [lia | reflexivity].
  - rewrite mstep_ignored by (cbn [m_es]; rewrite up_of_ces; exact H). cbn [fst snd app]. now apply IH.
Qed.

(* concat of k+1 sources (source 0 subscribed at once, source i+1 when source i completes): for EVERY sequential
   interleaving of what the sources signal, the handler table delivers what the definition assigns *)
Theorem concat_correct k l : mrun_first OConcat k l = spec_concat (S k) 0 l.
Proof. unfold mrun_first, mst0_first. cbn [init_state]. apply (mloc_concat k l 0 st0); [lia | reflexivity]. Qed.

(* ------------------------------------------------------------------ on_error_resume_next *)
Definition res1 : list (nat * (bool * bool)) := [(0, (false, false)); (1, (true, true))].
Lemma Jm_res1 : Jm res1.
Proof. intros k r u [H|[H|[]]] U; inversion H; subst; auto. Qed.
Lemma up_of_res1 j : up_of j res1 = Nat.eqb j 1.
Proof. unfold up_of, res1. cbn [existsb fst snd]. rewrite andb_false_r, andb_true_r, orb_false_r. cbn [orb]. apply Nat.eqb_sym. Qed.

Theorem mloc_resume1 k : forall l st,
  snd (mfeed OResume k {| m_st := st; m_es := res1; m_alive := true |} l) = spec_resume 1 l.
Proof.
  induction l as [|[j e] l IH]; intro st; [reflexivity |].
  rewrite mfeed_cons. cbn [spec_resume].
  destruct (Nat.eqb j 1) eqn:H.
  - apply Nat.eqb_eq in H. subst j. unfold mstep. cbn [m_es]. rewrite up_of_res1. cbn [Nat.eqb].
    destruct e as [v | x |]; msimp2; cbn [fst snd app].
    + f_equal. apply IH.
    + rewrite dead_after_finalize by (cbn [m_es m_set_es m_set_st]; apply Jm_close_obs, Jm_res1). reflexivity.
    + replace (no_reg (unreg 1 (close_obs 1 res1))) with true by reflexivity. cbn [fst snd app].
      rewrite dead_after_finalize; [reflexivity|]. cbn [m_es m_set_es m_set_st]. intros k0 r u X U. cbn in X. destruct X as [X|[X|[]]]; inversion X; subst; auto.
  - rewrite mstep_ignored by (cbn [m_es]; rewrite up_of_res1; exact H). cbn [fst snd app]. apply IH.
Qed.

Theorem mloc_resume0 k : forall l st,
  snd (mfeed OResume k {| m_st := st; m_es := [(0, (true, true))]; m_alive := true |} l) = spec_resume 0 l.
Proof.
  induction l as [|[j e] l IH]; intro st; [reflexivity |].
  rewrite mfeed_cons. cbn [spec_resume].
  destruct (Nat.eqb j 0) eqn:H.
  - apply Nat.eqb_eq in H. subst j. assert (UP : up_of 0 [(0, (true, true))] = true) by reflexivity. unfold mstep. cbn [m_es]. rewrite UP.
    destruct e as [v | x |]; msimp2; cbn [fst snd app].
    + f_equal. apply IH.
    + (* the source fails: its observer is dropped and the resume source is subscribed as serial 1 *)
      cbn. apply mloc_resume1.
    + replace (no_reg (unreg 0 (close_obs 0 [(0, (true, true))]))) with true by reflexivity. cbn [fst snd app].
      rewrite dead_after_finalize; [reflexivity|]. cbn [m_es m_set_es m_set_st]. intros k0 r u X U. cbn in X. destruct X as [X|[]]; inversion X; subst; auto.
  - rewrite mstep_ignored; [cbn [fst snd app]; apply IH|]. cbn [m_es]. unfold up_of. cbn [existsb fst snd]. rewrite Nat.eqb_sym, H. reflexivity.
Qed.

Theorem resume_correct k l : mrun_first OResume k l = spec_resume 0 l.
Proof. unfold mrun_first, mst0_first. apply mloc_resume0. Qed.
