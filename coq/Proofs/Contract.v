(* C01 on the sequential machine: for EVERY stack of requests, every world satisfying the
   invariant and every fuel, each subscriber's log is  next* (error|complete)?  .
   The proof is generic in the handler table: it never looks inside `handler`. *)
From Coq Require Import List ZArith Bool Arith Lia.
From RX Require Import Val Syntax World Step Oracle.
Import ListNotations.

(* ------------------------------------------------------------------ logs *)
Lemma ulog_app u l p c e :
  ulog u (l ++ [(p, c, e)]) = if Nat.eqb p u then ulog u l ++ [e] else ulog u l.
Proof.
  unfold ulog. rewrite filter_app, map_app. cbn. destruct (Nat.eqb p u); cbn; auto using app_nil_r.
Qed.

Lemma contract_app_nx l v : contract_ok l = true -> has_term l = false -> contract_ok (l ++ [Nx v]) = true.
Proof.
  induction l as [|e r IH]; cbn; auto.
  destruct (is_term e) eqn:E; cbn; intros H1 H2; try discriminate. apply IH; auto.
Qed.
Lemma contract_app_t l e : contract_ok l = true -> has_term l = false -> contract_ok (l ++ [e]) = true.
Proof.
  induction l as [|x r IH]; cbn; intros H1 H2.
  - destruct (is_term e); reflexivity.
  - destruct (is_term x) eqn:E; cbn in *; try discriminate. apply IH; auto.
Qed.
Lemma has_term_app l e : has_term (l ++ [e]) = has_term l || is_term e.
Proof. unfold has_term. rewrite existsb_app. cbn. now rewrite orb_false_r. Qed.

(* ------------------------------------------------------------------ uid encoding *)
Lemma div2_double k : Nat.div2 (2 * k) = k.
Proof. apply Nat.div2_double. Qed.
Lemma div2_double1 k : Nat.div2 (2 * k + 1) = k.
Proof. replace (2 * k + 1) with (S (2 * k)) by lia. apply Nat.div2_succ_double. Qed.
Lemma even_double k : Nat.even (2 * k) = true.
Proof. rewrite Nat.even_mul. reflexivity. Qed.
Lemma even_double1 k : Nat.even (2 * k + 1) = false.
Proof. rewrite Nat.even_add, even_double. reflexivity. Qed.
Lemma udec_uenc u : udec (uenc u) = u.
Proof. destruct u as [k|j]; unfold udec, uenc; rewrite ?even_double, ?even_double1, ?div2_double, ?div2_double1; reflexivity. Qed.
Lemma uenc_inj a b : uenc a = uenc b -> a = b.
Proof. intro H. rewrite <- (udec_uenc a), <- (udec_uenc b). now rewrite H. Qed.
Lemma uenc_udec n : uenc (udec n) = n.
Proof.
  unfold udec. destruct (Nat.even n) eqn:E; unfold uenc.
  - apply Nat.even_spec in E. destruct E as [m ->]. now rewrite div2_double.
  - assert (O : Nat.odd n = true) by (unfold Nat.odd; now rewrite E).
    apply Nat.odd_spec in O. destruct O as [m ->]. now rewrite div2_double1.
Qed.

Arguments ulog : simpl never.
Arguments has_term : simpl never.
Arguments contract_ok : simpl never.
Arguments uenc : simpl never.
Arguments udec : simpl never.

(* ------------------------------------------------------------------ the invariant *)
Definition uniform (ob : observer) : Prop := o_n ob = o_e ob /\ o_e ob = o_c ob.
Definition nonuser (t : target) : Prop := match t with TUser _ => False | _ => True end.

Record Inv (w : world) : Prop := {
  i_contract : forall u, contract_ok (ulog u (log w)) = true;
  i_closed : forall u o, has_term (ulog u (log w)) = true -> o_tgt (obs w o) = TUser u -> is_sub (obs w o) = false;
  i_uniq : forall u o1 o2, o_tgt (obs w o1) = TUser u -> o_tgt (obs w o2) = TUser u -> o1 = o2;
  i_top : forall o k, o_tgt (obs w o) = TUser (uenc (UTop k)) -> handles w k <> None;
  i_child : forall o j, o_tgt (obs w o) = TUser (uenc (UChild j)) -> j < n_child w;
  i_logtop : forall k, handles w k = None -> ulog (uenc (UTop k)) (log w) = [];
  i_logchild : forall j, n_child w <= j -> ulog (uenc (UChild j)) (log w) = [];
  i_unif : forall o, uniform (obs w o) }.

(* a step that leaves logs alone, only closes / re-links existing observers or creates internal ones *)
Record ext (w w' : world) : Prop := {
  e_log : log w' = log w;
  e_nch : n_child w <= n_child w';
  e_hnd : forall k, handles w' k = None -> handles w k = None;
  e_obs : forall o, (o_tgt (obs w' o) = o_tgt (obs w o) /\ uniform (obs w' o) /\ (is_sub (obs w' o) = true -> is_sub (obs w o) = true))
                    \/ (nonuser (o_tgt (obs w' o)) /\ uniform (obs w' o)) }.

Lemma ext_inv w w' : Inv w -> ext w w' -> Inv w'.
Proof.
  intros [C Cl U T Ch LT LC Un] [EL EN EH EO]. constructor.
  - intro u. rewrite EL. apply C.
  - intros u o HT Ho. rewrite EL in HT. destruct (EO o) as [(Tg & _ & Mono) | (NU & _)].
    + rewrite Tg in Ho. specialize (Cl u o HT Ho).
      destruct (is_sub (obs w' o)) eqn:E; auto. rewrite (Mono eq_refl) in Cl. discriminate.
    + rewrite Ho in NU. destruct NU.
  - intros u o1 o2 H1 H2.
    destruct (EO o1) as [(T1 & _) | (NU & _)]; [| rewrite H1 in NU; destruct NU].
    destruct (EO o2) as [(T2 & _) | (NU & _)]; [| rewrite H2 in NU; destruct NU].
    rewrite T1 in H1. rewrite T2 in H2. eauto.
  - intros o k Ho. destruct (EO o) as [(Tg & _) | (NU & _)]; [| rewrite Ho in NU; destruct NU].
    rewrite Tg in Ho. intro HN. apply EH in HN. exact (T o k Ho HN).
  - intros o j Ho. destruct (EO o) as [(Tg & _) | (NU & _)]; [| rewrite Ho in NU; destruct NU].
    rewrite Tg in Ho. specialize (Ch o j Ho). lia.
  - intros k HN. rewrite EL. apply LT. now apply EH.
  - intros j Hj. rewrite EL. apply LC. lia.
  - intro o. destruct (EO o) as [(_ & Uf & _) | (_ & Uf)]; exact Uf.
Qed.

Lemma ext_refl w : Inv w -> ext w w.
Proof. intros I. constructor; auto. intro o. left. split; [reflexivity | split; [apply (i_unif _ I) | auto]]. Qed.

Lemma ext_trans a b c : ext a b -> ext b c -> ext a c.
Proof.
  intros [L1 N1 H1 O1] [L2 N2 H2 O2]. constructor.
  - congruence.
  - lia.
  - auto.
  - intro o. destruct (O2 o) as [(T2 & U2 & M2) | R]; [| right; exact R].
    destruct (O1 o) as [(T1 & U1 & M1) | (NU & _)].
    + left. split; [congruence | split; [exact U2 | intro X; apply M1, M2, X]].
    + right. rewrite T2. split; auto.
Qed.

(* ---- building blocks ---- *)
Lemma uniform_slots ob b : uniform (set_slots ob b b b).
Proof. split; reflexivity. Qed.
Lemma uniform_td ob t : uniform ob -> uniform (set_td ob t).
Proof. intros [A B]; split; assumption. Qed.
Lemma uniform_mk t : uniform (mk_obs t).
Proof. split; reflexivity. Qed.

(* world changes that do not touch obs / log / handles / n_child *)
Lemma ext_same w w' : Inv w -> obs w' = obs w -> log w' = log w -> handles w' = handles w -> n_child w' = n_child w -> ext w w'.
Proof.
  intros I O L H N. constructor.
  - exact L.
  - lia.
  - intros k. rewrite H. auto.
  - intro o. rewrite O. left. split; [reflexivity | split; [apply (i_unif _ I) | auto]].
Qed.

Lemma ext_set_obs w o ob' :
  Inv w ->
  (o_tgt ob' = o_tgt (obs w o) /\ uniform ob' /\ (is_sub ob' = true -> is_sub (obs w o) = true)) \/ (nonuser (o_tgt ob') /\ uniform ob') ->
  ext w (set_obs w o ob').
Proof.
  intros I H. constructor; cbn; auto.
  intro x. unfold upd. destruct (Nat.eqb x o) eqn:E.
  - apply Nat.eqb_eq in E; subst x. exact H.
  - left. split; [reflexivity | split; [apply (i_unif _ I) | auto]].
Qed.

Lemma ext_close w o : Inv w -> ext w (set_obs w o (set_slots (obs w o) false false false)).
Proof. intro I. apply ext_set_obs; auto. left. repeat split; cbn; auto. discriminate. Qed.

Lemma ext_settd w o t : Inv w -> ext w (set_obs w o (set_td (obs w o) t)).
Proof. intro I. apply ext_set_obs; auto. left. repeat split; cbn; auto; apply (i_unif _ I). Qed.

Lemma ext_alloc w t : Inv w -> nonuser t -> ext w (snd (alloc_obs w t)).
Proof.
  intros I NU. unfold alloc_obs. cbn [snd]. constructor; cbn; auto.
  intro x. unfold upd. destruct (Nat.eqb x (n_obs w)).
  - right. split; [exact NU | apply uniform_mk].
  - left. split; [reflexivity | split; [apply (i_unif _ I) | auto]].
Qed.

(* ext steps compose with Inv *)
Lemma ext_step w w' w'' : Inv w -> ext w w' -> (Inv w' -> ext w' w'') -> ext w w''.
Proof. intros I E F. eapply ext_trans; [exact E | apply F; eapply ext_inv; eauto]. Qed.

(* the fold that allocates the upstream observers of one operator node *)
Lemma ext_fold_alloc n ups : forall es w, Inv w ->
  ext w (snd (fold_left (fun (acc : list (nat * oid) * world) (pp : nat * pipe) =>
                           let '(es, wa) := acc in
                           let ser := length es in
                           let '(o', wb) := alloc_obs wa (THandler n (fst pp) ser) in
                           (es ++ [(ser, o')], wb)) ups (es, w))).
Proof.
  induction ups as [|pp ups IH]; intros es w I; cbn [fold_left].
  - now apply ext_refl.
  - unfold alloc_obs at 1. cbn [fst snd].
    eapply ext_step; [exact I | apply (ext_alloc w (THandler n (fst pp) (length es))); [exact I | exact Logic.I] |].
    intro I'. apply IH. exact I'.
Qed.

(* ------------------------------------------------------------------ fresh user observers *)
Lemma inv_alloc_child w : Inv w ->
  Inv (snd (alloc_obs (w_n_child (S (n_child w)) w) (TUser (uenc (UChild (n_child w)))))).
Proof.
  intros [C Cl U T Ch LT LC Un]. unfold alloc_obs; cbn [snd]. constructor; cbn.
  - exact C.
  - intros u o HT. unfold upd. destruct (Nat.eqb o (n_obs w)) eqn:E.
    + cbn. intros [= <-]. rewrite LC in HT by lia. discriminate.
    + intro Ho. eauto.
  - intros u o1 o2. unfold upd.
    destruct (Nat.eqb o1 (n_obs w)) eqn:E1; destruct (Nat.eqb o2 (n_obs w)) eqn:E2; cbn.
    + apply Nat.eqb_eq in E1, E2. congruence.
    + intros [= <-] H2. apply Ch in H2. lia.
    + intros H1 [= <-]. apply Ch in H1. lia.
    + eauto.
  - intros o k. unfold upd. destruct (Nat.eqb o (n_obs w)); cbn.
    + intros [= H]. apply uenc_inj in H. discriminate.
    + eauto.
  - intros o j. unfold upd. destruct (Nat.eqb o (n_obs w)); cbn.
    + intros [= H]. apply uenc_inj in H. injection H as <-. lia.
    + intro H. apply Ch in H. lia.
  - exact LT.
  - intros j Hj. apply LC. lia.
  - intro o. unfold upd. destruct (Nat.eqb o (n_obs w)); [apply uniform_mk | apply Un].
Qed.

Lemma inv_alloc_top w k rs : Inv w -> handles w k = None ->
  let '(o, w1) := alloc_obs w (TUser (uenc (UTop k))) in
  Inv (w_reacts (upd (reacts w1) k rs) (w_handles (upd (handles w1) k (Some (o, None))) w1)).
Proof.
  intros [C Cl U T Ch LT LC Un] HN. unfold alloc_obs. constructor; cbn.
  - exact C.
  - intros u o HT. unfold upd. destruct (Nat.eqb o (n_obs w)) eqn:E.
    + cbn. intros [= <-]. rewrite LT in HT by exact HN. discriminate.
    + intro Ho. eauto.
  - intros u o1 o2. unfold upd.
    destruct (Nat.eqb o1 (n_obs w)) eqn:E1; destruct (Nat.eqb o2 (n_obs w)) eqn:E2; cbn.
    + apply Nat.eqb_eq in E1, E2. congruence.
    + intros [= <-] H2. apply T in H2. contradiction.
    + intros H1 [= <-]. apply T in H1. contradiction.
    + eauto.
  - intros o k'. unfold upd. destruct (Nat.eqb o (n_obs w)); cbn.
    + intros [= H]. apply uenc_inj in H. injection H as <-. rewrite Nat.eqb_refl. discriminate.
    + intro H. destruct (Nat.eqb k' k); [discriminate | eauto].
  - intros o j. unfold upd. destruct (Nat.eqb o (n_obs w)); cbn.
    + intros [= H]. apply uenc_inj in H. discriminate.
    + eauto.
  - intros k'. unfold upd. destruct (Nat.eqb k' k) eqn:E; [discriminate | auto].
  - exact LC.
  - intro o. unfold upd. destruct (Nat.eqb o (n_obs w)); [apply uniform_mk | apply Un].
Qed.

(* ------------------------------------------------------------------ the gate: a callback of a user subscriber *)
Lemma inv_user_log w o u e :
  Inv w -> o_tgt (obs w o) = TUser u ->
  (match e with Nx _ => o_n (obs w o) | Er _ => o_e (obs w o) | Co => o_e (obs w o) && o_c (obs w o) end) = true ->
  let w1 := match e with
            | Nx _ => w
            | _ => if o_e (obs w o) then set_obs w o (set_slots (obs w o) false false false) else w
            end in
  Inv (add_log w1 u e).
Proof.
  intros I Ho Fire w1.
  assert (Alive : is_sub (obs w o) = true).
  { destruct (i_unif _ I o) as [A B]. unfold is_sub. destruct e; cbn in Fire.
    - rewrite <- B, <- A, Fire. reflexivity.
    - rewrite <- B, A, Fire. reflexivity.
    - apply andb_prop in Fire. destruct Fire as [F1 F2]. rewrite A, F1, F2. reflexivity. }
  assert (NT : has_term (ulog u (log w)) = false).
  { destruct (has_term (ulog u (log w))) eqn:E; auto. rewrite (i_closed _ I u o E Ho) in Alive. discriminate. }
  assert (E1 : ext w w1).
  { subst w1. destruct e; [now apply ext_refl | |]; (destruct (o_e (obs w o)); [now apply ext_close | now apply ext_refl]). }
  pose proof (ext_inv _ _ I E1) as I1.
  assert (L1 : log w1 = log w) by apply E1.
  assert (H1 : handles w1 = handles w).
  { subst w1. destruct e; auto; destruct (o_e (obs w o)); reflexivity. }
  assert (N1 : n_child w1 = n_child w).
  { subst w1. destruct e; auto; destruct (o_e (obs w o)); reflexivity. }
  assert (Closed : is_term e = true -> forall o', o_tgt (obs w1 o') = TUser u -> is_sub (obs w1 o') = false).
  { intros Te o' Ho'.
    assert (o' = o).
    { destruct (e_obs _ _ E1 o') as [(Tg & _) | (NU & _)]; [| rewrite Ho' in NU; destruct NU].
      rewrite Tg in Ho'. exact (i_uniq _ I u o' o Ho' Ho). }
    subst o'. subst w1. destruct e; [discriminate | |].
    - cbn in Fire. rewrite Fire. cbn. unfold upd. rewrite Nat.eqb_refl. reflexivity.
    - cbn in Fire. apply andb_prop in Fire. destruct Fire as [F1 _]. rewrite F1. cbn. unfold upd. rewrite Nat.eqb_refl. reflexivity. }
  destruct I1 as [C Cl U T Ch LT LC Un].
  unfold add_log. constructor; cbn.
  - intro x. rewrite ulog_app. destruct (Nat.eqb u x) eqn:E.
    + apply Nat.eqb_eq in E; subst x. rewrite L1. apply contract_app_t; [rewrite <- L1; apply C | exact NT].
    + apply C.
  - intros x o' HT Ho'. rewrite ulog_app in HT. destruct (Nat.eqb u x) eqn:E.
    + apply Nat.eqb_eq in E; subst x. rewrite has_term_app, L1, NT in HT. cbn in HT. apply Closed; auto.
    + eauto.
  - exact U.
  - exact T.
  - exact Ch.
  - intros k HN. rewrite ulog_app. destruct (Nat.eqb u (uenc (UTop k))) eqn:E; [| now apply LT].
    apply Nat.eqb_eq in E; subst u. rewrite H1 in HN. exfalso. exact (i_top _ I o k Ho HN).
  - intros j Hj. rewrite ulog_app. destruct (Nat.eqb u (uenc (UChild j))) eqn:E; [| now apply LC].
    apply Nat.eqb_eq in E; subst u. rewrite N1 in Hj. pose proof (i_child _ I o j Ho). lia.
  - exact Un.
Qed.

(* ------------------------------------------------------------------ every step preserves the invariant *)
Lemma inv_ncalls w f : Inv w -> Inv (w_ncalls f w).
Proof. intro I. eapply ext_inv; [exact I | apply ext_same; auto]. Qed.

Lemma inv_set_subj w h v : Inv w -> Inv (set_subj w h v).
Proof. intro I. eapply ext_inv; [exact I | apply ext_same; auto]. Qed.
Lemma inv_set_ctl w c v : Inv w -> Inv (set_ctl w c v).
Proof. intro I. eapply ext_inv; [exact I | apply ext_same; auto]. Qed.
Lemma inv_set_node w c v : Inv w -> Inv (set_node w c v).
Proof. intro I. eapply ext_inv; [exact I | apply ext_same; auto]. Qed.
Lemma inv_set_nst w c v : Inv w -> Inv (set_nst w c v).
Proof. intro I. apply inv_set_node; auto. Qed.
Lemma inv_close w o : Inv w -> Inv (set_obs w o (set_slots (obs w o) false false false)).
Proof. intro I. eapply ext_inv; [exact I | now apply ext_close]. Qed.
Lemma inv_settd w o t : Inv w -> Inv (set_obs w o (set_td (obs w o) t)).
Proof. intro I. eapply ext_inv; [exact I | now apply ext_settd]. Qed.
Lemma inv_alloc w t : Inv w -> nonuser t -> Inv (snd (alloc_obs w t)).
Proof. intros I N. eapply ext_inv; [exact I | now apply ext_alloc]. Qed.
Lemma inv_alloc_subj w k i : Inv w -> Inv (snd (alloc_subj w k i)).
Proof. intro I. eapply ext_inv; [exact I | apply ext_same; auto]. Qed.
Lemma inv_alloc_cell w : Inv w -> Inv (snd (alloc_cell w)).
Proof. intro I. eapply ext_inv; [exact I | apply ext_same; auto]. Qed.

Ltac inv_simple I := eapply ext_inv; [exact I | apply ext_same; auto].

Theorem step_inv r w : Inv w -> Inv (snd (step r w)).
Proof.
  intro I.
  destruct r as [o e | o | o | o | n a | c | c | c ser | s att o script idx | o l | o a n | o v | o l src | p o | h e | h e | h o | h o | o x | h len | h len | k | k | h o | h o' | o x | o d | s | x | l m | l m | k i | k p rs | | a]; cbn [step].
  - (* Deliver *)
    set (fire := match e with Nx _ => o_n (obs w o) | Er _ => o_e (obs w o) | Co => o_e (obs w o) && o_c (obs w o) end).
    set (w1 := match e with Nx _ => w | _ => if o_e (obs w o) then set_obs w o (set_slots (obs w o) false false false) else w end).
    assert (I1 : Inv w1).
    { subst w1. destruct e; auto; destruct (o_e (obs w o)); auto using inv_close. }
    destruct fire eqn:Fire; [| exact I1].
    destruct (o_tgt (obs w o)) as [u | n port ser | o' | o' | h | k | t |] eqn:Tg; cbn [snd]; auto.
    + (* user *)
      pose proof (inv_user_log w o u e I Tg Fire) as I2. cbn zeta in I2. fold w1 in I2.
      assert (G : forall creqs w3, Inv w3 ->
                  Inv (snd (match udec u with
                            | UTop k => (creqs ++ [React k (ncalls w3 k)], w_ncalls (upd (ncalls w3) k (S (ncalls w3 k))) w3)
                            | UChild _ => (creqs, w3)
                            end))).
      { intros creqs w3 I3. destruct (udec u); cbn [snd]; auto using inv_ncalls. }
      destruct e as [v | x |]; try (apply G; exact I2).
      destruct v; try (apply G; exact I2).
      (* a window / group observable: the recorder subscribes a child *)
      pose proof (inv_alloc_child _ I2) as I3.
      unfold alloc_obs in *. cbn [snd] in I3. apply G. exact I3.
    + (* handler *)
      destruct (handler _ _ _ _ _ _ _ _) as [st' acts]. cbn [snd]. now apply inv_set_nst.
    + (* ref_count / replay feed *) destruct e; cbn [snd]; auto; destruct (k_kind (conns w1 k)); auto; inv_simple I1.
    + (* tap log *) inv_simple I1.
  - (* Unsub *) cbn [snd]. now apply inv_close.
  - (* RunTd *)
    destruct (o_td (obs w o)) as [[c | h ser | x] |]; cbn [snd]; auto. now apply inv_set_subj.
  - (* ClearTd *) cbn [snd]. now apply inv_settd.
  - (* Act *)
    destruct a; cbn [snd];
      repeat match goal with
             | |- Inv (snd (if ?b then _ else _)) => destruct b
             | |- Inv (snd (match ?l with [] => _ | _ :: _ => _ end)) => destruct l
             end; cbn [snd]; auto using inv_set_ctl, inv_set_nst.
    + (* ASubscribe *)
      unfold alloc_obs. cbn [snd].
      pose proof (inv_alloc w (THandler n port (c_serial (ctls w (n_ctl (nodes w n))))) I Logic.I) as IA.
      unfold alloc_obs in IA; cbn [snd] in IA.
      destruct (is_sub (obs w (c_sub (ctls w (n_ctl (nodes w n)))))); cbn [snd].
      * now apply inv_set_ctl.
      * apply inv_close. now apply inv_set_ctl.
    + (* ASubjNew *)
      unfold alloc_subj. cbn [snd]. pose proof (inv_alloc_subj w k None I) as I2. unfold alloc_subj in I2; cbn [snd] in I2.
      destruct (n_op (nodes w n)); auto using inv_set_nst.
  - (* Fin *) exact I.
  - (* FinSub *) destruct (is_sub _); cbn [snd]; now apply inv_set_ctl.
  - (* UnsubEntry *) destruct (find_ser _ _); cbn [snd]; auto using inv_set_ctl.
  - (* Src *) destruct script; [| destruct (_ && _)]; cbn [snd]; inv_simple I.
  - (* FromIter *) destruct l; destruct (is_sub _); exact I.
  - (* Range *) destruct n; [| destruct (is_sub _)]; exact I.
  - (* Repeat *) destruct (is_sub _); exact I.
  - (* StartWith *) destruct l; destruct (is_sub _); exact I.
  - (* SubscribePipe *)
    destruct (negb (is_sub (obs w o))); [exact I |].
    destruct p as [s | v | l | a n | | | e | v | q | c | r | h | h | k | s | i | op src others]; cbn [snd]; auto; try (inv_simple I; fail).
    + (* PFromResult *) destruct r; exact I.
    + (* PHot *)
      destruct (sj_kind (subjs w h)); cbn [snd]; auto.
      * destruct (sj_err (subjs w h)); [exact I |]. destruct (sj_last (subjs w h)); exact I.
      * unfold alloc_cell, alloc_obs; cbn [snd].
        pose proof (inv_alloc_cell w I) as I2. unfold alloc_cell in I2; cbn [snd] in I2.
        apply (inv_alloc _ (TGated o) I2 Logic.I).
    + (* POp *)
      assert (G : forall l, Inv (snd (@pair (list req) world l w))) by (intro; exact I).
      destruct op; try apply G.
      all: destruct (plan _ src others) as [ups order].
      all: match goal with
           | |- context [fold_left ?F ?U ([], ?w2)] =>
               pose proof (ext_fold_alloc (n_nodes w) U [] w2) as EF;
               destruct (fold_left F U ([], w2)) as [entries w3] eqn:FE
           end.
      all: cbn [snd] in EF.
      all: assert (I2 : Inv (set_obs (w_n_ctls (S (n_ctls w)) (w_n_nodes (S (n_nodes w)) w)) o
                          (set_td (obs (w_n_ctls (S (n_ctls w)) (w_n_nodes (S (n_nodes w)) w)) o) (Some (TdFin (n_ctls w))))))
             by (apply inv_settd; inv_simple I).
      all: pose proof (ext_inv _ _ I2 (EF I2)) as I3.
      all: cbn [snd]; try (apply inv_set_node; apply inv_set_ctl; exact I3).
      * (* OWindow *) unfold alloc_subj; cbn [snd]. apply inv_set_node.
        pose proof (inv_alloc_subj _ KSubject None (inv_set_ctl _ (n_ctls w) {| c_sub := o; c_uns := entries; c_serial := length entries |} I3)) as I4.
        unfold alloc_subj in I4; cbn [snd] in I4. exact I4.
      * (* OTap *) unfold alloc_obs; cbn [snd]. apply inv_set_node.
        apply (inv_alloc _ (TTapLog t) (inv_set_ctl _ (n_ctls w) {| c_sub := o; c_uns := entries; c_serial := length entries |} I3) Logic.I).
  - (* SubjCall *)
    destruct (match sj_kind (subjs w h) with KBehavior | KReplay => conflicts (held w) (LHist h) MW | _ => false end); cbn [snd].
    + inv_simple I.
    + now apply inv_set_subj.
  - (* Broadcast *) destruct e; cbn [snd]; auto using inv_set_subj.
  - (* SubjJoin *) cbn [snd]. apply inv_set_subj. now apply inv_settd.
  - (* Replay *) exact I.
  - (* SetTdCell *) cbn [snd]. now apply inv_settd.
  - (* HookSub *) destruct (sj_hook _); [destruct (Nat.eqb _ _) |]; exact I.
  - (* HookUnsub *) destruct (sj_hook _); [destruct (Nat.eqb _ _) |]; exact I.
  - (* Connect *)
    destruct (k_slot (conns w k)); [exact I |]. unfold alloc_obs; cbn [snd].
    apply (inv_alloc w (TFeedK k) I Logic.I).
  - (* SlotUnsub *) destruct (k_slot (conns w k)); cbn [snd]; [| exact I]. destruct (match k_kind (conns w k) with CReplay => _ | _ => false end); cbn [snd]; [exact I | inv_simple I].
  - (* BehaviorJoin *)
    destruct (is_sub (obs w o)); [| exact I].
    unfold alloc_cell, alloc_obs; cbn [snd].
    pose proof (inv_alloc_cell w I) as I2. unfold alloc_cell in I2; cbn [snd] in I2.
    apply (inv_alloc _ (TForward o) I2 Logic.I).
  - (* ReplayDone *)
    destruct (sj_err (subjs w h)); [exact I |]. destruct (sj_done (subjs w h)); [exact I |]. cbn [snd].
    destruct (o_tgt (obs w o')) eqn:Tg; try exact I.
    eapply ext_inv; [exact I |]. apply ext_set_obs; [exact I |]. right. split; [exact Logic.I |].
    destruct (i_unif _ I o') as [A B]. split; cbn; assumption.
  - (* CellCheck *) destruct (is_sub (obs w o)); exact I.
  - (* MkSub *)
    cbn [snd].
    assert (I1 : Inv (w_n_subs (S (n_subs w)) (w_subs (upd (subs w) (n_subs w) {| sb_obs := o; sb_live := true |}) w))) by inv_simple I.
    destruct d; auto; try (inv_simple I1; fail).
    (* DHandle: handles only become more defined *)
    eapply ext_inv; [exact I1 |]. constructor; cbn; auto.
    + intros k'. unfold upd. destruct (Nat.eqb k' k); [discriminate | auto].
    + intro x. left. split; [reflexivity | split; [apply (i_unif _ I) | auto]].
  - (* SubUnsub *) destruct (sb_live _); cbn [snd]; auto. inv_simple I.
  - (* CellUnsub *) exact I.
  - (* AcqL *) destruct (conflicts _ _ _); cbn [snd]; inv_simple I.
  - (* RelL *) cbn [snd]. inv_simple I.
  - (* React *) exact I.
  - (* DoSub *)
    destruct (handles w k) eqn:HN; [exact I |].
    pose proof (inv_alloc_top w k rs I HN) as I2. unfold alloc_obs in *. cbn [snd]. exact I2.
  - (* Snap *) cbn [snd]. inv_simple I.
  - (* Drv *)
    assert (I1 : Inv (w_cur (S (cur w)) w)) by inv_simple I.
    destruct a; cbn [snd]; auto.
    unfold alloc_obs; cbn [snd]. apply (inv_alloc _ (TFeed (k_subj (conns (w_cur (S (cur w)) w) k))) I1 Logic.I).
Qed.

Theorem run_inv fuel : forall stk w, Inv w -> Inv (snd (run fuel stk w)).
Proof.
  induction fuel as [|f IH]; intros stk w I; cbn [run]; auto.
  destruct (out w); auto. destruct stk as [|r rs]; auto.
  pose proof (step_inv r w I) as I'. destruct (step r w) as [new w']. apply IH. exact I'.
Qed.

Lemma inv_init sc : Inv (init_world sc).
Proof.
  constructor; cbn; auto; try discriminate.
  intro o. split; reflexivity.
Qed.

(* every subscriber's log of every reachable world of every scenario satisfies the observer contract *)
Theorem contract_all_scenarios sc fuel u :
  contract_ok (ulog u (log (snd (run_scenario fuel sc)))) = true.
Proof. unfold run_scenario. apply (i_contract _ (run_inv fuel _ _ (inv_init sc))). Qed.

Lemma forallb_true {A} (f : A -> bool) l : (forall x, f x = true) -> forallb f l = true.
Proof. intro H. induction l; cbn; auto. now rewrite H, IHl. Qed.

Theorem c01_oracle_model sc fuel : c01_oracle (obs_of_run (run_scenario fuel sc)) = true.
Proof.
  unfold c01_oracle, obs_of_run. destruct (run_scenario fuel sc) as [stk w] eqn:E. cbn [ob_log].
  apply forallb_true. intro u. change w with (snd (stk, w)). rewrite <- E. apply contract_all_scenarios.
Qed.
