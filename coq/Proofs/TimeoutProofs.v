From Coq Require Import List Bool Arith Lia.
From RX Require Import ConcTimeout.
Import ListNotations.
Arguments Nat.ltb : simpl never.

Ltac xc := cbn [x_clock x_rest x_end x_armed x_open x_src_done x_log].

Lemma closed_step d c : x_open c = false -> x_open (xstep d c) = false /\ x_log (xstep d c) = x_log c.
Proof.
  intro O. unfold xstep. destruct (x_rest c) as [|i r]; destruct (x_end c) as [[g e]|]; destruct (x_armed c) as [dl|];
    try (destruct (Nat.ltb _ _)); xc; rewrite ?O; auto.
Qed.
Lemma closed_forever d f : forall c, x_open c = false -> x_log (xrun d f c) = x_log c.
Proof.
  induction f as [|f IH]; intros c O; cbn [xrun]; auto. destruct (closed_step d c O) as [O' L]. now rewrite IH, L.
Qed.

Lemma ltb_add c d g : Nat.ltb (c + d) (c + g) = Nat.ltb d g.
Proof. destruct (Nat.ltb d g) eqn:E; [apply Nat.ltb_lt in E; apply Nat.ltb_lt; lia | apply Nat.ltb_ge in E; apply Nat.ltb_ge; lia]. Qed.

Definition armed_at (a : bool) (clock d : nat) : option nat := if a then Some (clock + d) else None.

(* the machine, started anywhere with the subscription alive, appends exactly what the definition says *)
Lemma timeout_from d en : forall script clock a sd log fuel,
  length script + 2 <= fuel ->
  x_log (xrun d fuel {| x_clock := clock; x_rest := script; x_end := en; x_armed := armed_at a clock d; x_open := true; x_src_done := sd; x_log := log |})
  = log ++ spec_timeout d clock a script en.
Proof.
  induction script as [|i r IH]; intros clock a sd log fuel F; cbn [length] in F.
  - destruct fuel as [|fuel]; [lia|]. cbn [xrun spec_timeout]. unfold xstep. xc.
    destruct en as [[g e]|]; destruct a; cbn [armed_at andb].
    + rewrite ltb_add. destruct (Nat.ltb d g); xc; rewrite closed_forever by reflexivity; reflexivity.
    + xc. rewrite closed_forever by reflexivity. reflexivity.
    + xc. rewrite closed_forever by reflexivity. reflexivity.
    + assert (FIX : forall f c, x_rest c = [] -> x_end c = None -> x_armed c = None -> xrun d f c = c).
      { induction f as [|f IHf]; intros c A B C; cbn [xrun]; auto. unfold xstep. rewrite A, B, C. apply IHf; auto. }
      rewrite FIX by reflexivity. xc. now rewrite app_nil_r.
  - destruct fuel as [|fuel]; [lia|]. cbn [xrun spec_timeout]. unfold xstep. xc.
    destruct a; cbn [armed_at andb].
    + rewrite ltb_add. destruct (Nat.ltb d (x_gap i)).
      * xc. rewrite closed_forever by reflexivity. reflexivity.
      * xc. change (Some (clock + x_gap i + x_busy i + d)) with (armed_at true (clock + x_gap i + x_busy i) d).
        rewrite IH by lia. now rewrite <- app_assoc.
    + xc. change (Some (clock + x_gap i + x_busy i + d)) with (armed_at true (clock + x_gap i + x_busy i) d).
      rewrite IH by lia. now rewrite <- app_assoc.
Qed.

(* C16, timeout: for every period, every gap script (with consumer times) and every ending, the subscriber's
   (time, event) log is the definition's: items pass through at their arrival times; TimedOut exactly d after the sink
   of the first item that is followed by a longer silence (and never otherwise), nothing afterwards *)
Theorem timeout_follows_clock d script en fuel :
  length script + 2 <= fuel ->
  x_log (xrun d fuel (xinit script en)) = spec_timeout d 0 false script en.
Proof. intro F. unfold xinit. change None with (armed_at false 0 d). now rewrite timeout_from. Qed.

(* delay: every item is handed on exactly d after its next() began, in the source's order *)
Theorem delay_by_d d : forall script ret,
  Forall (fun x : nat * nat * nat => snd (fst x) = fst (fst x) + d) (spec_delay d ret script) /\
  map snd (spec_delay d ret script) = map x_val script.
Proof.
  induction script as [|i r IH]; intro ret; cbn [spec_delay map]; [split; constructor|].
  destruct (IH (ret + x_gap i + d + x_busy i)) as [A B]. split; [constructor; auto | now rewrite B].
Qed.
