(* C07: a system whose threads respect one acquisition order over lock instances has no deadlocked set of threads -
   whatever the number of threads, locks, modes and interleavings. *)
From Coq Require Import List Bool Arith Lia.
From RX Require Import LockOrder.
Import ListNotations.

Lemma max_elt (f : nat -> nat) (l : list nat) : l <> [] -> exists x, In x l /\ forall y, In y l -> f y <= f x.
Proof.
  induction l as [|a l IH]; [congruence|]. intros _. destruct l as [|b l].
  - exists a. split; [now left|]. intros y [<-|[]]. lia.
  - destruct (IH ltac:(discriminate)) as (x & Hx & Hm). destruct (le_lt_dec (f a) (f x)) as [LE|GT].
    + exists x. split; [now right|]. intros y [<-|Hy]; auto.
    + exists a. split; [now left|]. intros y [<-|Hy]; [lia|]. specialize (Hm y Hy). lia.
Qed.

Theorem no_deadlock mu ts :
  (forall t, In t ts -> disciplined mu t) -> forall D, ~ deadlocked ts D.
Proof.
  intros DISC D [NE DL].
  set (d := {| lt_held := []; lt_want := None |}).
  (* the place of the lock a member of D is requesting *)
  set (f := fun i => match lt_want (nth i ts d) with Some l => mu l | None => 0 end).
  destruct (max_elt f D NE) as (i & Hi & MAX).
  destruct (DL i Hi) as (l & WL & j & Hj & HELD).
  destruct (DL j Hj) as (l' & WL' & _).
  assert (INJ : In (nth j ts d) ts).
  { destruct (lt_dec j (length ts)) as [LT|GE]; [now apply nth_In|].
    rewrite nth_overflow in HELD by lia. destruct HELD. }
  pose proof (DISC _ INJ) as DJ. unfold disciplined in DJ. fold d in WL'. rewrite WL' in DJ.
  specialize (DJ l HELD).
  pose proof (MAX j Hj) as M. unfold f in M. fold d in WL. rewrite WL, WL' in M. lia.
Qed.

(* a thread waiting for a lock it holds itself is the one-element case *)
Corollary no_self_deadlock mu t l : disciplined mu t -> lt_want t = Some l -> ~ In l (lt_held t).
Proof. unfold disciplined. intros D W H. rewrite W in D. specialize (D l H). lia. Qed.

(* ---- the checker is sound: if every (held, requested) pair of every thread is among the recorded edges and the
   checker accepts them, the threads are disciplined for the order `place` *)
Definition covered (cls idn : nat -> nat) (es : list edge) (t : lthread) : Prop :=
  match lt_want t with
  | Some l => forall h, In h (lt_held t) -> In {| e_hcls := cls h; e_hid := idn h; e_wcls := cls l; e_wid := idn l |} es
  | None => True
  end.

Theorem checker_sound bound level up es cls idn ts :
  edges_ok bound level up es = true ->
  (forall t, In t ts -> covered cls idn es t) ->
  forall D, ~ deadlocked ts D.
Proof.
  intros OK COV. apply (no_deadlock (fun l => place bound level up (cls l) (idn l))).
  intros t Ht. specialize (COV t Ht). unfold covered in COV. unfold disciplined. destruct (lt_want t) as [l|]; auto.
  intros h Hh. specialize (COV h Hh). unfold edges_ok in OK. rewrite forallb_forall in OK. specialize (OK _ COV).
  unfold edge_ok in OK. cbn [e_hcls e_hid e_wcls e_wid] in OK. apply andb_true_iff in OK. destruct OK as [_ OK]. now apply Nat.ltb_lt in OK.
Qed.
