(* C14 on the sequential machine: operator state is allocated per subscription and is private to it.
   (1) subscribing a pipeline allocates a FRESH node whose state is the operator's initial state, and leaves
       every existing node alone;
   (2) afterwards a node's state changes only through requests addressed to that node: an event delivered to
       one of the upstream observers made for it, or one of its own handler actions. *)
From Coq Require Import List ZArith Bool Arith Lia.
From RX Require Import Val Syntax World Step.
Import ListNotations.

(* requests that may write node n *)
Definition addressed (w : world) (n : nid) (r : req) : bool :=
  match r with
  | Deliver o _ => match o_tgt (obs w o) with THandler n' _ _ => Nat.eqb n' n | _ => false end
  | Act n' _ => Nat.eqb n' n
  | SubscribePipe (POp _ _ _) _ => Nat.eqb (n_nodes w) n          (* the allocation itself *)
  | _ => false
  end.

Lemma upd_other {A} (f : nat -> A) k v x : x <> k -> upd f k v x = f x.
Proof. intro H. unfold upd. destruct (Nat.eqb x k) eqn:E; auto. apply Nat.eqb_eq in E. contradiction. Qed.

Lemma set_nst_other w n s n' : n' <> n -> nodes (set_nst w n s) n' = nodes w n'.
Proof. intro H. unfold set_nst, set_node. cbn. now apply upd_other. Qed.

Lemma fold_alloc_nodes n ups : forall es w,
  nodes (snd (fold_left (fun (acc : list (nat * oid) * world) (pp : nat * pipe) =>
                           let '(es, wa) := acc in
                           let ser := length es in
                           let '(o', wb) := alloc_obs wa (THandler n (fst pp) ser) in
                           (es ++ [(ser, o')], wb)) ups (es, w))) = nodes w.
Proof. unfold alloc_obs. induction ups as [|pp ups IH]; intros es w; cbn [fold_left]; auto. rewrite IH. reflexivity. Qed.

Theorem node_private r w n : addressed w n r = false -> nodes (snd (step r w)) n = nodes w n.
Proof.
  intro NA.
  destruct r as [o e | o | o | o | n' a | c | c | c ser | s att o script idx | o l | o a n0 | o v | o l src | p o | h e | h e | h o | h o | o x | h len | h len | k | k | h o | h o' | o x | o d | s | x | l m | l m | k i | k p rs | | a]; cbn [step addressed] in *.
  - (* Deliver *)
    set (w1 := match e with Nx _ => w | _ => if o_e (obs w o) then set_obs w o (set_slots (obs w o) false false false) else w end).
    assert (N1 : nodes w1 = nodes w) by (subst w1; destruct e; auto; destruct (o_e (obs w o)); reflexivity).
    assert (T1 : o_tgt (obs w1 o) = o_tgt (obs w o)).
    { subst w1. destruct e; auto; destruct (o_e (obs w o)); auto; cbn; unfold upd; rewrite Nat.eqb_refl; reflexivity. }
    destruct (match e with Nx _ => o_n (obs w o) | Er _ => o_e (obs w o) | Co => o_e (obs w o) && o_c (obs w o) end); [| cbn; now rewrite N1].
    destruct (o_tgt (obs w o)) as [u | n1 port ser | o' | o' | h | k | t |] eqn:Tg; cbn [snd]; try (now rewrite N1).
    + destruct e as [v | x |]; [destruct v |  |]; cbn; destruct (udec u); cbn; now rewrite N1.
    + destruct (handler _ _ _ _ _ _ _ _) as [st' acts]. cbn [snd]. rewrite set_nst_other; [now rewrite N1 |].
      intro X. subst. rewrite Nat.eqb_refl in NA. discriminate.
    + destruct e; cbn; try (now rewrite N1); destruct (k_kind (conns w1 k)); cbn; now rewrite N1.
    + cbn. now rewrite N1.
  - reflexivity.
  - destruct (o_td (obs w o)) as [[c | h ser | x] |]; reflexivity.
  - reflexivity.
  - (* Act: addressed to n' <> n *)
    assert (NE : n <> n') by (intro X; subst; rewrite Nat.eqb_refl in NA; discriminate).
    destruct a; cbn [snd];
      repeat match goal with
             | |- nodes (snd (if ?b then _ else _)) _ = _ => destruct b
             | |- nodes (snd (match ?l with [] => _ | _ :: _ => _ end)) _ = _ => destruct l
             end; cbn [snd]; try reflexivity; try (apply set_nst_other; exact NE).
    + unfold alloc_obs. cbn. destruct (is_sub (obs w (c_sub (ctls w (n_ctl (nodes w n')))))); reflexivity.
    + unfold alloc_subj. cbn. destruct (n_op (nodes w n')); try reflexivity. rewrite set_nst_other by exact NE. reflexivity.
  - reflexivity.
  - destruct (is_sub _); reflexivity.
  - destruct (find_ser _ _); reflexivity.
  - destruct script; [| destruct (_ && _)]; reflexivity.
  - destruct l; destruct (is_sub _); reflexivity.
  - destruct n0; [| destruct (is_sub _)]; reflexivity.
  - destruct (is_sub _); reflexivity.
  - destruct l; destruct (is_sub _); reflexivity.
  - (* SubscribePipe *)
    destruct (negb (is_sub (obs w o))); [reflexivity |].
    destruct p as [s | v | l | a n0 | | | e | v | q | c | r | h | h | k | s | i | op src others]; cbn [snd]; try reflexivity.
    + destruct r; reflexivity.
    + destruct (sj_kind (subjs w h)); cbn [snd]; try reflexivity.
      * destruct (sj_err (subjs w h)); [reflexivity |]. destruct (sj_last (subjs w h)); reflexivity.
    + (* POp: the new node is n_nodes w <> n *)
      assert (NE : n <> n_nodes w) by (intro X; subst; rewrite Nat.eqb_refl in NA; discriminate).
      destruct op; try reflexivity.
      all: destruct (plan _ src others) as [ups order].
      all: match goal with
           | |- context [fold_left ?F ?U ([], ?w2)] =>
               pose proof (fold_alloc_nodes (n_nodes w) U [] w2) as EF;
               destruct (fold_left F U ([], w2)) as [entries w3] eqn:FE
           end.
      all: cbn [snd] in EF.
      all: cbn [snd]; unfold set_node; cbn; try (unfold alloc_obs, alloc_subj; cbn); rewrite upd_other by exact NE; try (rewrite EF; reflexivity).
  - destruct (match sj_kind (subjs w h) with KBehavior | KReplay => conflicts (held w) (LHist h) MW | _ => false end); reflexivity.
  - destruct e; reflexivity.
  - reflexivity.
  - reflexivity.
  - reflexivity.
  - destruct (sj_hook _); [destruct (Nat.eqb _ _) |]; reflexivity.
  - destruct (sj_hook _); [destruct (Nat.eqb _ _) |]; reflexivity.
  - destruct (k_slot (conns w k)); reflexivity.
  - destruct (k_slot (conns w k)); [| reflexivity]. destruct (match k_kind (conns w k) with CReplay => _ | _ => false end); reflexivity.
  - destruct (is_sub (obs w o)); reflexivity.
  - destruct (sj_err (subjs w h)); [reflexivity |]. destruct (sj_done (subjs w h)); [reflexivity |]. destruct (o_tgt (obs w o')); reflexivity.
  - destruct (is_sub (obs w o)); reflexivity.
  - destruct d; reflexivity.
  - destruct (sb_live _); reflexivity.
  - reflexivity.
  - destruct (conflicts _ _ _); reflexivity.
  - reflexivity.
  - reflexivity.
  - destruct (handles w k); reflexivity.
  - reflexivity.
  - destruct a; reflexivity.
Qed.

(* (1) the allocation: fresh id, initial state, counters bumped *)
Theorem subscribe_allocates_fresh_node w op src others o :
  is_sub (obs w o) = true -> (match op with OStartWith _ => False | _ => True end) ->
  let w' := snd (step (SubscribePipe (POp op src others) o) w) in
  n_nodes w' = S (n_nodes w) /\ n_ctls w' = S (n_ctls w) /\
  n_op (nodes w' (n_nodes w)) = op /\ n_ctl (nodes w' (n_nodes w)) = n_ctls w /\
  st_cnt (n_st (nodes w' (n_nodes w))) = st_cnt (init_state op others) /\
  st_flag (n_st (nodes w' (n_nodes w))) = st_flag (init_state op others) /\
  st_acc (n_st (nodes w' (n_nodes w))) = st_acc (init_state op others) /\
  st_buf (n_st (nodes w' (n_nodes w))) = st_buf (init_state op others) /\
  st_qs (n_st (nodes w' (n_nodes w))) = st_qs (init_state op others) /\
  st_groups (n_st (nodes w' (n_nodes w))) = st_groups (init_state op others) /\
  st_win (n_st (nodes w' (n_nodes w))) = st_win (init_state op others).
Proof.
  intros AL NS. cbn [step]. rewrite AL. cbn [negb].
  assert (FN : forall n ups es w0,
             n_nodes (snd (fold_left (fun (acc : list (nat * oid) * world) (pp : nat * pipe) =>
                           let '(es, wa) := acc in let ser := length es in
                           let '(o', wb) := alloc_obs wa (THandler n (fst pp) ser) in (es ++ [(ser, o')], wb)) ups (es, w0))) = n_nodes w0 /\
             n_ctls (snd (fold_left (fun (acc : list (nat * oid) * world) (pp : nat * pipe) =>
                           let '(es, wa) := acc in let ser := length es in
                           let '(o', wb) := alloc_obs wa (THandler n (fst pp) ser) in (es ++ [(ser, o')], wb)) ups (es, w0))) = n_ctls w0).
  { intros n ups. unfold alloc_obs. induction ups as [|pp ups IH]; intros es w0; cbn [fold_left]; auto.
    match goal with |- context [fold_left _ ups (?e1, ?w1)] => destruct (IH e1 w1) as [A B]; rewrite A, B end. split; reflexivity. }
  destruct op; try contradiction.
  all: destruct (plan _ src others) as [ups order].
  all: match goal with
       | |- context [fold_left ?F ?U ([], ?w2)] =>
           destruct (FN (n_nodes w) U [] w2) as [FA FB];
           destruct (fold_left F U ([], w2)) as [entries w3] eqn:FE
       end.
  all: cbn [snd] in FA, FB.
  all: cbn; unfold upd; rewrite ?Nat.eqb_refl; cbn; rewrite ?FA, ?FB; cbn; repeat split; reflexivity.
Qed.
