(* C03: flat_map - the operator whose set of sources GROWS (one inner observable per source item) - against its
   definition, for every sequential interleaving of what the source and the inner observables signal. *)
From Coq Require Import List ZArith Bool Arith Lia.
From RX Require Import Val Syntax Step Tear MLoc.
From RXP Require Import MLocProofs.
Import ListNotations.

Lemma canon_length n closed : length (canon n closed) = n.
Proof. unfold canon. now rewrite map_length, seq_length. Qed.

Lemma memb_fresh n closed : (forall c, In c closed -> c < n) -> memb n closed = false.
Proof.
  intro B. unfold memb. destruct (existsb (Nat.eqb n) closed) eqn:E; auto.
  apply existsb_exists in E. destruct E as [x [I Q]]. apply Nat.eqb_eq in Q. subst x. specialize (B n I). lia.
Qed.

(* new_observer registers the next serial: the canonical entry list of n+1 sources *)
Lemma canon_grow n closed : (forall c, In c closed -> c < n) ->
  canon n closed ++ [(length (canon n closed), (true, true))] = canon (S n) closed.
Proof.
  intro B. rewrite canon_length. unfold canon. rewrite seq_S, map_app. cbn [map Nat.add]. now rewrite (memb_fresh n closed B).
Qed.

Lemma here_lt n closed j : here n closed j = true -> j < n.
Proof. unfold here. intro H. apply andb_prop in H. destruct H as [H _]. now apply Nat.ltb_lt in H. Qed.

Ltac msimp3 := cbn [is_term handler port_of Nat.eqb macts mact fst snd m_st m_es m_set_st m_alive m_set_es app dflt_err dflt_comp fwd].

Theorem mloc_flat_map f k : forall l n closed st,
  (forall c, In c closed -> c < n) ->
  snd (mfeed (OFlatMap f) k {| m_st := st; m_es := canon n closed; m_alive := true |} l) = spec_flat_map_ser n closed l.
Proof.
  induction l as [|[j e] l IH]; intros n closed st B; [reflexivity |].
  rewrite mfeed_cons. cbn [spec_flat_map_ser].
  destruct (here n closed j) eqn:H.
  - assert (B' : forall c, In c (j :: closed) -> c < n).
    { intros c [<- | I]; [now apply (here_lt n closed) | now apply B]. }
    unfold mstep. cbn [m_es]. rewrite ups_match_canon, H.
    destruct j as [|j']; destruct e as [v | x |]; msimp3; cbn [fst snd app].
    + (* an item of the source: one more inner observable is subscribed *)
      rewrite canon_grow by exact B. apply IH. intros c I. specialize (B c I). lia.
    + rewrite dead_after_finalize by (cbn [m_es m_set_es m_set_st]; apply Jm_close_obs, Jm_canon). reflexivity.
    + rewrite canon_complete, no_reg_canon.
      destruct (all_in n (0 :: closed)); cbn [fst snd app].
      * rewrite dead_after_finalize by (cbn [m_es m_set_es m_set_st]; apply Jm_canon). reflexivity.
      * now apply IH.
    + f_equal. now apply IH.
    + rewrite dead_after_finalize by (cbn [m_es m_set_es m_set_st]; apply Jm_close_obs, Jm_canon). reflexivity.
    + rewrite canon_complete, no_reg_canon.
      destruct (all_in n (S j' :: closed)); cbn [fst snd app].
      * rewrite dead_after_finalize by (cbn [m_es m_set_es m_set_st]; apply Jm_canon). reflexivity.
      * now apply IH.
  - rewrite mstep_ignored by (cbn [m_es]; rewrite ups_match_canon; exact H). cbn [fst snd app]. now apply IH.
Qed.

(* flat_map (any selector, any inner observables): the source subscribed at once (serial 0), the inner observable of its k-th
   item as serial k: for EVERY sequential interleaving of what they signal - including signals of inner observables
   that are not subscribed yet, or after their terminal - the handler table and the controller's bookkeeping deliver
   what the definition assigns *)
Theorem flat_map_correct f k l : mrun_first (OFlatMap f) k l = spec_flat_map_ser 1 [] l.
Proof. unfold mrun_first, mst0_first. apply (mloc_flat_map f k l 1 []). intros c []. Qed.
