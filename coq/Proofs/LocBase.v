(* Common lemmas for the per-operator theorems  loc_run op (events i) = events (spec_op op i). *)
From Coq Require Import List ZArith Bool Arith Lia.
From RX Require Import Val Syntax Step Spec Loc.
Import ListNotations.

Arguments Nat.ltb : simpl never.
Arguments Nat.leb : simpl never.
Arguments Nat.eqb : simpl never.

(* state constructors used in statements *)
Definition live (st : ostate) : lst := {| l_st := st; l_done := false; l_up := true |}.

Lemma lst0_live op : lst0 op = live (init_state op []).
Proof. reflexivity. Qed.

(* once the upstream observer is closed nothing happens any more *)
Lemma loc_feed_dead op s l : l_up s = false -> loc_feed op s l = (s, []).
Proof.
  intro H. induction l as [|e r IH]; cbn [loc_feed]; auto.
  unfold loc_step. rewrite H. rewrite IH. reflexivity.
Qed.

Lemma loc_feed_app op : forall l1 l2 s,
  loc_feed op s (l1 ++ l2) =
  let '(s1, o1) := loc_feed op s l1 in let '(s2, o2) := loc_feed op s1 l2 in (s2, o1 ++ o2).
Proof.
  induction l1 as [|e r IH]; intros l2 s; cbn [loc_feed app].
  - destruct (loc_feed op s l2); reflexivity.
  - destruct (loc_step op s e) as [s1 o1]. rewrite IH.
    destruct (loc_feed op s1 r) as [s2 o2]. destruct (loc_feed op s2 l2) as [s3 o3].
    now rewrite app_assoc.
Qed.

Lemma loc_feed_cons op s e r :
  loc_feed op s (e :: r) = let '(s1, o1) := loc_step op s e in let '(s2, o2) := loc_feed op s1 r in (s2, o1 ++ o2).
Proof. reflexivity. Qed.

Lemma feed_cons_snd op s e r :
  snd (loc_feed op s (e :: r)) = snd (loc_step op s e) ++ snd (loc_feed op (fst (loc_step op s e)) r).
Proof. cbn [loc_feed]. destruct (loc_step op s e) as [s1 o1]. cbn [fst snd]. destruct (loc_feed op s1 r) as [s2 o2]. reflexivity. Qed.

Lemma feed_dead_snd op s l : l_up s = false -> snd (loc_feed op s l) = [].
Proof. intro H. now rewrite loc_feed_dead. Qed.

(* the three endings as event lists *)
Definition ending_evs (en : ending) : list ev := match en with Completes => [Co] | Fails e => [Er e] | Silent => [] end.
Lemma events_eq xs en : events (xs, en) = map Nx xs ++ ending_evs en.
Proof. reflexivity. Qed.

(* what the default error / complete handlers do on a live node *)
Lemma step_dflt_err op st e :
  handler op PNever [] st 0 0 0 (Er e) = (st, [SinkError e]) ->
  loc_step op (live st) (Er e) = ({| l_st := st; l_done := true; l_up := false |}, [Er e]).
Proof. intro H. unfold loc_step, live; cbn [l_up l_st]. rewrite H. reflexivity. Qed.
Lemma step_dflt_comp op st :
  handler op PNever [] st 0 0 0 Co = (st, [SinkComplete 0]) ->
  loc_step op (live st) Co = ({| l_st := st; l_done := true; l_up := false |}, [Co]).
Proof. intro H. unfold loc_step, live; cbn [l_up l_st]. rewrite H. reflexivity. Qed.

(* feeding the ending of a script to a live node with default terminal handlers *)
Lemma feed_ending_dflt op st en :
  (forall e, handler op PNever [] st 0 0 0 (Er e) = (st, [SinkError e])) ->
  handler op PNever [] st 0 0 0 Co = (st, [SinkComplete 0]) ->
  snd (loc_feed op (live st) (ending_evs en)) = ending_evs en.
Proof.
  intros HE HC. destruct en as [|e|]; cbn [ending_evs loc_feed].
  - rewrite (step_dflt_comp _ _ HC). reflexivity.
  - rewrite (step_dflt_err _ _ _ (HE e)). reflexivity.
  - reflexivity.
Qed.
