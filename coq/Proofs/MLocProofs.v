(* C03: the combining operators' handler tables (Step.handler), run by the local multi-source semantics
   MLoc on ANY sequential interleaving of their sources' events (any length, any order, events after a
   source's terminal included), deliver exactly what the ReactiveX definition (the spec_* functions of
   MLoc.v) assigns to that interleaving. *)
From Coq Require Import List ZArith Bool Arith Lia.
From RX Require Import Val Syntax Step Tear MLoc.
Import ListNotations.

(* ------------------------------------------------------------------ entries *)
Definition Jm (es : list (nat * (bool * bool))) : Prop := forall k r u, In (k, (r, u)) es -> u = true -> r = true.
Definition ups_match (n : nat) (closed : list nat) (es : list (nat * (bool * bool))) : Prop :=
  forall j, up_of j es = here n closed j.

Lemma up_of_close_obs j j' es : up_of j' (close_obs j es) = if Nat.eqb j' j then false else up_of j' es.
Proof.
  unfold up_of, close_obs. induction es as [|[k [r u]] es IH]; cbn [map existsb].
  - destruct (Nat.eqb j' j); reflexivity.
  - rewrite IH. destruct (Nat.eqb k j) eqn:E; cbn [fst snd].
    + apply Nat.eqb_eq in E. subst k. destruct (Nat.eqb j' j) eqn:F.
      * apply Nat.eqb_eq in F. subst. rewrite Nat.eqb_refl. now rewrite andb_false_r.
      * rewrite (Nat.eqb_sym j j'), F. reflexivity.
    + destruct (Nat.eqb j' j) eqn:F; [| reflexivity].
      apply Nat.eqb_eq in F. subst. rewrite E. reflexivity.
Qed.

Lemma up_of_abort j j' es : Jm es -> up_of j' (abort j es) = if Nat.eqb j' j then false else up_of j' es.
Proof.
  intro J. unfold up_of, abort. induction es as [|[k [r u]] es IH]; cbn [map existsb].
  - destruct (Nat.eqb j' j); reflexivity.
  - rewrite IH by (intros k0 r0 u0 H; apply (J k0 r0 u0); now right).
    destruct (Nat.eqb k j && r) eqn:E; cbn [fst snd].
    + apply andb_prop in E. destruct E as [E1 E2]. apply Nat.eqb_eq in E1. subst k.
      destruct (Nat.eqb j' j) eqn:F.
      * apply Nat.eqb_eq in F. subst. now rewrite Nat.eqb_refl, andb_false_r.
      * rewrite (Nat.eqb_sym j j'), F. reflexivity.
    + destruct (Nat.eqb j' j) eqn:F; [| reflexivity].
      apply Nat.eqb_eq in F. subst j'. destruct (Nat.eqb k j) eqn:G; [| reflexivity].
      cbn in E. subst r. destruct u; [| reflexivity]. specialize (J k false true (or_introl eq_refl) eq_refl). discriminate.
Qed.

Lemma Jm_close_obs j es : Jm es -> Jm (close_obs j es).
Proof.
  intros J k r u H Hu. unfold close_obs in H. apply in_map_iff in H. destruct H as [[k0 [r0 u0]] [E I]].
  destruct (Nat.eqb k0 j); inversion E; subst; [discriminate | eapply J; eauto].
Qed.
Lemma Jm_abort j es : Jm es -> Jm (abort j es).
Proof.
  intros J k r u H Hu. unfold abort in H. apply in_map_iff in H. destruct H as [[k0 [r0 u0]] [E I]].
  destruct (Nat.eqb k0 j && r0); inversion E; subst; [discriminate | eapply J; eauto].
Qed.

Lemma up_of_finalize j (s : mst) : Jm (m_es s) -> up_of j (m_es (m_finalize s)) = false.
Proof.
  intro J. cbn. unfold up_of. induction (m_es s) as [|[k [r u]] es IH]; cbn [map existsb]; auto.
  rewrite IH by (intros k0 r0 u0 H; apply (J k0 r0 u0); now right). cbn [fst snd].
  destruct r; [now rewrite andb_false_r |]. destruct u; [| now rewrite andb_false_r].
  specialize (J k false true (or_introl eq_refl) eq_refl). discriminate.
Qed.

(* a node none of whose upstream observers is subscribed any more ignores everything *)
Lemma dead_feed op k : forall l s, (forall j, up_of j (m_es s) = false) -> mfeed op k s l = (s, []).
Proof.
  induction l as [|[j e] l IH]; intros s D; cbn [mfeed mstep]; auto.
  rewrite D. rewrite IH by exact D. reflexivity.
Qed.

Lemma here_cons n closed j j' : here n (j :: closed) j' = if Nat.eqb j' j then false else here n closed j'.
Proof.
  unfold here, memb. cbn [existsb]. destruct (Nat.eqb j' j); cbn; [now rewrite andb_false_r | reflexivity].
Qed.

Lemma ups_match_close n closed es j : ups_match n closed es -> ups_match n (j :: closed) (close_obs j es).
Proof. intros U j'. rewrite up_of_close_obs, here_cons, U. reflexivity. Qed.
Lemma ups_match_abort n closed es j : Jm es -> ups_match n closed es -> ups_match n (j :: closed) (abort j es).
Proof. intros J U j'. rewrite up_of_abort by exact J. rewrite here_cons, U. reflexivity. Qed.

Lemma mfeed_cons op k s x l :
  snd (mfeed op k s (x :: l)) = snd (mstep op k s x) ++ snd (mfeed op k (fst (mstep op k s x)) l).
Proof. cbn [mfeed]. destruct (mstep op k s x) as [s1 o1]. cbn [fst snd]. destruct (mfeed op k s1 l) as [s2 o2]. reflexivity. Qed.

Lemma mstep_ignored op k s j e : up_of j (m_es s) = false -> mstep op k s (j, e) = (s, []).
Proof. intro H. unfold mstep. now rewrite H. Qed.

Lemma dead_after_finalize op k s l : Jm (m_es s) -> snd (mfeed op k (m_finalize s) l) = [].
Proof. intro J. rewrite dead_feed; [reflexivity |]. intro j. now apply up_of_finalize. Qed.

Ltac two_sources H :=
  match type of H with here 2 _ ?j = true =>
    let X := fresh in
    assert (X : j = 0 \/ j = 1) by (unfold here in H; apply andb_prop in H; destruct H as [H _]; apply Nat.ltb_lt in H; lia);
    destruct X as [-> | ->]
  end.

(* ------------------------------------------------------------------ take_until *)
Theorem mloc_take_until : forall l s closed,
  m_alive s = true -> Jm (m_es s) -> ups_match 2 closed (m_es s) ->
  snd (mfeed OTakeUntil 1 s l) = spec_take_until closed l.
Proof.
  induction l as [|[j e] l IH]; intros s closed AL J U; [reflexivity |].
  rewrite mfeed_cons. cbn [spec_take_until].
  destruct (here 2 closed j) eqn:H.
  - two_sources H; destruct e as [v | x |]; unfold mstep; rewrite U, H; cbn [is_term handler port_of macts mact fst snd m_st m_set_st m_alive m_set_es app dflt_err dflt_comp fwd].
    + rewrite AL. cbn [fst snd app]. rewrite dead_after_finalize by exact J. reflexivity.
    + cbn [fst snd app]. apply (IH _ (0 :: closed)); cbn; auto; [now apply Jm_close_obs | now apply ups_match_close].
    + cbn [fst snd app]. apply (IH _ (0 :: closed)); cbn; auto; [now apply Jm_close_obs | now apply ups_match_close].
    + rewrite AL. cbn [fst snd app]. f_equal. apply (IH _ closed); auto.
    + rewrite AL. cbn [fst snd app]. rewrite dead_after_finalize by (cbn; now apply Jm_close_obs). reflexivity.
    + rewrite AL. cbn [fst snd app]. rewrite dead_after_finalize by (cbn; now apply Jm_close_obs). reflexivity.
  - rewrite mstep_ignored by (rewrite U; exact H). cbn [fst snd app]. apply (IH _ closed); auto.
Qed.

Ltac msimp := cbn [is_term handler port_of macts mact fst snd m_st m_es m_set_st m_alive m_set_es app dflt_err dflt_comp fwd
                   st_flag st_set_flag st_acc st_set_acc st_win st_set_win].

(* ------------------------------------------------------------------ skip_until *)
Theorem mloc_skip_until : forall l s closed,
  m_alive s = true -> Jm (m_es s) -> ups_match 2 closed (m_es s) ->
  snd (mfeed OSkipUntil 1 s l) = spec_skip_until (st_flag (m_st s)) closed l.
Proof.
  induction l as [|[j e] l IH]; intros s closed AL J U; [reflexivity |].
  rewrite mfeed_cons. cbn [spec_skip_until].
  destruct (here 2 closed j) eqn:H.
  - two_sources H; destruct e as [v | x |]; unfold mstep; rewrite U, H; msimp.
    + (* trigger item: open, drop the trigger *)
      rewrite (IH _ (0 :: closed)); cbn; auto; [now apply Jm_abort | now apply ups_match_abort].
    + rewrite (IH _ (0 :: closed)); cbn; auto; [now apply Jm_close_obs | now apply ups_match_close].
    + rewrite (IH _ (0 :: closed)); cbn; auto; [now apply Jm_close_obs | now apply ups_match_close].
    + destruct (st_flag (m_st s)) eqn:F; msimp; rewrite ?AL; cbn [fst snd app].
      * f_equal. rewrite (IH _ closed); cbn; auto. now rewrite F.
      * rewrite (IH _ closed); cbn; auto. now rewrite F.
    + rewrite AL. cbn [fst snd app]. rewrite dead_after_finalize by (cbn; now apply Jm_close_obs). reflexivity.
    + rewrite AL. cbn [fst snd app]. rewrite dead_after_finalize by (cbn; now apply Jm_close_obs). reflexivity.
  - rewrite mstep_ignored by (rewrite U; exact H). cbn [fst snd app]. apply (IH _ closed); auto.
Qed.

(* ------------------------------------------------------------------ sample *)
Theorem mloc_sample : forall l s closed,
  m_alive s = true -> Jm (m_es s) -> ups_match 2 closed (m_es s) ->
  snd (mfeed OSample 1 s l) = spec_sample (st_acc (m_st s)) closed l.
Proof.
  induction l as [|[j e] l IH]; intros s closed AL J U; [reflexivity |].
  rewrite mfeed_cons. cbn [spec_sample].
  destruct (here 2 closed j) eqn:H.
  - two_sources H; destruct e as [v | x |]; unfold mstep; rewrite U, H; msimp.
    + destruct (st_acc (m_st s)) as [a|] eqn:A; msimp; rewrite ?AL; cbn [fst snd app].
      * f_equal. rewrite (IH _ closed); cbn; auto.
      * rewrite (IH _ closed); cbn; auto.
    + rewrite (IH _ (0 :: closed)); cbn; auto; [now apply Jm_close_obs | now apply ups_match_close].
    + rewrite (IH _ (0 :: closed)); cbn; auto; [now apply Jm_close_obs | now apply ups_match_close].
    + rewrite (IH _ closed); cbn; auto.
    + rewrite AL. cbn [fst snd app]. rewrite dead_after_finalize by (cbn; now apply Jm_close_obs). reflexivity.
    + rewrite AL. cbn [fst snd app]. rewrite dead_after_finalize by (cbn; now apply Jm_close_obs). reflexivity.
  - rewrite mstep_ignored by (rewrite U; exact H). cbn [fst snd app]. apply (IH _ closed); auto.
Qed.

(* ------------------------------------------------------------------ amb *)
Definition win_of (w : option nat) (j : nat) : nat := match w with Some x => x | None => j end.

Theorem mloc_amb k : forall l s closed,
  m_alive s = true -> Jm (m_es s) -> ups_match (S k) closed (m_es s) ->
  snd (mfeed OAmb k s l) = spec_amb (S k) (st_win (m_st s)) closed l.
Proof.
  induction l as [|[j e] l IH]; intros s closed AL J U; [reflexivity |].
  rewrite mfeed_cons. cbn [spec_amb].
  destruct (here (S k) closed j) eqn:H.
  - unfold mstep. rewrite U, H.
    destruct (st_win (m_st s)) as [w|] eqn:W.
    + (* a winner exists *)
      destruct (Nat.eqb j w) eqn:E.
      * destruct e as [v | x |]; msimp; rewrite ?W, ?E; msimp; rewrite ?AL; cbn [fst snd app].
        -- f_equal. rewrite (IH _ closed); cbn; auto. now rewrite W.
        -- rewrite dead_after_finalize by (cbn; now apply Jm_close_obs). reflexivity.
        -- rewrite dead_after_finalize by (cbn; now apply Jm_close_obs). reflexivity.
      * (* a loser signals: dropped *)
        destruct e as [v | x |]; msimp; rewrite ?W, ?E; msimp; cbn [fst snd app].
        -- rewrite (IH _ (j :: closed)); cbn; auto; [now rewrite W | now apply Jm_abort | now apply ups_match_abort].
        -- rewrite (IH _ (j :: closed)); cbn; auto; [now rewrite W | apply Jm_abort; now apply Jm_close_obs |].
           intro j'. change (up_of j' (abort j (close_obs j (m_es s))) = here (S k) (j :: closed) j'). rewrite up_of_abort by (now apply Jm_close_obs). rewrite up_of_close_obs, here_cons, U. destruct (Nat.eqb j' j); reflexivity.
        -- rewrite (IH _ (j :: closed)); cbn; auto; [now rewrite W | apply Jm_abort; now apply Jm_close_obs |].
           intro j'. change (up_of j' (abort j (close_obs j (m_es s))) = here (S k) (j :: closed) j'). rewrite up_of_abort by (now apply Jm_close_obs). rewrite up_of_close_obs, here_cons, U. destruct (Nat.eqb j' j); reflexivity.
    + (* the first signal wins *)
      rewrite Nat.eqb_refl.
      destruct e as [v | x |]; msimp; rewrite ?W; msimp; rewrite ?AL; cbn [fst snd app].
      * f_equal. rewrite (IH _ closed); cbn; auto.
      * rewrite dead_after_finalize by (cbn; now apply Jm_close_obs). reflexivity.
      * rewrite dead_after_finalize by (cbn; now apply Jm_close_obs). reflexivity.
  - rewrite mstep_ignored by (rewrite U; exact H). cbn [fst snd app]. apply (IH _ closed); auto.
Qed.

(* ------------------------------------------------------------------ merge *)
Definition canon (n : nat) (closed : list nat) : list (nat * (bool * bool)) :=
  map (fun i => (i, (negb (memb i closed), negb (memb i closed)))) (seq 0 n).

Lemma Jm_canon n closed : Jm (canon n closed).
Proof. intros k r u H Hu. unfold canon in H. apply in_map_iff in H. destruct H as [i [E _]]. inversion E; subst. congruence. Qed.

Lemma up_of_map_seq (closed : list nat) j n a :
  up_of j (map (fun i => (i, (negb (memb i closed), negb (memb i closed)))) (seq a n)) = Nat.leb a j && Nat.ltb j (a + n) && negb (memb j closed).
Proof.
  apply Bool.eq_iff_eq_true. unfold up_of. rewrite existsb_exists. split.
  - intros [[i [r u]] [I E]]. apply in_map_iff in I. destruct I as [i0 [Q I]]. inversion Q; subst. cbn [fst snd] in E.
    apply andb_prop in E. destruct E as [E1 E2]. apply Nat.eqb_eq in E1. subst i. apply in_seq in I.
    rewrite E2. rewrite andb_true_r. apply andb_true_intro. split; [apply Nat.leb_le | apply Nat.ltb_lt]; lia.
  - intro H. apply andb_prop in H. destruct H as [H H3]. apply andb_prop in H. destruct H as [H1 H2].
    apply Nat.leb_le in H1. apply Nat.ltb_lt in H2.
    exists (j, (negb (memb j closed), negb (memb j closed))). split.
    + apply in_map_iff. exists j. split; auto. apply in_seq. lia.
    + cbn [fst snd]. rewrite Nat.eqb_refl, H3. reflexivity.
Qed.

Lemma ups_match_canon n closed : ups_match n closed (canon n closed).
Proof. intro j. unfold canon. rewrite up_of_map_seq. unfold here. cbn. reflexivity. Qed.

Lemma canon_complete n closed j : unreg j (close_obs j (canon n closed)) = canon n (j :: closed).
Proof.
  unfold canon, unreg, close_obs. rewrite !map_map. apply map_ext. intro i. unfold memb. cbn [existsb].
  destruct (Nat.eqb i j) eqn:E; cbn; [rewrite E; reflexivity | rewrite E; reflexivity].
Qed.

Lemma no_reg_canon n closed : no_reg (canon n closed) = all_in n closed.
Proof.
  unfold no_reg, canon, all_in. induction (seq 0 n) as [|i l IH]; cbn [map forallb]; auto.
  rewrite IH. cbn [fst snd]. now rewrite negb_involutive.
Qed.

Theorem mloc_merge k : forall l closed st,
  snd (mfeed OMerge k {| m_st := st; m_es := canon (S k) closed; m_alive := true |} l) = spec_merge (S k) closed l.
Proof.
  induction l as [|[j e] l IH]; intros closed st; [reflexivity |].
  rewrite mfeed_cons. cbn [spec_merge].
  destruct (here (S k) closed j) eqn:H.
  - unfold mstep. cbn [m_es]. rewrite ups_match_canon, H.
    destruct e as [v | x |]; msimp; cbn [fst snd app].
    + f_equal. apply IH.
    + rewrite dead_after_finalize by (cbn [m_es m_set_es m_set_st]; apply Jm_close_obs, Jm_canon). reflexivity.
    + rewrite canon_complete, no_reg_canon.
      destruct (all_in (S k) (j :: closed)); cbn [fst snd app].
      * rewrite dead_after_finalize by (cbn [m_es m_set_es m_set_st]; apply Jm_canon). reflexivity.
      * apply IH.
  - rewrite mstep_ignored by (cbn [m_es]; rewrite ups_match_canon; exact H). cbn [fst snd app]. apply IH.
Qed.

(* ------------------------------------------------------------------ the statements for the initial node *)
Lemma mst0_canon op k : m_es (mst0 op k) = canon (S k) [].
Proof. reflexivity. Qed.

Theorem merge_correct k l : mrun OMerge k l = spec_merge (S k) [] l.
Proof. unfold mrun, mst0. cbn [init_state]. apply (mloc_merge k l [] st0). Qed.
Theorem amb_correct k l : mrun OAmb k l = spec_amb (S k) None [] l.
Proof. unfold mrun. apply (mloc_amb k l (mst0 OAmb k) []); [reflexivity | apply (Jm_canon (S k) []) | apply (ups_match_canon (S k) [])]. Qed.
Theorem take_until_correct l : mrun OTakeUntil 1 l = spec_take_until [] l.
Proof. unfold mrun. apply (mloc_take_until l (mst0 OTakeUntil 1) []); [reflexivity | apply (Jm_canon 2 []) | apply (ups_match_canon 2 [])]. Qed.
Theorem skip_until_correct l : mrun OSkipUntil 1 l = spec_skip_until false [] l.
Proof. unfold mrun. apply (mloc_skip_until l (mst0 OSkipUntil 1) []); [reflexivity | apply (Jm_canon 2 []) | apply (ups_match_canon 2 [])]. Qed.
Theorem sample_correct l : mrun OSample 1 l = spec_sample None [] l.
Proof. unfold mrun. apply (mloc_sample l (mst0 OSample 1) []); [reflexivity | apply (Jm_canon 2 []) | apply (ups_match_canon 2 [])]. Qed.

(* ------------------------------------------------------------------ zip *)
Theorem mloc_zip k : forall l closed st,
  snd (mfeed OZip k {| m_st := st; m_es := canon (S k) closed; m_alive := true |} l) = spec_zip (S k) closed (st_qs st) l.
Proof.
  induction l as [|[j e] l IH]; intros closed st; [reflexivity |].
  rewrite mfeed_cons. cbn [spec_zip].
  destruct (here (S k) closed j) eqn:H.
  - unfold mstep. cbn [m_es]. rewrite ups_match_canon, H.
    destruct e as [v | x |]; msimp; cbn [fst snd app st_qs st_set_qs].
    + destruct (zip_drain (S (length (hd [] (upd_nth j (fun q => q ++ [v]) (st_qs st))))) (upd_nth j (fun q => q ++ [v]) (st_qs st))) as [qs2 out] eqn:Z.
      cbn [fst snd app]. rewrite app_nil_r. f_equal.
      exact (IH closed (st_set_qs (st_set_qs st (upd_nth j (fun q => q ++ [v]) (st_qs st))) qs2)).
    + rewrite dead_after_finalize by (cbn [m_es m_set_es m_set_st]; apply Jm_close_obs, Jm_canon). reflexivity.
    + rewrite canon_complete, no_reg_canon.
      destruct (all_in (S k) (j :: closed)); cbn [fst snd app].
      * rewrite dead_after_finalize by (cbn [m_es m_set_es m_set_st]; apply Jm_canon). reflexivity.
      * apply IH.
  - rewrite mstep_ignored by (cbn [m_es]; rewrite ups_match_canon; exact H). cbn [fst snd app]. apply IH.
Qed.

Theorem zip_correct k l : mrun OZip k l = spec_zip (S k) [] (map (fun _ => []) (seq 0 (S k))) l.
Proof.
  unfold mrun, mst0. cbn [init_state]. rewrite repeat_length.
  apply (mloc_zip k l [] (st_set_qs st0 (map (fun _ => []) (seq 0 (S k))))).
Qed.

Lemma map_const_seq {A} (x : A) n : forall a, map (fun _ => x) (seq a n) = repeat x n.
Proof. induction n as [|n IH]; intro a; cbn; auto. now rewrite IH. Qed.
Theorem zip_correct' k l : mrun OZip k l = spec_zip (S k) [] (repeat [] (S k)) l.
Proof. rewrite zip_correct. now rewrite map_const_seq. Qed.
