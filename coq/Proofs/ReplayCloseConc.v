(* ReplaySubject::complete / error against a concurrent subscriber: under every interleaving a newcomer whose subscribe has finished
   and whose closer has finished has been handed the terminal exactly once - by the replay (stored terminal) or live. *)
From Coq Require Import List Bool Arith.
From RX Require Import ConcReplayClose.
Import ListNotations.

Definition some (o : option bool) : bool := match o with Some _ => true | None => false end.
Definition some_true (o : option bool) : bool := match o with Some true => true | _ => false end.

(* the invariant, as a boolean (the state space is finite: preservation is checked case by case) *)
Definition rcinvb (c : rccfg) : bool :=
  implb (some (rc_snap c)) (rc_flag c) &&
  implb (some_true (rc_snap c)) (rc_joined c) &&
  implb (rc_notified c) (some (rc_snap c)) &&
  implb (rc_replayed c) (rc_joined c) &&
  implb (rc_replayed c) (Bool.eqb (rc_got_replay c) (negb (rc_marker c))) &&
  implb (negb (rc_replayed c)) (negb (rc_marker c) && negb (rc_got_replay c)) &&
  implb (rc_got_replay c) (rc_flag c) &&
  implb (rc_marker c && some (rc_snap c)) (some_true (rc_snap c)) &&
  implb (rc_marker c && rc_notified c) (rc_got_live c) &&
  implb (rc_got_live c) (rc_marker c).

Lemma rcinv_init : rcinvb rcinit = true.
Proof. reflexivity. Qed.

Lemma rcinv_step c a : rcinvb c = true -> rcinvb (rcstep c a) = true.
Proof.
  destruct c as [fl sn nt jo rp mk gr gl].
  destruct a, sn as [[|] |], fl, nt, jo, rp, mk, gr, gl; intro H; try reflexivity; discriminate H.
Qed.

Lemma rcinv_run acts : forall c, rcinvb c = true -> rcinvb (rcrun acts c) = true.
Proof. induction acts as [| a l IH]; intros c I; cbn; [exact I | apply IH, rcinv_step, I]. Qed.

Theorem replay_close_hands_over_the_terminal_once acts :
  let c := rcrun acts rcinit in
  rc_replayed c = true -> rc_notified c = true ->
  (rc_got_replay c = true /\ rc_got_live c = false) \/ (rc_got_replay c = false /\ rc_got_live c = true).
Proof.
  intros c R N. pose proof (rcinv_run acts _ rcinv_init) as I. fold c in I.
  destruct c as [fl sn nt jo rp mk gr gl]. cbn in R, N. subst.
  destruct sn as [[|] |], fl, jo, mk, gr, gl; try discriminate I; cbn; auto.
Qed.
Print Assumptions replay_close_hands_over_the_terminal_once.
