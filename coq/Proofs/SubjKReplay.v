(* C10, ReplaySubject: the automaton of subjects/replay_subject.rs (Model/SubjK.v: forwarding observer registered in the
   inner Subject, replay gate `ready`, sbsc cell) refines the reference machine of the definition (Oracle2.sref_step) for
   EVERY call history in which the subject is not used after its own terminal: a new subscriber is handed every past item
   in order, then the stored terminal if any; after the hand-over it hears what a Subject's observer hears. *)
From Coq Require Import List ZArith Bool Arith Lia.
From RX Require Import Val Syntax Step Oracle Oracle2 SubjK.
From RXP Require Import SubjKRef.
Import ListNotations.

(* everything u_deliver leaves alone *)
Definition rest (s : sk) :=
  (sk_obs s, sk_serial s, sk_last s, sk_err s, sk_items s, sk_done s, sk_used s, sk_falive s, sk_ready s, sk_ser s, sk_td s, sk_unsub s, sk_buf s).

Lemma u_deliver_rest s k e : rest (u_deliver s k e) = rest s.
Proof. unfold u_deliver. destruct (sk_ualive s k); [destruct (is_term e)|]; reflexivity. Qed.
Lemma u_deliver_logs s k e j :
  sk_logs (u_deliver s k e) j = if sk_ualive s k && Nat.eqb j k then sk_logs s j ++ [e] else sk_logs s j.
Proof.
  unfold u_deliver. destruct (sk_ualive s k); cbn [andb]; [|reflexivity].
  destruct (is_term e); cbn; unfold updf; destruct (Nat.eqb j k) eqn:E; auto; apply Nat.eqb_eq in E; now subst.
Qed.
Lemma u_deliver_ualive s k e j :
  sk_ualive (u_deliver s k e) j = if sk_ualive s k && is_term e && Nat.eqb j k then false else sk_ualive s j.
Proof.
  unfold u_deliver. destruct (sk_ualive s k) eqn:A; cbn [andb]; [|reflexivity].
  destruct (is_term e); cbn; [|reflexivity]. unfold updf. destruct (Nat.eqb j k); reflexivity.
Qed.

(* the replay of the stored items to the newcomer k *)
Lemma items_fold k l : forall s, sk_ualive s k = true ->
  let s' := fold_left (fun acc v => u_deliver acc k (Nx v)) l s in
  rest s' = rest s /\ sk_ualive s' = sk_ualive s /\
  (forall j, sk_logs s' j = if Nat.eqb j k then sk_logs s j ++ map Nx l else sk_logs s j).
Proof.
  induction l as [|v l IH]; intros s A; cbn [fold_left map].
  - repeat split; auto. intro j. destruct (Nat.eqb j k); auto. now rewrite app_nil_r.
  - assert (A1 : sk_ualive (u_deliver s k (Nx v)) k = true) by (rewrite u_deliver_ualive; cbn; now rewrite andb_false_r).
    destruct (IH _ A1) as (R & U & L). cbn zeta in *. split; [|split].
    + rewrite R. apply u_deliver_rest.
    + rewrite U. unfold u_deliver. rewrite A. reflexivity.
    + intro j. rewrite L, u_deliver_logs, A. cbn [andb]. destruct (Nat.eqb j k); auto. now rewrite <- app_assoc.
Qed.

(* one event of the inner Subject reaches the registered forwarders, all of them live, past their replay *)
Lemma fwd_fold e : forall (l : list nat) (s : sk) (r : sref),
  NoDup l -> (forall k, In k l -> sk_ualive s k = true /\ sk_falive s k = true /\ sk_ready s k = true) ->
  (forall k, sk_logs s k = r_logs r k) ->
  let s' := fold_left (fun acc k => f_deliver KReplay acc k e) l s in
  let r' := fold_left (fun acc k => r_add_log acc k [e]) l r in
  (forall k, sk_logs s' k = r_logs r' k) /\
  (sk_obs s', sk_serial s', sk_last s', sk_err s', sk_items s', sk_done s', sk_used s', sk_ready s', sk_ser s', sk_td s', sk_unsub s') =
  (sk_obs s, sk_serial s, sk_last s, sk_err s, sk_items s, sk_done s, sk_used s, sk_ready s, sk_ser s, sk_td s, sk_unsub s) /\
  (forall k, sk_ualive s' k = if is_term e && existsb (Nat.eqb k) l then false else sk_ualive s k) /\
  (forall k, sk_falive s' k = if is_term e && existsb (Nat.eqb k) l then false else sk_falive s k) /\
  r_reg r' = r_reg r /\ r_items r' = r_items r /\ r_term r' = r_term r.
Proof.
  induction l as [|k l IH]; intros s r ND AL LG; cbn [fold_left].
  - cbn. repeat split; auto; intro k; now rewrite andb_false_r.
  - inversion ND as [|? ? NI ND']; subst.
    destruct (AL k (or_introl eq_refl)) as (A & F & R).
    set (s1 := f_deliver KReplay s k e). set (r1 := r_add_log r k [e]).
    assert (E1 : s1 = u_deliver (if is_term e then s_falive s (updf (sk_falive s) k false) else s) k e).
    { subst s1. unfold f_deliver. rewrite F, R. reflexivity. }
    set (s0 := if is_term e then s_falive s (updf (sk_falive s) k false) else s) in *.
    assert (A0 : sk_ualive s0 k = true) by (subst s0; destruct (is_term e); exact A).
    assert (L1 : forall x, sk_logs s1 x = r_logs r1 x).
    { intro x. rewrite E1, u_deliver_logs, A0. cbn [andb]. subst r1. rewrite r_add_log_logs.
      assert (X : sk_logs s0 x = sk_logs s x) by (subst s0; destruct (is_term e); reflexivity). rewrite X, LG. reflexivity. }
    assert (AL1 : forall x, In x l -> sk_ualive s1 x = true /\ sk_falive s1 x = true /\ sk_ready s1 x = true).
    { intros x Hx. assert (NE : Nat.eqb x k = false) by (apply Nat.eqb_neq; intro; subst; contradiction).
      destruct (AL x (or_intror Hx)) as (A' & F' & R').
      rewrite E1. rewrite u_deliver_ualive. rewrite NE, andb_false_r.
      pose proof (u_deliver_rest s0 k e) as RS. unfold rest in RS. injection RS as _ _ _ _ _ _ _ RF RR _ _ _ _. rewrite RF, RR.
      subst s0. destruct (is_term e); cbn; unfold updf; rewrite ?NE; auto. }
    destruct (IH s1 r1 ND' AL1 L1) as (H1 & H2 & H3 & H4 & H5 & H6 & H7). cbn zeta in *.
    pose proof (u_deliver_rest s0 k e) as RS. unfold rest in RS. rewrite <- E1 in RS.
    injection RS as Q1 Q2 Q3 Q4 Q5 Q6 Q7 Q8 Q9 Q10 Q11 Q12 Q13.
    assert (S0 : (sk_obs s0, sk_serial s0, sk_last s0, sk_err s0, sk_items s0, sk_done s0, sk_used s0, sk_ready s0, sk_ser s0, sk_td s0, sk_unsub s0) =
                 (sk_obs s, sk_serial s, sk_last s, sk_err s, sk_items s, sk_done s, sk_used s, sk_ready s, sk_ser s, sk_td s, sk_unsub s))
      by (subst s0; destruct (is_term e); reflexivity).
    split; [exact H1|]. split; [rewrite H2, Q1, Q2, Q3, Q4, Q5, Q6, Q7, Q9, Q10, Q11, Q12; exact S0|].
    split; [|split].
    + intro x. rewrite H3. cbn [existsb]. rewrite E1, u_deliver_ualive, A0. cbn [andb].
      assert (X : sk_ualive s0 x = sk_ualive s x) by (subst s0; destruct (is_term e); reflexivity). rewrite X.
      destruct (is_term e); cbn [andb]; [|reflexivity]. destruct (Nat.eqb x k); cbn [orb]; [now destruct (existsb (Nat.eqb x) l) | reflexivity].
    + intro x. rewrite H4. cbn [existsb]. rewrite Q8.
      subst s0. destruct (is_term e); cbn [andb]; [|reflexivity]. cbn. unfold updf.
      destruct (Nat.eqb x k); cbn [orb]; [now destruct (existsb (Nat.eqb x) l) | reflexivity].
    + repeat split; [rewrite H5 | rewrite H6 | rewrite H7]; reflexivity.
Qed.

(* ------------------------------------------------------------------ the simulation relation *)
Definition stored_term (s : sk) : option ev :=
  match sk_err s with Some x => Some (Er x) | None => if sk_done s then Some Co else None end.

Record RelR (s : sk) (r : sref) : Prop := {
  P_reg : map snd (sk_obs s) = r_reg r;
  P_logs : forall k, sk_logs s k = r_logs r k;
  P_items : sk_items s = r_items r;
  P_term : r_term r = stored_term s;
  P_entry : forall ser k, In (ser, k) (sk_obs s) ->
              sk_ser s k = Some ser /\ sk_ualive s k = true /\ sk_falive s k = true /\ sk_ready s k = true /\
              sk_td s k = true /\ sk_unsub s k = true /\ sk_used s k = true;
  P_fresh : forall k ser, sk_ser s k = Some ser -> ser <= sk_serial s;
  P_own : forall k ser k', sk_ser s k = Some ser -> In (ser, k') (sk_obs s) -> k' = k;
  P_nd1 : NoDup (map fst (sk_obs s));
  P_nd2 : NoDup (map snd (sk_obs s));
  P_unused : forall k, sk_used s k = false -> sk_unsub s k = false /\ sk_ser s k = None;
  P_gone : forall k, ~ In k (map snd (sk_obs s)) -> sk_falive s k = false;
  P_ended : r_term r <> None -> sk_obs s = [] }.

Lemma filter_id_notin k (l : list nat) : ~ In k l -> filter (fun x => negb (Nat.eqb x k)) l = l.
Proof.
  intro NK. apply forallb_filter_id. apply forallb_forall. intros x Hx.
  destruct (Nat.eqb x k) eqn:Q; auto. apply Nat.eqb_eq in Q; subst. contradiction.
Qed.

Lemma in_snd {A B} (a : A) (b : B) l : In (a, b) l -> In b (map snd l).
Proof. intro H. change b with (snd (a, b)). now apply in_map. Qed.
Lemma in_fst {A B} (a : A) (b : B) l : In (a, b) l -> In a (map fst l).
Proof. intro H. change a with (fst (a, b)). now apply in_map. Qed.


(* the pieces of ReplaySubject::observable()'s source closure, named *)
Definition rs0 (s : sk) (k : nat) : sk :=
  s_unsub (s_td (s_ualive (s_used s (updf (sk_used s) k true)) (updf (sk_ualive s) k true)) (updf (sk_td s) k false)) (updf (sk_unsub s) k true).
Definition rs1 (s : sk) (k : nat) : sk :=
  let s0 := rs0 s k in s_ready (s_falive (s_td s0 (updf (sk_td s0) k true)) (updf (sk_falive s0) k true)) (updf (sk_ready s0) k false).
Definition rs2 (s : sk) (k : nat) : sk := inner_join (rs1 s k) k.
Definition rs3 (s : sk) (k : nat) : sk := fold_left (fun acc v => u_deliver acc k (Nx v)) (sk_items (rs2 s k)) (rs2 s k).
Definition rs4 (s : sk) (k : nat) : sk :=
  let s3 := rs3 s k in
  match sk_err s3 with
  | Some x => u_deliver s3 k (Er x)
  | None => if sk_done s3 then u_deliver s3 k Co else s_ready s3 (updf (sk_ready s3) k true)
  end.
Lemma step_sub_replay s k p rs : sk_used s k = false ->
  sk_step KReplay s (DSub k p rs) = if sk_ualive (rs4 s k) k then rs4 s k else f_unsubscribe (rs4 s k) k.
Proof. intro H. unfold sk_step. rewrite H. reflexivity. Qed.


Lemma f_unsub_single t k ser :
  sk_ser t k = Some ser -> sk_obs t = [(ser, k)] ->
  f_unsubscribe t k = s_ser (s_obs (s_falive t (updf (sk_falive t) k false)) []) (updf (sk_ser t) k None).
Proof.
  intros H1 H2. unfold f_unsubscribe, inner_remove. cbn [sk_ser s_falive]. rewrite H1. cbn [sk_obs s_falive]. rewrite H2.
  cbn [remove_ser]. rewrite Nat.eqb_refl. reflexivity.
Qed.

Ltac normv v := repeat match goal with H : ?f v = _ |- context [?f v] => rewrite H end.

Lemma relr_step s r a :
  RelR s r ->
  (match a with
   | DSub k (PHot 0) [] => sk_used s k = false
   | DEmit h _ => h = 0 /\ r_term r = None
   | DUnsub _ => True
   | _ => False
   end) ->
  RelR (sk_step KReplay s a) (sref_step KReplay r a).
Proof.
  intros [Rg Lg It Tm En Fr Ow N1 N2 Un Gn Ed] Ha.
  destruct a as [k p rs | k | h e | | |]; try contradiction.
  - (* subscribe *)
    destruct p; try contradiction. destruct h; try contradiction. destruct rs; try contradiction.
    rewrite (step_sub_replay s k (PHot 0) [] Ha). cbn [sref_step].
    destruct (Un k Ha) as [U1 U2].
    assert (NI : ~ In k (map snd (sk_obs s))).
    { intro X. apply in_map_iff in X. destruct X as [[ser k'] [E I]]. cbn in E; subst. destruct (En _ _ I) as (_ & _ & _ & _ & _ & _ & X). congruence. }
    assert (NS : ~ In (S (sk_serial s)) (map fst (sk_obs s))).
    { intro X. apply in_map_iff in X. destruct X as [[ser k'] [E I]]. cbn in E; subst. destruct (En _ _ I) as (X & _). apply Fr in X. lia. }
    (* the state after registration, before the replay *)
    unfold rs4. cbv zeta. set (s2 := rs2 s k).
    assert (A2 : sk_ualive s2 k = true) by (subst s2; unfold rs2, rs1, rs0; cbn; unfold updf; now rewrite Nat.eqb_refl).
    destruct (items_fold k (sk_items s2) s2 A2) as (R3 & U3 & L3). cbn zeta in *.
    change (rs3 s k) with (fold_left (fun acc v => u_deliver acc k (Nx v)) (sk_items s2) s2).
    set (s3 := fold_left (fun acc v => u_deliver acc k (Nx v)) (sk_items s2) s2) in *.
    unfold rest in R3. injection R3 as Q1 Q2 Q3 Q4 Q5 Q6 Q7 Q8 Q9 Q10 Q11 Q12 Q13.
    assert (I2 : sk_items s2 = sk_items s) by reflexivity.
    assert (E2 : sk_err s2 = sk_err s) by reflexivity.
    assert (D2 : sk_done s2 = sk_done s) by reflexivity.
    assert (O2 : sk_obs s2 = sk_obs s ++ [(S (sk_serial s), k)]) by reflexivity.
    assert (LG3 : forall j, sk_logs s3 j = if Nat.eqb j k then r_logs r j ++ map Nx (r_items r) else r_logs r j).
    { intro j. rewrite L3, I2, It. change (sk_logs s2 j) with (sk_logs s j). now rewrite Lg. }
    unfold stored_term in Tm.
    rewrite Q4, Q6, ?E2, ?D2.
    destruct (sk_err s) as [x|] eqn:SE; [| destruct (sk_done s) eqn:SD].
    + (* a stored error: replay, error, leave again *)
      rewrite Tm.
      assert (A3 : sk_ualive s3 k = true) by (rewrite U3; exact A2).
      set (s4 := u_deliver s3 k (Er x)).
      assert (A4 : sk_ualive s4 k = false) by (subst s4; rewrite u_deliver_ualive, A3; cbn; now rewrite Nat.eqb_refl).
      rewrite A4.
      pose proof (u_deliver_rest s3 k (Er x)) as R4. fold s4 in R4. unfold rest in R4. injection R4 as T1 T2 T3 T4 T5 T6 T7 T8 T9 T10 T11 T12 T13.
      assert (OB : sk_obs s = []) by (apply Ed; rewrite Tm; discriminate).
      assert (L4 : forall j, sk_logs s4 j = if Nat.eqb j k then (r_logs r j ++ map Nx (r_items r)) ++ [Er x] else r_logs r j).
      { intro j. subst s4. rewrite u_deliver_logs, A3. cbn [andb]. rewrite LG3. destruct (Nat.eqb j k); reflexivity. }
      clearbody s4 s3 s2.
      rewrite (f_unsub_single s4 k (S (sk_serial s)))
        by (rewrite ?T10, ?Q10, ?T1, ?Q1, ?OB; unfold updf; rewrite ?Nat.eqb_refl; reflexivity).
      constructor; cbn; normv s4; normv s3.
      * rewrite <- Rg, OB. reflexivity.
      * intro j. rewrite L4. destruct (Nat.eqb j k); reflexivity.
      * exact It.
      * unfold stored_term. cbn. normv s4; normv s3. exact Tm.
      * intros ? ? [].
      * intros k' ser. unfold updf. destruct (Nat.eqb k' k); [discriminate|]. intro X. apply Fr in X. lia.
      * intros ? ? ? _ [].
      * constructor.
      * constructor.
      * intros k'. unfold updf. destruct (Nat.eqb k' k) eqn:Q; [discriminate|]. apply Un.
      * intros k' _. unfold updf. destruct (Nat.eqb k' k) eqn:Q; auto. apply Gn. rewrite OB. intros [].
      * reflexivity.
    + (* a stored completion *)
      rewrite Tm.
      assert (A3 : sk_ualive s3 k = true) by (rewrite U3; exact A2).
      set (s4 := u_deliver s3 k Co).
      assert (A4 : sk_ualive s4 k = false) by (subst s4; rewrite u_deliver_ualive, A3; cbn; now rewrite Nat.eqb_refl).
      rewrite A4.
      pose proof (u_deliver_rest s3 k Co) as R4. fold s4 in R4. unfold rest in R4. injection R4 as T1 T2 T3 T4 T5 T6 T7 T8 T9 T10 T11 T12 T13.
      assert (OB : sk_obs s = []) by (apply Ed; rewrite Tm; discriminate).
      assert (L4 : forall j, sk_logs s4 j = if Nat.eqb j k then (r_logs r j ++ map Nx (r_items r)) ++ [Co] else r_logs r j).
      { intro j. subst s4. rewrite u_deliver_logs, A3. cbn [andb]. rewrite LG3. destruct (Nat.eqb j k); reflexivity. }
      clearbody s4 s3 s2.
      rewrite (f_unsub_single s4 k (S (sk_serial s)))
        by (rewrite ?T10, ?Q10, ?T1, ?Q1, ?OB; unfold updf; rewrite ?Nat.eqb_refl; reflexivity).
      constructor; cbn; normv s4; normv s3.
      * rewrite <- Rg, OB. reflexivity.
      * intro j. rewrite L4. destruct (Nat.eqb j k); reflexivity.
      * exact It.
      * unfold stored_term. cbn. normv s4; normv s3. exact Tm.
      * intros ? ? [].
      * intros k' ser. unfold updf. destruct (Nat.eqb k' k); [discriminate|]. intro X. apply Fr in X. lia.
      * intros ? ? ? _ [].
      * constructor.
      * constructor.
      * intros k'. unfold updf. destruct (Nat.eqb k' k) eqn:Q; [discriminate|]. apply Un.
      * intros k' _. unfold updf. destruct (Nat.eqb k' k) eqn:Q; auto. apply Gn. rewrite OB. intros [].
      * reflexivity.
    + (* no terminal yet: replay, open the gate, stay *)
      rewrite Tm.
      set (s4 := s_ready s3 (updf (sk_ready s3) k true)).
      assert (A4 : sk_ualive s4 k = true) by (change (sk_ualive s3 k = true); rewrite U3; exact A2).
      rewrite A4. subst s4.
      assert (U3' : sk_ualive s3 = updf (sk_ualive s) k true) by (rewrite U3; reflexivity).
      clear U3 L3. clearbody s3 s2.
      constructor; cbn; normv s3.
      * rewrite map_app. cbn. now rewrite Rg.
      * intro j. rewrite LG3. destruct (Nat.eqb j k); reflexivity.
      * exact It.
      * unfold stored_term. cbn. normv s3. exact Tm.
      * intros ser k' HI. unfold updf.
        apply in_app_or in HI. destruct HI as [HI | [HI | []]].
        -- destruct (En _ _ HI) as (A & B & C & D & E & F & G).
           assert (k' <> k) by (intro; subst; apply NI; eapply in_snd; eauto).
           destruct (Nat.eqb k' k) eqn:Q; [apply Nat.eqb_eq in Q; contradiction|]. auto 10.
        -- inversion HI; subst. rewrite Nat.eqb_refl. auto 10.
      * intros k' ser. unfold updf. destruct (Nat.eqb k' k).
        -- intros [= <-]. lia.
        -- intro X. apply Fr in X. lia.
      * intros k1 ser k2. unfold updf. destruct (Nat.eqb k1 k) eqn:Q.
        -- apply Nat.eqb_eq in Q; subst. intros [= <-] HI. apply in_app_or in HI. destruct HI as [HI | [HI | []]].
           ++ exfalso. apply NS. eapply in_fst; eauto.
           ++ now inversion HI.
        -- intros X HI. apply in_app_or in HI. destruct HI as [HI | [HI | []]].
           ++ eapply Ow; eauto.
           ++ inversion HI; subst. apply Fr in X. lia.
      * rewrite map_app. cbn. apply NoDup_app_comm_single; assumption.
      * rewrite map_app. cbn. apply NoDup_app_comm_single; assumption.
      * intros k'. unfold updf. destruct (Nat.eqb k' k); [discriminate | apply Un].
      * intros k' NK. unfold updf. rewrite map_app in NK. cbn in NK.
        destruct (Nat.eqb k' k) eqn:Q.
        -- apply Nat.eqb_eq in Q; subst. exfalso. apply NK. apply in_or_app. right. now left.
        -- apply Gn. intro X. apply NK. apply in_or_app. now left.
      * intro X. congruence.
  - (* unsubscribe *)
    cbn [sk_step sref_step].
    destruct (sk_unsub s k) eqn:UK.
    + unfold u_unsubscribe. cbn [s_ualive s_unsub sk_td sk_falive].
      destruct (sk_td s k) eqn:TD.
      * destruct (sk_falive s k) eqn:FK.
        -- (* registered: the forwarder leaves the inner Subject *)
           assert (IK : In k (map snd (sk_obs s))).
           { destruct (in_dec Nat.eq_dec k (map snd (sk_obs s))) as [I|NI]; auto. rewrite (Gn k NI) in FK. discriminate. }
           apply in_map_iff in IK. destruct IK as [[ser k'] [E I]]. cbn in E; subst k'.
           destruct (En _ _ I) as (SK & _).
           unfold f_unsubscribe, inner_remove. cbn. rewrite SK. cbn.
           constructor; cbn.
           ++ rewrite <- Rg. apply remove_ser_spec; assumption.
           ++ exact Lg.
           ++ exact It.
           ++ exact Tm.
           ++ intros s0 k0 HI. pose proof (remove_ser_subset _ _ _ HI) as HI0. destruct (En _ _ HI0) as (A & B & C & D & E & F & G).
              assert (k0 <> k).
              { intro; subst k0. rewrite SK in A. injection A as <-.
                assert (X : In k (map snd (remove_ser ser (sk_obs s)))) by (eapply in_snd; eauto).
                rewrite (remove_ser_spec ser k) in X by assumption. apply filter_In in X. rewrite Nat.eqb_refl in X. cbn in X. destruct X; discriminate. }
              unfold updf. destruct (Nat.eqb k0 k) eqn:Q; [apply Nat.eqb_eq in Q; contradiction|]. auto 10.
           ++ intros k0 s0. unfold updf. destruct (Nat.eqb k0 k); [discriminate | apply Fr].
           ++ intros k1 s1 k2. unfold updf. destruct (Nat.eqb k1 k); [discriminate|]. intros X HI. apply remove_ser_subset in HI. eapply Ow; eauto.
           ++ now apply remove_ser_nodup_fst.
           ++ now apply remove_ser_nodup_snd.
           ++ intros k0 X. unfold updf. destruct (Nat.eqb k0 k) eqn:Q.
              ** apply Nat.eqb_eq in Q; subst. destruct (Un _ X). congruence.
              ** apply Un; auto.
           ++ intros k0 NK. unfold updf. destruct (Nat.eqb k0 k) eqn:Q; auto. apply Gn. intro X. apply NK.
              rewrite (remove_ser_spec ser k) by assumption. apply filter_In. split; auto. now rewrite Q.
           ++ intro X. rewrite (Ed X) in I. destruct I.
        -- (* not registered (any more) *)
           assert (NK : ~ In k (map snd (sk_obs s))).
           { intro X. apply in_map_iff in X. destruct X as [[s0 k0] [E I]]. cbn in E; subst k0. destruct (En _ _ I) as (_ & _ & C & _). congruence. }
           constructor; cbn; auto.
           ++ rewrite <- Rg. symmetry. now apply filter_id_notin.
           ++ intros s0 k0 HI. destruct (En _ _ HI) as (A & B & C & D & E & F & G).
              assert (k0 <> k) by (intro; subst; apply NK; eapply in_snd; eauto).
              unfold updf. destruct (Nat.eqb k0 k) eqn:Q; [apply Nat.eqb_eq in Q; contradiction|]. auto 10.
           ++ intros k0 X. unfold updf. destruct (Nat.eqb k0 k) eqn:Q.
              ** apply Nat.eqb_eq in Q; subst. destruct (Un _ X). congruence.
              ** apply Un; auto.
      * assert (NK : ~ In k (map snd (sk_obs s))).
        { intro X. apply in_map_iff in X. destruct X as [[s0 k0] [E I]]. cbn in E; subst k0. destruct (En _ _ I) as (_ & _ & _ & _ & C & _). congruence. }
        constructor; cbn; auto.
        ++ rewrite <- Rg. symmetry. now apply filter_id_notin.
        ++ intros s0 k0 HI. destruct (En _ _ HI) as (A & B & C & D & E & F & G).
           assert (k0 <> k) by (intro; subst; apply NK; eapply in_snd; eauto).
           unfold updf. destruct (Nat.eqb k0 k) eqn:Q; [apply Nat.eqb_eq in Q; contradiction|]. auto 10.
        ++ intros k0 X. unfold updf. destruct (Nat.eqb k0 k) eqn:Q.
           ** apply Nat.eqb_eq in Q; subst. destruct (Un _ X). congruence.
           ** apply Un; auto.
    + assert (NK : ~ In k (map snd (sk_obs s))).
      { intro X. apply in_map_iff in X. destruct X as [[s0 k0] [E I]]. cbn in E; subst k0. destruct (En _ _ I) as (_ & _ & _ & _ & _ & D & _). congruence. }
      constructor; cbn; auto.
      rewrite <- Rg. symmetry. now apply filter_id_notin.
  - (* emit (never after the subject's own terminal) *)
    destruct Ha as [-> NT]. cbn [sk_step]. unfold inner_broadcast.
    assert (AL : forall k, In k (map snd (sk_obs s)) -> sk_ualive s k = true /\ sk_falive s k = true /\ sk_ready s k = true).
    { intros k X. apply in_map_iff in X. destruct X as [[s0 k0] [E I]]. cbn in E; subst k0. destruct (En _ _ I) as (_ & B & C & D & _). auto. }
    destruct e as [v | x |]; cbn [is_term sref_step]; unfold r_deliver.
    + set (s1 := s_items s (sk_items s ++ [v])). set (r0 := r_push r v).
      destruct (fwd_fold (Nx v) (map snd (sk_obs s)) s1 r0 N2 AL Lg) as (H1 & H2 & H3 & H4 & H5 & H6 & H7). cbn zeta in *.
      change (sk_obs s1) with (sk_obs s). change (r_reg r0) with (r_reg r). rewrite <- Rg.
      set (s' := fold_left (fun acc k => f_deliver KReplay acc k (Nx v)) (map snd (sk_obs s)) s1) in *.
      set (r' := fold_left (fun acc k => r_add_log acc k [Nx v]) (map snd (sk_obs s)) r0) in *.
      injection H2 as G1 G2 G3 G4 G5 G6 G7 G8 G9 G10 G11. clearbody s' r'.
      constructor.
      * rewrite G1, H5. exact Rg.
      * exact H1.
      * rewrite G5, H6. subst s1 r0. cbn. now rewrite It.
      * rewrite H7. unfold stored_term. rewrite G4, G6. exact Tm.
      * intros ser k HI. rewrite G1 in HI. destruct (En _ _ HI) as (A & B & C & D & E & F & G).
        rewrite G9, H3, H4, G8, G10, G11, G7. cbn [is_term andb]. subst s1. cbn. auto 10.
      * intros k ser. rewrite G9, G2. apply Fr.
      * intros k ser k'. rewrite G9, G1. apply Ow.
      * rewrite G1. exact N1.
      * rewrite G1. exact N2.
      * intros k. rewrite G7, G11, G9. apply Un.
      * intros k NK. rewrite G1 in NK. rewrite H4. cbn [is_term andb]. apply Gn. exact NK.
      * rewrite H7, G1. exact Ed.
    + set (s1 := s_obs (s_err s (Some x)) []). set (r0 := r_set_term r (Er x)).
      destruct (fwd_fold (Er x) (map snd (sk_obs s)) s1 r0 N2 AL Lg) as (H1 & H2 & H3 & H4 & H5 & H6 & H7). cbn zeta in *.
      change (r_reg r0) with (r_reg r). rewrite <- Rg.
      change (sk_obs (s_err s (Some x))) with (sk_obs s).
      set (s' := fold_left (fun acc k => f_deliver KReplay acc k (Er x)) (map snd (sk_obs s)) s1) in *.
      set (r' := fold_left (fun acc k => r_add_log acc k [Er x]) (map snd (sk_obs s)) r0) in *.
      injection H2 as G1 G2 G3 G4 G5 G6 G7 G8 G9 G10 G11. clearbody s' r'.
      constructor; cbn [r_reg r_logs r_items r_term r_set_reg].
      * rewrite G1. reflexivity.
      * exact H1.
      * rewrite G5, H6. exact It.
      * rewrite H7. unfold stored_term. rewrite G4. reflexivity.
      * rewrite G1. intros ? ? [].
      * intros k ser. rewrite G9, G2. apply Fr.
      * rewrite G1. intros ? ? ? _ [].
      * rewrite G1. constructor.
      * rewrite G1. constructor.
      * intros k. rewrite G7, G11, G9. apply Un.
      * intros k _. rewrite H4. cbn [is_term andb]. destruct (existsb (Nat.eqb k) (map snd (sk_obs s))) eqn:X; auto.
        apply Gn. intro Y. apply existsb_eqb_in in Y. congruence.
      * intros _. rewrite G1. reflexivity.
    + set (s1 := s_obs (s_done s true) []). set (r0 := r_set_term r Co).
      destruct (fwd_fold Co (map snd (sk_obs s)) s1 r0 N2 AL Lg) as (H1 & H2 & H3 & H4 & H5 & H6 & H7). cbn zeta in *.
      change (r_reg r0) with (r_reg r). rewrite <- Rg.
      change (sk_obs (s_done s true)) with (sk_obs s).
      set (s' := fold_left (fun acc k => f_deliver KReplay acc k Co) (map snd (sk_obs s)) s1) in *.
      set (r' := fold_left (fun acc k => r_add_log acc k [Co]) (map snd (sk_obs s)) r0) in *.
      injection H2 as G1 G2 G3 G4 G5 G6 G7 G8 G9 G10 G11. clearbody s' r'.
      assert (SE : sk_err s = None).
      { rewrite NT in Tm. unfold stored_term in Tm. destruct (sk_err s); [discriminate | reflexivity]. }
      constructor; cbn [r_reg r_logs r_items r_term r_set_reg].
      * rewrite G1. reflexivity.
      * exact H1.
      * rewrite G5, H6. exact It.
      * rewrite H7. unfold stored_term. rewrite G4, G6. subst s1. cbn. now rewrite SE.
      * rewrite G1. intros ? ? [].
      * intros k ser. rewrite G9, G2. apply Fr.
      * rewrite G1. intros ? ? ? _ [].
      * rewrite G1. constructor.
      * rewrite G1. constructor.
      * intros k. rewrite G7, G11, G9. apply Un.
      * intros k _. rewrite H4. cbn [is_term andb]. destruct (existsb (Nat.eqb k) (map snd (sk_obs s))) eqn:X; auto.
        apply Gn. intro Y. apply existsb_eqb_in in Y. congruence.
      * intros _. rewrite G1. reflexivity.
Qed.

(* ------------------------------------------------------------------ `used` bookkeeping *)
Lemma fdel_used s k e : sk_used (f_deliver KReplay s k e) = sk_used s.
Proof.
  unfold f_deliver. destruct (sk_falive s k); auto. destruct (sk_ready s k); [rewrite u_deliver_used|]; destruct (is_term e); reflexivity.
Qed.
Lemma fold_fdel_used e l : forall s, sk_used (fold_left (fun acc k => f_deliver KReplay acc k e) l s) = sk_used s.
Proof. induction l as [|k l IH]; intro s; cbn [fold_left]; auto. rewrite IH. apply fdel_used. Qed.
Lemma fold_items_used k l : forall s, sk_used (fold_left (fun acc v => u_deliver acc k (Nx v)) l s) = sk_used s.
Proof. induction l as [|v l IH]; intro s; cbn [fold_left]; auto. rewrite IH. apply u_deliver_used. Qed.
Lemma funsub_used s k : sk_used (f_unsubscribe s k) = sk_used s.
Proof. unfold f_unsubscribe, inner_remove. cbn. destruct (sk_ser s k); reflexivity. Qed.

Lemma rs4_used s k : sk_used (rs4 s k) = updf (sk_used s) k true.
Proof.
  unfold rs4. cbv zeta.
  assert (U3 : sk_used (rs3 s k) = updf (sk_used s) k true) by (unfold rs3; rewrite fold_items_used; reflexivity).
  destruct (sk_err (rs3 s k)); [rewrite u_deliver_used; exact U3|].
  destruct (sk_done (rs3 s k)); [rewrite u_deliver_used; exact U3 | exact U3].
Qed.

Lemma used_step_replay s a k :
  sk_used (sk_step KReplay s a) k = sk_used s k || match a with DSub k' _ _ => Nat.eqb k k' | _ => false end.
Proof.
  destruct a as [k' p rs | k' | h e | | |]; try (cbn [sk_step]; now rewrite orb_false_r).
  - destruct (sk_used s k') eqn:U.
    + cbn [sk_step]. rewrite U. destruct (Nat.eqb k k') eqn:E; [apply Nat.eqb_eq in E; subst; rewrite U; reflexivity | now rewrite orb_false_r].
    + rewrite (step_sub_replay s k' p rs U).
      assert (X : sk_used (if sk_ualive (rs4 s k') k' then rs4 s k' else f_unsubscribe (rs4 s k') k') = updf (sk_used s) k' true).
      { destruct (sk_ualive (rs4 s k') k'); [| rewrite funsub_used]; apply rs4_used. }
      rewrite X. unfold updf. destruct (Nat.eqb k k'); [now rewrite orb_true_r | now rewrite orb_false_r].
  - cbn [sk_step]. rewrite orb_false_r. destruct (sk_unsub s k'); auto. unfold u_unsubscribe. cbn [s_ualive s_unsub sk_td sk_falive].
    destruct (sk_td s k'); cbn; auto. destruct (sk_falive s k'); [rewrite funsub_used|]; reflexivity.
  - cbn [sk_step]. rewrite orb_false_r. unfold inner_broadcast. rewrite fold_fdel_used. destruct e; destruct (is_term _); reflexivity.
Qed.

Lemma relr_init : RelR (sk0 None) (sref0 None).
Proof. constructor; cbn; auto; try constructor; try (intros; contradiction); try discriminate. Qed.

Definition has_term_r (r : sref) : bool := match r_term r with Some _ => true | None => false end.

Lemma r_deliver_term r es : r_term (r_deliver r es) = r_term r.
Proof.
  unfold r_deliver. generalize (r_reg r) at 1. intro l. revert r. induction l as [|k l IH]; intro r; cbn [fold_left]; auto. now rewrite IH.
Qed.

Lemma relr_run : forall script s r,
  RelR s r -> plain_history script = true -> NoDup (sub_handles script) ->
  (forall k, In k (sub_handles script) -> sk_used s k = false) ->
  emits_after_terminal (has_term_r r) script = false ->
  RelR (fold_left (sk_step KReplay) script s) (fold_left (sref_step KReplay) script r).
Proof.
  induction script as [|a script IH]; intros s r HR PH ND UN EA; cbn [fold_left]; auto.
  cbn [plain_history forallb] in PH. apply andb_prop in PH. destruct PH as [Pa PH].
  apply IH; auto.
  - apply relr_step; auto.
    destruct a as [k p rs | k | h e | | |]; try discriminate; auto.
    + destruct p; try discriminate. destruct h; try discriminate. destruct rs; try discriminate.
      apply UN. cbn. now left.
    + split; [now apply Nat.eqb_eq in Pa|]. cbn [emits_after_terminal] in EA. unfold has_term_r in EA.
      destruct (r_term r); [discriminate | reflexivity].
  - destruct a; cbn in ND; auto. now inversion ND.
  - intros k Hk. rewrite used_step_replay. rewrite UN.
    + destruct a as [k' p rs | | | | |]; auto. cbn.
      destruct (Nat.eqb k k') eqn:E; auto. apply Nat.eqb_eq in E; subst. cbn in ND. inversion ND; contradiction.
    + destruct a; cbn; auto.
  - (* the flag "a terminal has been emitted" is the reference's stored terminal *)
    destruct a as [k p rs | k | h e | | |]; try discriminate; cbn [emits_after_terminal] in EA.
    + replace (has_term_r (sref_step KReplay r (DSub k p rs))) with (has_term_r r); [exact EA|].
      unfold has_term_r. cbn [sref_step]. destruct (r_term r) eqn:T; cbn; rewrite ?T; reflexivity.
    + exact EA.
    + unfold has_term_r in *. destruct (r_term r) eqn:T; [discriminate|].
      replace (match r_term (sref_step KReplay r (DEmit h e)) with Some _ => true | None => false end) with (is_term e); [exact EA|].
      destruct e; cbn [sref_step is_term r_set_reg r_term]; rewrite r_deliver_term; cbn; now rewrite ?T.
Qed.

(* C10, ReplaySubject: for every call history that does not use the subject after its own terminal - any number of
   observers (each subscribing once), values and calls in any order, subscriptions after the terminal and repeated
   unsubscription included - every observer's log is the reference machine's (the whole history so far in order, then
   the stored terminal or the live stream), the inner Subject holds exactly the reference's registered observers, and
   the history cells are the reference's. *)
Theorem replay_refines_reference script :
  plain_history script = true -> NoDup (sub_handles script) -> emits_after_terminal false script = false ->
  let s := sk_run KReplay None script in
  let r := fold_left (sref_step KReplay) script (sref0 None) in
  (forall k, sk_logs s k = r_logs r k) /\ map snd (sk_obs s) = r_reg r /\ sk_items s = r_items r /\ r_term r = stored_term s.
Proof.
  intros PH ND EA. cbn zeta. unfold sk_run.
  pose proof (relr_run script (sk0 None) (sref0 None) relr_init PH ND (fun k _ => eq_refl) EA) as [Rg Lg It Tm _ _ _ _ _ _ _ _].
  auto.
Qed.
