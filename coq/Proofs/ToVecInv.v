(* C18: to_vec resolves exactly when the source terminates, with everything it emitted, under every
   interleaving of poll (any number of re-polls) with the source's callbacks; no wake-up is lost. *)
From Coq Require Import List Bool Arith Lia.
From RX Require Import ConcToVec.
From Hammer Require Import Tactics.
Import ListNotations.

Lemma option_nat_eq_dec (a b : option nat) : {a = b} + {a <> b}.
Proof. decide equality. apply Nat.eq_dec. Qed.

Definition emitted (s : tv) : list nat :=      (* what the source has pushed so far *)
  match t_sp s with SItems r => firstn (length (t_all s) - length r) (t_all s) | _ => t_all s end.

Record TInv (s : tv) : Prop := {
  ti_lockp : t_lock s = LPoller <-> t_pp s = PPHoldW;
  ti_locks : t_lock s = LSource <-> t_sp s = SHoldR;
  ti_done : t_done s = true <-> (t_sp s = SDoneSet \/ t_sp s = SHoldR \/ t_sp s = SFin);
  ti_suffix : match t_sp s with SItems r => exists pre, t_all s = pre ++ r /\ t_buf s = pre | _ => t_buf s = t_all s end;
  ti_err : match t_sp s with
           | SItems _ => t_err s = None
           | _ => t_err s = match t_end s with TError e => Some e | _ => None end
           end;
  ti_endk : match t_sp s with SErrSet => exists e, t_end s = TError e | SItems _ => True | _ => t_end s <> TSilent end;
  ti_parked : t_pp s = PPParked -> t_waker s = Some (t_cur s);
  ti_nolost : t_pp s = PPParked -> t_token s <> Some (t_cur s) -> t_done s = true -> (t_sp s = SDoneSet \/ t_sp s = SHoldR);
  ti_ready : forall e l, t_pp s = PPReady e l -> t_done s = true /\ expected_result (t_all s) (t_end s) = Some (e, l) }.

Lemma tinv0 items en : TInv (tv0 items en).
Proof.
  constructor; cbn; try (split; intro; discriminate); try discriminate; auto.
  - split; [discriminate | intros [H | [H | H]]; discriminate].
  - exists []. auto.
Qed.

Lemma tstep_inv s a s' : TInv s -> tstep s a = Some s' -> TInv s'.
Proof.
  intros I H. pose proof I as [LP LS DN SF ER EK PK NL RD].
  destruct a; cbn in H.
  - (* poller *)
    destruct (t_pp s) eqn:PP.
    + destruct (t_lock s) eqn:L; inversion H; subst; clear H.
      constructor; cbn; auto; try (intros; discriminate); try (timeout 20 sauto).
    + destruct (t_done s) eqn:D; inversion H; subst; clear H.
      * constructor; cbn; auto; try (intros; discriminate).
        -- timeout 20 sauto.
        -- timeout 20 sauto.
        -- intros e l [= <- <-]. split; auto.
           pose proof (proj1 DN eq_refl) as D'. destruct (t_sp s) eqn:SP; try (destruct D' as [D' | [D' | D']]; discriminate); rewrite ER, SF;
             unfold expected_result; destruct (t_end s); try reflexivity; exfalso; apply EK; reflexivity.
      * constructor; cbn; auto; try (intros; discriminate); try (timeout 20 sauto).
    + destruct (match t_token s with Some k => Nat.eqb k (t_cur s) | None => false end) eqn:T; inversion H; subst; clear H.
      constructor; cbn; auto; try (intros; discriminate); try (timeout 20 sauto).
    + discriminate.
  - (* source *)
    destruct (t_sp s) eqn:SP.
    + destruct rest as [|x r].
      * destruct (t_end s) eqn:E; inversion H; subst; clear H.
        -- (* complete: done := true *)
           destruct SF as [pre [A B]]. rewrite app_nil_r in A.
           constructor; cbn; auto; try (intros; discriminate); try congruence; try (timeout 20 sauto).
        -- (* error: err := Some e *)
           destruct SF as [pre [A B]]. rewrite app_nil_r in A.
           constructor; cbn; auto; try (intros; discriminate); try congruence; try (timeout 20 sauto).
      * inversion H; subst; clear H. destruct SF as [pre [A B]].
        constructor; cbn; auto; try (intros; discriminate).
        all: try (exists (pre ++ [x]); rewrite <- app_assoc; cbn; split; [exact A | now rewrite B]).
        all: try (timeout 20 sauto).
    + (* err set: done := true *)
      inversion H; subst; clear H. destruct EK as [e E].
      constructor; cbn; auto; try (intros; discriminate); try (rewrite E; discriminate); try (timeout 20 sauto).
    + (* acquire the waker lock for reading *)
      destruct (t_lock s) eqn:L; inversion H; subst; clear H.
      constructor; cbn; auto; try (intros; discriminate); try (timeout 20 sauto).
    + (* read the waker, release, wake *)
      inversion H; subst; clear H.
      constructor; cbn; auto; try (intros; discriminate).
      all: try (intros P T; rewrite (PK P) in T; congruence).
      all: try (timeout 20 sauto).
    + discriminate.
  - (* spurious re-poll *)
    destruct (t_pp s) eqn:PP; inversion H; subst; clear H.
    constructor; cbn; auto; try (intros; discriminate); try (timeout 20 sauto).
Qed.

Theorem trun_inv acts : forall s, TInv s -> TInv (trun acts s).
Proof.
  induction acts as [|a r IH]; intros s I; cbn; auto.
  destruct (tstep s a) eqn:E; auto. apply IH. eapply tstep_inv; eauto.
Qed.

Lemma tstep_static s a s' : tstep s a = Some s' -> t_all s' = t_all s /\ t_end s' = t_end s.
Proof.
  destruct a; cbn.
  - destruct (t_pp s); [destruct (t_lock s) | destruct (t_done s) | destruct (match t_token s with Some k => Nat.eqb k (t_cur s) | None => false end) |]; intros [= <-]; auto.
  - destruct (t_sp s) as [[|x r] | | | |]; [destruct (t_end s) | | | destruct (t_lock s) | |]; intros [= <-]; auto.
  - destruct (t_pp s); intros [= <-]; auto.
Qed.
Lemma trun_static acts : forall s, t_all (trun acts s) = t_all s /\ t_end (trun acts s) = t_end s.
Proof.
  induction acts as [|a r IH]; intro s; cbn; auto.
  destruct (tstep s a) eqn:E; auto. destruct (tstep_static _ _ _ E) as [A B]. destruct (IH t) as [C D]. split; congruence.
Qed.

(* Ready only after the source terminated, with the source's error or ALL its items in order *)
Theorem tovec_result items en acts e l :
  t_pp (trun acts (tv0 items en)) = PPReady e l ->
  t_done (trun acts (tv0 items en)) = true /\ expected_result items en = Some (e, l).
Proof.
  intro H. destruct (ti_ready _ (trun_inv acts _ (tinv0 items en)) e l H) as [A B].
  destruct (trun_static acts (tv0 items en)) as [C D]. rewrite C, D in B. auto.
Qed.

(* no lost wake-up: once the source has finished, the poller is never parked without a pending token *)
Theorem tovec_no_lost_wakeup items en acts :
  let s := trun acts (tv0 items en) in
  t_sp s = SFin -> t_pp s = PPParked -> t_token s = Some (t_cur s).
Proof.
  cbn zeta. intros F P. pose proof (trun_inv acts _ (tinv0 items en)) as I.
  set (s := trun acts (tv0 items en)) in *.
  destruct (option_nat_eq_dec (t_token s) (Some (t_cur s))) as [E|NE]; auto.
  assert (D : t_done s = true) by (apply (ti_done _ I); auto).
  destruct (ti_nolost _ I P NE D) as [X | X]; congruence.
Qed.

(* ... hence the future always becomes ready: from any reachable state in which the source has finished,
   the poller's own next steps (at most: take the token, acquire, test) end in Ready; nobody blocks it *)
Theorem tovec_eventually_ready items en acts :
  let s := trun acts (tv0 items en) in
  t_sp s = SFin ->
  exists e l, t_pp (trun [APoll; APoll; APoll] s) = PPReady e l.
Proof.
  cbn zeta. intro F. pose proof (trun_inv acts _ (tinv0 items en)) as I.
  set (s := trun acts (tv0 items en)) in *.
  assert (D : t_done s = true) by (apply (ti_done _ I); auto).
  assert (NL : t_lock s <> LSource). { intro X. apply (ti_locks _ I) in X. congruence. }
  destruct (t_pp s) eqn:PP.
  - (* about to poll *)
    assert (L : t_lock s = LFree).
    { destruct (t_lock s) eqn:L; auto; [apply (ti_lockp _ I) in L; congruence | contradiction]. }
    cbn [trun tstep]. rewrite PP, L. cbn [trun tstep t_pp t_done]. rewrite D. cbn. eauto.
  - cbn [trun tstep]. rewrite PP, D. cbn. eauto.
  - assert (T : t_token s = Some (t_cur s)) by (apply (tovec_no_lost_wakeup items en acts); auto).
    assert (L : t_lock s = LFree).
    { destruct (t_lock s) eqn:L; auto; [apply (ti_lockp _ I) in L; congruence | contradiction]. }
    cbn [trun tstep]. rewrite PP, T, Nat.eqb_refl. cbn [trun tstep t_pp t_lock]. rewrite L. cbn [trun tstep t_pp t_done]. rewrite D. cbn. eauto.
  - cbn [trun tstep]. rewrite PP. cbn. rewrite PP. eauto.
Qed.
