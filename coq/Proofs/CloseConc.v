(* Subject::error / complete against a concurrent subscriber: with the observers taken out in ONE critical section the newcomer is
   either notified or still registered - for every interleaving; with the pinned two-section code it can be lost (witness). *)
From Coq Require Import List Bool Arith Lia.
From RX Require Import ConcClose.
Import ListNotations.

Definition ClInv (c : clcfg) : Prop :=
  cl_atomic c = true /\
  match cl_snap c with
  | None => cl_inmap c = cl_joined c /\ cl_notified c = false /\ cl_done c = false /\ cl_cleared c = false
  | Some b => cl_cleared c = true /\
              (b = true -> cl_joined c = true /\ cl_inmap c = false) /\
              (b = false -> cl_inmap c = cl_joined c) /\
              (cl_done c = true -> cl_notified c = b) /\ (cl_done c = false -> cl_notified c = false)
  end.

Lemma clinv_init : ClInv (clinit true).
Proof. unfold ClInv, clinit; cbn. repeat split; reflexivity. Qed.

Lemma clinv_step c a : ClInv c -> ClInv (clstep c a).
Proof.
  destruct c as [at_ im jo sn cl no dn gt]. unfold ClInv. cbn [cl_atomic cl_inmap cl_joined cl_snap cl_cleared cl_notified cl_done].
  intros [A I]. subst at_.
  destruct a, sn as [[|] |], im, jo, cl, no, dn; cbn in *; intuition congruence.
Qed.

Lemma clinv_run acts : forall c, ClInv c -> ClInv (clrun acts c).
Proof. induction acts as [| a l IH]; intros c I; cbn; [exact I | apply IH, clinv_step, I]. Qed.

(* repaired code, every interleaving: once the subscriber has inserted o and the closer has finished, o has been handed the terminal
   XOR it is still registered (and so receives whatever is pushed afterwards) *)
Theorem close_never_loses_a_subscriber acts :
  let c := clrun acts (clinit true) in
  cl_joined c = true -> cl_done c = true ->
  (cl_notified c = true /\ cl_inmap c = false) \/ (cl_notified c = false /\ cl_inmap c = true).
Proof.
  intros c J D. pose proof (clinv_run acts _ clinv_init) as [_ I]. fold c in I.
  destruct (cl_snap c) as [b |] eqn:S.
  - destruct I as (C & I1 & I2 & I3 & I4). destruct b.
    + left. destruct (I1 eq_refl) as [_ M]. split; [apply I3; exact D | exact M].
    + right. split; [apply I3; exact D | rewrite (I2 eq_refl); exact J].
  - destruct I as (_ & _ & X & _). congruence.
Qed.

(* ... and an item pushed once both are done reaches it exactly when it was not handed the terminal: it gets the terminal or the item *)
Theorem close_then_push_terminal_xor_item acts :
  let c := clrun acts (clinit true) in
  cl_joined c = true -> cl_done c = true ->
  let c' := clstep c ClPush in
  (cl_notified c' = true /\ cl_got c' = cl_got c) \/ (cl_notified c' = false /\ cl_got c' = true).
Proof.
  intros c J D c'. destruct (close_never_loses_a_subscriber acts J D) as [[N M] | [N M]]; fold c in N, M.
  - left. unfold c'. cbn [clstep cl_notified cl_got]. rewrite N, M. cbn. split; [reflexivity | apply orb_false_r].
  - right. unfold c'. cbn [clstep cl_notified cl_got]. rewrite N, M. cbn. split; [reflexivity | apply orb_true_r].
Qed.

(* pinned code (snapshot and clear in two sections): the subscriber that registers in between is in neither *)
Lemma two_section_close_loses_a_subscriber :
  let c := clrun [ClSnap; ClJoin; ClClear; ClNotify; ClPush] (clinit false) in
  cl_joined c = true /\ cl_done c = true /\ cl_notified c = false /\ cl_inmap c = false /\ cl_got c = false.
Proof. vm_compute. repeat split. Qed.
