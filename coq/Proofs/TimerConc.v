(* C15 / C16: the interval / timer loop follows the clock and its thread exits within one period of the end. *)
From Coq Require Import List Bool Arith Lia.
From RX Require Import ConcQueue ConcTimer.
From RXP Require Import QueueInv.
Import ListNotations.

Ltac ic := cbn [i_d i_once i_open i_pc i_n i_clock i_closed_at i_log i_q upd].

Definition running_loop (c : icfg) : Prop := q_worker (i_q c) = WRunning 0.

Record IInv (c : icfg) : Prop := {
  iv_run : match i_pc c with
           | ISleeping | IWoken | IEmitting | IAborting => running_loop c /\ q_abort (i_q c) = false
           | IReturning => running_loop c /\ q_abort (i_q c) = true
           | IFinished => (q_worker (i_q c) = WIdle \/ q_worker (i_q c) = WExited) /\ q_abort (i_q c) = true
           end;
  iv_clock : match i_pc c with
             | ISleeping => i_clock c = i_n c * i_d c
             | IWoken | IEmitting => i_clock c = S (i_n c) * i_d c
             | _ => True
             end;
  iv_open : i_open c = true -> length (i_log c) = i_n c /\ i_closed_at c = None;
  iv_log : map fst (i_log c) = seq 0 (length (i_log c)) /\ forall k t, In (k, t) (i_log c) -> t = S k * i_d c;
  iv_closed : forall t, i_closed_at c = Some t -> i_open c = false /\ t <= i_clock c }.

Lemma iinit_inv d once : IInv (iinit d once).
Proof.
  constructor; unfold iinit, running_loop; ic; cbn; auto; try discriminate.
  - split; [reflexivity | intros k t []].
Qed.

Ltac keep c I := first [exact (iv_open c I) | exact (iv_log c I) | exact (iv_closed c I)].

Lemma istep_inv c a : IInv c -> IInv (istep c a).
Proof.
  intros I. pose proof (iv_run c I) as R. pose proof (iv_clock c I) as K.
  destruct a; unfold istep; destruct (i_pc c) eqn:PC; try exact I; cbv beta iota in K, R.
  - (* wake *) constructor; ic; try keep c I; auto.
    + lia.
    + intros t H. destruct (iv_closed c I t H). split; auto. lia.
  - (* check *) constructor; ic; try keep c I; auto.
    + destruct (i_once c); [exact R|]. destruct (i_open c); exact R.
    + destruct (i_once c); [exact K|]. destruct (i_open c); auto.
  - (* emit *)
    destruct (iv_log c I) as [L1 L2].
    constructor; ic.
    + destruct (i_once c); exact R.
    + destruct (i_once c); [auto | lia].
    + destruct (i_once c); [discriminate|]. intro O. rewrite O. destruct (iv_open c I O) as [A B]. split; [|exact B].
      rewrite app_length. cbn [length]. lia.
    + destruct (i_open c) eqn:O; [|split; auto]. destruct (iv_open c I O) as [A B]. split.
      * rewrite map_app, app_length, L1. cbn [map fst length]. rewrite Nat.add_1_r, seq_S, A. reflexivity.
      * intros k t H. apply in_app_iff in H. destruct H as [H|[H|[]]]; [now apply L2|]. injection H as <- <-. exact K.
    + intros t H. destruct (i_once c).
      * split; [reflexivity|]. destruct (i_closed_at c) as [t'|] eqn:CA; injection H as <-; [now destruct (iv_closed c I t' CA) | lia].
      * now apply (iv_closed c I).
  - (* abort *) constructor; ic; try keep c I; auto. unfold running_loop in *. cbn [qstep q_worker q_abort]. destruct R as [R _]. rewrite R. cbn. auto.
  - (* return *) constructor; ic; try keep c I; auto. unfold running_loop in *. destruct R as [R A]. cbn [qstep]. rewrite R. cbn. auto.
  - (* worker *) constructor; ic; try keep c I; auto. destruct R as [[R|R] A]; cbn [qstep]; rewrite R; [rewrite A|]; cbn; auto.
  - (* close, all six positions *) destruct (i_open c) eqn:O; [|exact I]. constructor; ic; rewrite ?PC; auto; try discriminate; try keep c I.
    intros t H. injection H as <-. auto.
  - destruct (i_open c) eqn:O; [|exact I]. constructor; ic; rewrite ?PC; auto; try discriminate; try keep c I. intros t H. injection H as <-. auto.
  - destruct (i_open c) eqn:O; [|exact I]. constructor; ic; rewrite ?PC; auto; try discriminate; try keep c I. intros t H. injection H as <-. auto.
  - destruct (i_open c) eqn:O; [|exact I]. constructor; ic; rewrite ?PC; auto; try discriminate; try keep c I. intros t H. injection H as <-. auto.
  - destruct (i_open c) eqn:O; [|exact I]. constructor; ic; rewrite ?PC; auto; try discriminate; try keep c I. intros t H. injection H as <-. auto.
  - destruct (i_open c) eqn:O; [|exact I]. constructor; ic; rewrite ?PC; auto; try discriminate; try keep c I. intros t H. injection H as <-. auto.
Qed.

Lemma irun_inv acts : forall c, IInv c -> IInv (irun acts c).
Proof. induction acts as [|a acts IH]; intros c I; cbn [irun fold_left]; auto. apply IH. now apply istep_inv. Qed.

Lemma istep_const c a : i_d (istep c a) = i_d c /\ i_once (istep c a) = i_once c.
Proof. destruct a; unfold istep; destruct (i_pc c); auto; destruct (i_open c); auto. Qed.
Lemma irun_const acts : forall c, i_d (irun acts c) = i_d c /\ i_once (irun acts c) = i_once c.
Proof.
  induction acts as [|a acts IH]; intro c; cbn [irun fold_left]; auto. fold (irun acts (istep c a)).
  destruct (IH (istep c a)) as [A B]. destruct (istep_const c a) as [A' B']. split; congruence.
Qed.

Definition OnceInv (c : icfg) : Prop := i_once c = true -> (i_open c = true -> i_log c = []) /\ length (i_log c) <= 1.
Lemma once_step c a : OnceInv c -> OnceInv (istep c a).
Proof.
  intros H O. rewrite (proj2 (istep_const c a)) in O. specialize (H O). destruct H as [H1 H2].
  destruct a; unfold istep; destruct (i_pc c); ic; auto.
  - rewrite O. split; [intro X; discriminate X|]. destruct (i_open c); [rewrite H1 by reflexivity; cbn; lia | exact H2].
  - destruct (i_open c) eqn:OP; ic; auto. split; [intro X; congruence | exact H2].
  - destruct (i_open c) eqn:OP; ic; auto. split; [intro X; congruence | exact H2].
  - destruct (i_open c) eqn:OP; ic; auto. split; [intro X; congruence | exact H2].
  - destruct (i_open c) eqn:OP; ic; auto. split; [intro X; congruence | exact H2].
  - destruct (i_open c) eqn:OP; ic; auto. split; [intro X; congruence | exact H2].
  - destruct (i_open c) eqn:OP; ic; auto. split; [intro X; congruence | exact H2].
Qed.
Lemma once_run acts : forall c, OnceInv c -> OnceInv (irun acts c).
Proof. induction acts as [|a acts IH]; intros c I; cbn [irun fold_left]; auto. apply IH. now apply once_step. Qed.

(* C16: interval(d) delivers 0,1,2,... and tick k arrives at clock (k+1)*d; timer(d) delivers once at d *)
Theorem ticks_follow_clock d once acts :
  let c := irun acts (iinit d once) in
  map fst (i_log c) = seq 0 (length (i_log c)) /\ (forall k t, In (k, t) (i_log c) -> t = S k * d) /\
  (once = true -> length (i_log c) <= 1).
Proof.
  intro c. assert (I : IInv c) by (apply irun_inv, iinit_inv).
  destruct (irun_const acts (iinit d once)) as [D1 D2]. fold c in D1, D2. cbn in D1, D2.
  destruct (iv_log c I) as [L1 L2]. split; [exact L1|]. split.
  - intros k t H. rewrite <- D1. now apply L2.
  - intro O. assert (OI : OnceInv c) by (apply once_run; intro; split; [reflexivity | cbn; lia]).
    apply OI. now rewrite D2.
Qed.

(* C15: once the subscription has ended the thread exits within six of its own steps, at most one of them a sleep:
   the worker is gone at most one period after the end *)
Lemma exit_seq q t : q_worker q = WRunning t ->
  q_worker (qstep (qstep (qstep q QStop) QDone) QCheck) = WExited.
Proof. intro W. cbn [qstep q_worker q_abort notified]. rewrite W. reflexivity. Qed.
Lemma exit_seq2 q t : q_worker q = WRunning t -> q_abort q = true -> q_worker (qstep (qstep q QDone) QCheck) = WExited.
Proof. intros W A. cbn [qstep q_worker q_abort]. rewrite W. cbn [q_worker q_abort]. rewrite A. reflexivity. Qed.
Lemma exited_stays q : q_worker q = WExited -> q_worker (qstep q QCheck) = WExited.
Proof. intro W. cbn [qstep]. now rewrite W. Qed.
Lemma idle_exits q : q_worker q = WIdle -> q_abort q = true -> q_worker (qstep q QCheck) = WExited.
Proof. intros W A. cbn [qstep]. now rewrite W, A. Qed.

Ltac fin q R A :=
  first [ now apply (exit_seq q 0) | now apply (exit_seq2 q 0) | now apply idle_exits | exact R | (apply exited_stays; fin q R A) ].

Theorem loop_thread_exits d once acts :
  let c := irun acts (iinit d once) in
  i_open c = false ->
  q_worker (i_q (run_own 6 c)) = WExited /\ i_clock (run_own 6 c) <= i_clock c + d.
Proof.
  intro c0. assert (I : IInv c0) by (apply irun_inv, iinit_inv).
  destruct (irun_const acts (iinit d once)) as [D1 _]. fold c0 in D1. cbn in D1. rewrite <- D1.
  pose proof (iv_run c0 I) as R. unfold running_loop in R. clearbody c0. clear I D1.
  destruct c0 as [d0 once0 open0 pc0 n0 clock0 ca0 log0 q]. cbn [i_open i_pc i_q i_clock i_d] in *. intro O. subst open0.
  destruct pc0; destruct once0; destruct R as [R A]; cbn [run_own own istep upd i_d i_once i_open i_pc i_n i_clock i_closed_at i_log i_q];
    (split; [| lia]).
  all: try (destruct R as [R|R]); fin q R A.
Qed.
