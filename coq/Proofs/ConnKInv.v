(* C13: the connectable automaton (Model/ConnK.v) never holds more than one source subscription
   (ref_count, replay), holds one exactly while it has subscribers (ref_count), and publish holds
   exactly one per live connection - for EVERY call history. *)
From Coq Require Import List ZArith Bool Arith Lia.
From RX Require Import Val Syntax Step ConnK.
Import ListNotations.

Definition ck_final (kind : ckind) (script : list action) : ck := fold_left (ck_step kind) script ck0.

(* the part of the state the deliveries never touch *)
Definition same_conn (a b : ck) : Prop :=
  c_reg a = c_reg b /\ c_slotc a = c_slotc b /\ c_slot_live a = c_slot_live b /\ c_conns a = c_conns b /\ c_nsrc a = c_nsrc b.
Lemma sc_refl a : same_conn a a. Proof. repeat split. Qed.
Lemma sc_trans a b c : same_conn a b -> same_conn b c -> same_conn a c.
Proof. intros (A1 & A2 & A3 & A4 & A5) (B1 & B2 & B3 & B4 & B5). repeat split; congruence. Qed.
Lemma sc_deliver s k e : same_conn (ck_deliver s k e) s.
Proof. unfold ck_deliver. destruct (c_alive s k); repeat split. Qed.
Lemma sc_fold_deliver e l : forall s, same_conn (fold_left (fun acc k => ck_deliver acc k e) l s) s.
Proof. induction l as [|k l IH]; intro s; cbn; [apply sc_refl |]. eapply sc_trans; [apply IH | apply sc_deliver]. Qed.
Lemma sc_fold_items k l : forall s, same_conn (fold_left (fun acc v => ck_deliver acc k (Nx v)) l s) s.
Proof. induction l as [|v l IH]; intro s; cbn; [apply sc_refl |]. eapply sc_trans; [apply IH | apply sc_deliver]. Qed.

Lemma broadcast_conn s e :
  let s' := ck_broadcast s e in
  c_reg s' = (if is_term e then [] else c_reg s) /\ c_slotc s' = c_slotc s /\ c_slot_live s' = c_slot_live s /\
  c_conns s' = c_conns s /\ c_nsrc s' = c_nsrc s.
Proof.
  cbn zeta. unfold ck_broadcast.
  destruct (sc_fold_deliver e (c_reg s) (if is_term e then ck_set s [] (c_slotc s) (c_slot_live s) (c_nsrc s) else s)) as (A & B & C & D & E).
  destruct (is_term e); cbn in *; repeat split; congruence.
Qed.

Lemma feed_conn kind s e :
  let s' := ck_feed kind s e in
  c_reg s' = (if is_term e then [] else c_reg s) /\ c_slotc s' = c_slotc s /\ c_slot_live s' = c_slot_live s /\
  c_conns s' = c_conns s /\ c_nsrc s' = c_nsrc s.
Proof.
  cbn zeta. unfold ck_feed.
  match goal with |- context [ck_broadcast ?s1 e] => destruct (broadcast_conn s1 e) as (A & B & C & D & E) end.
  destruct kind; destruct e; cbn in *; repeat split; congruence.
Qed.

Lemma feeds_conn_from kind e n : forall a s,
  let s' := fold_left (fun acc (_ : nat) => ck_feed kind acc e) (seq a n) s in
  c_reg s' = (if is_term e && negb (Nat.eqb n 0) then [] else c_reg s) /\ c_slotc s' = c_slotc s /\ c_slot_live s' = c_slot_live s /\
  c_conns s' = c_conns s /\ c_nsrc s' = c_nsrc s.
Proof.
  induction n as [|n IH]; intros a s; cbn [seq fold_left].
  - cbn. rewrite andb_false_r. repeat split.
  - destruct (IH (S a) (ck_feed kind s e)) as (A & B & C & D & E). destruct (feed_conn kind s e) as (A' & B' & C' & D' & E').
    cbn zeta in *. rewrite A, B, C, D, E, A', B', C', D', E'. cbn. repeat split.
    destruct (is_term e); cbn; auto. destruct (Nat.eqb n 0); reflexivity.
Qed.
Lemma feeds_conn kind e n s :
  let s' := fold_left (fun acc (_ : nat) => ck_feed kind acc e) (seq 0 n) s in
  c_reg s' = (if is_term e && negb (Nat.eqb n 0) then [] else c_reg s) /\ c_slotc s' = c_slotc s /\ c_slot_live s' = c_slot_live s /\
  c_conns s' = c_conns s /\ c_nsrc s' = c_nsrc s.
Proof. apply feeds_conn_from. Qed.

(* ---------------------------------------------------------------- invariants per kind *)
Definition RCInv (s : ck) : Prop :=
  c_slot_live s = c_slotc s /\ c_slotc s = negb (Nat.eqb (length (c_reg s)) 0) /\ c_nsrc s = (if c_slotc s then 1 else 0) /\ c_conns s = [].
Definition RPInv (s : ck) : Prop :=
  c_nsrc s = (if c_slot_live s then 1 else 0) /\ (c_slot_live s = true -> c_slotc s = true) /\ c_conns s = [].
Definition PBInv (s : ck) : Prop := c_nsrc s = length (c_conns s) /\ c_slotc s = false.

Lemma remove_one_len x l : existsb (Nat.eqb x) l = true -> length (remove_one x l) = length l - 1.
Proof.
  induction l as [|y r IH]; cbn; [discriminate |]. rewrite (Nat.eqb_sym x y).
  destruct (Nat.eqb y x); cbn; [lia |]. intro H. rewrite IH by exact H.
  destruct r; cbn in *; [discriminate | lia].
Qed.

Lemma filter_len_le {A} (f : A -> bool) l : length (filter f l) <= length l.
Proof. induction l as [|x l IH]; cbn; auto. destruct (f x); cbn; lia. Qed.

Lemma rc_step s a : RCInv s -> RCInv (ck_step CRefCount s a).
Proof.
  intros (L & S & N & C). destruct a as [k p rs | k | h e | k x | x | sm em]; cbn [ck_step]; auto.
  - destruct (c_usedh s k); [repeat split; auto |]. cbn.
    rewrite app_length. cbn [length].
    destruct (Nat.eqb (length (c_reg s) + 1) 1 && negb (c_slotc s)) eqn:G; unfold RCInv; cbn; rewrite app_length; cbn [length].
    + apply andb_prop in G. destruct G as [G1 G2]. destruct (c_slotc s) eqn:SC; [discriminate |].
      repeat split; auto; try (rewrite N; reflexivity).
      replace (length (c_reg s) + 1 =? 0) with false by (symmetry; apply Nat.eqb_neq; lia). reflexivity.
    + repeat split; auto.
      * rewrite S. replace (length (c_reg s) + 1 =? 0) with false by (symmetry; apply Nat.eqb_neq; lia). cbn.
        destruct (Nat.eqb (length (c_reg s)) 0) eqn:Z; auto. exfalso. apply Nat.eqb_eq in Z. rewrite S in G. rewrite Z in G. cbn in G. discriminate.
  - destruct (c_unsub s k); [| repeat split; auto]. cbn.
    set (reg' := filter (fun x => negb (Nat.eqb x k)) (c_reg s)).
    destruct (Nat.eqb (length reg') 0 && c_slotc s && true) eqn:G; unfold RCInv; cbn.
    + apply andb_prop in G. destruct G as [G _]. apply andb_prop in G. destruct G as [G1 G2]. rewrite G1. repeat split; auto.
      rewrite L, G2, N, G2. reflexivity.
    + repeat split; auto.
      destruct (Nat.eqb (length reg') 0) eqn:Z; cbn in G.
      * rewrite andb_true_r in G. rewrite G. reflexivity.
      * rewrite S. cbn. destruct (Nat.eqb (length (c_reg s)) 0) eqn:Y; auto.
        apply Nat.eqb_eq in Y. apply Nat.eqb_neq in Z. exfalso. apply Z. subst reg'. pose proof (filter_len_le (fun x => negb (Nat.eqb x k)) (c_reg s)). lia.
  - (* source event *)
    match goal with |- RCInv (fold_left _ (seq 0 ?n) ?s1) => destruct (feeds_conn CRefCount e n s1) as (A & B & C' & D & E) end.
    cbn zeta in *. unfold RCInv. rewrite A, B, C', D, E. clear A B C' D E.
    destruct (is_term e) eqn:T; cbn.
    + rewrite N. destruct (c_slotc s) eqn:SC; cbn; repeat split; auto;
        try (symmetry in S; apply negb_false_iff in S; apply Nat.eqb_eq in S; destruct (c_reg s); [reflexivity | discriminate]).
    + repeat split; auto.
  - repeat split; auto.
  - repeat split; auto.
  - repeat split; auto.
Qed.

Lemma rp_sub_tail s1 k : RPInv s1 ->
  RPInv (let s2 := fold_left (fun acc v => ck_deliver acc k (Nx v)) (c_items s1) s1 in
         match c_term s2 with
         | Some t =>
             let s3 := ck_deliver s2 k t in
             let reg' := filter (fun x => negb (Nat.eqb x k)) (c_reg s3) in
             if Nat.eqb (length reg') 0 && c_slotc s3 && c_slot_live s3 then ck_set s3 reg' false false (c_nsrc s3 - 1)
             else ck_set s3 reg' (c_slotc s3) (c_slot_live s3) (c_nsrc s3)
         | None => s2
         end).
Proof.
  intro I1. cbn zeta.
  set (s2 := fold_left (fun acc v => ck_deliver acc k (Nx v)) (c_items s1) s1).
  assert (E2 : same_conn s2 s1) by apply sc_fold_items.
  assert (I2 : RPInv s2).
  { destruct E2 as (A1 & A2 & A3 & A4 & A5). destruct I1 as (N1 & J1 & C1). unfold RPInv. rewrite A2, A3, A4, A5. auto. }
  destruct (c_term s2) as [t|]; [| exact I2].
  set (s3 := ck_deliver s2 k t).
  assert (E3 : same_conn s3 s2) by apply sc_deliver.
  destruct E3 as (A1 & A2 & A3 & A4 & A5). destruct I2 as (N2 & J2 & C2).
  destruct (Nat.eqb (length (filter (fun x => negb (Nat.eqb x k)) (c_reg s3))) 0 && c_slotc s3 && c_slot_live s3) eqn:G; unfold RPInv; cbn.
  - apply andb_prop in G. destruct G as [_ G]. rewrite A3 in G. rewrite A5, N2, G. cbn. repeat split; auto; try discriminate. congruence.
  - rewrite A2, A3, A4, A5. auto.
Qed.

Lemma rp_step s a : RPInv s -> RPInv (ck_step CReplay s a).
Proof.
  intros (N & I & C). destruct a as [k p rs | k | h e | k x | x | sm em]; cbn [ck_step]; auto.
  - destruct (c_usedh s k); [repeat split; auto |].
    apply rp_sub_tail.
    cbn [c_reg c_usedh c_alive c_unsub c_slotc c_slot_live c_conns c_used_conn c_nsrc c_items c_term c_clogs].
    match goal with |- RPInv (if ?c then _ else _) => destruct c eqn:G end; unfold RPInv; cbn; auto.
    repeat split; auto. apply andb_prop in G. destruct G as [_ G]. destruct (c_slot_live s) eqn:SL; auto. rewrite (I eq_refl) in G. discriminate.
  - destruct (c_unsub s k); [| repeat split; auto]. cbn.
    set (reg' := filter (fun x => negb (Nat.eqb x k)) (c_reg s)).
    destruct (Nat.eqb (length reg') 0 && c_slotc s && c_slot_live s) eqn:G; unfold RPInv; cbn; auto.
    apply andb_prop in G. destruct G as [_ G]. rewrite G, N, G. cbn. repeat split; auto; discriminate.
  - match goal with |- RPInv (fold_left _ (seq 0 ?n) ?s1) => destruct (feeds_conn CReplay e n s1) as (A & B & C' & D & E) end.
    cbn zeta in *. unfold RPInv. rewrite B, C', D, E. clear A B C' D E.
    destruct (is_term e) eqn:T; cbn; auto. repeat split; auto; discriminate.
  - repeat split; auto.
  - repeat split; auto.
  - repeat split; auto.
Qed.

Lemma pb_step s a : PBInv s -> PBInv (ck_step CPublish s a).
Proof.
  intros (N & S). destruct a as [k p rs | k | h e | k x | x | sm em]; cbn [ck_step]; auto.
  - destruct (c_usedh s k); repeat split; auto.
  - destruct (c_unsub s k); repeat split; auto.
  - match goal with |- PBInv (fold_left _ (seq 0 ?n) ?s1) => destruct (feeds_conn CPublish e n s1) as (A & B & C' & D & E) end.
    cbn zeta in *. unfold PBInv. rewrite B, D, E. clear A B C' D E.
    destruct (is_term e); cbn; auto.
  - unfold PBInv. cbn. rewrite app_length. cbn. split; [lia | auto].
  - destruct (c_used_conn s x); [split; auto |].
    destruct (existsb (Nat.eqb x) (c_conns s)) eqn:X; [| split; auto].
    unfold PBInv. cbn. rewrite remove_one_len by exact X. split; [lia | auto].
  - split; auto.
Qed.

(* ---------------------------------------------------------------- the theorems, for every history *)
Lemma run_inv (P : ck -> Prop) kind : P ck0 -> (forall s a, P s -> P (ck_step kind s a)) -> forall script, P (ck_final kind script).
Proof.
  intros P0 PS script. unfold ck_final. generalize ck0 P0. induction script as [|a r IH]; intros s Hs; cbn; auto.
Qed.

Theorem refcount_one_source script :
  let s := ck_final CRefCount script in
  c_nsrc s <= 1 /\ (c_nsrc s = 1 <-> c_reg s <> []).
Proof.
  cbn zeta. assert (I : RCInv (ck_final CRefCount script)).
  { apply run_inv; [repeat split | apply rc_step]. }
  destruct I as (L & S & N & C). rewrite N, S. destruct (c_reg (ck_final CRefCount script)); cbn; split; try lia; split; intro; try lia; try congruence; discriminate.
Qed.

Theorem replay_one_source script : c_nsrc (ck_final CReplay script) <= 1.
Proof.
  assert (I : RPInv (ck_final CReplay script)).
  { apply run_inv; [repeat split; discriminate | apply rp_step]. }
  destruct I as (N & _). rewrite N. destruct (c_slot_live _); lia.
Qed.

Theorem publish_sources_are_connections script :
  c_nsrc (ck_final CPublish script) = length (c_conns (ck_final CPublish script)).
Proof.
  assert (I : PBInv (ck_final CPublish script)).
  { apply run_inv; [split; reflexivity | apply pb_step]. }
  apply I.
Qed.

(* publish subscribes its source only when connect is called *)
Theorem publish_nothing_before_connect script :
  (forall a, In a script -> match a with DConnect _ _ => False | _ => True end) ->
  c_nsrc (ck_final CPublish script) = 0.
Proof.
  intro NC. rewrite publish_sources_are_connections.
  assert (G : forall script s, (forall a, In a script -> match a with DConnect _ _ => False | _ => True end) -> c_conns s = [] ->
              c_conns (fold_left (ck_step CPublish) script s) = []).
  { clear. induction script as [|a r IH]; intros s NC E; cbn; auto.
    apply IH; [intros b Hb; apply NC; now right |].
    pose proof (NC a (or_introl eq_refl)) as Na.
    destruct a as [k p rs | k | h e | k x | x | sm em]; cbn [ck_step]; auto; try contradiction.
    - destruct (c_usedh s k); auto.
    - destruct (c_unsub s k); auto.
    - match goal with |- c_conns (fold_left _ (seq 0 ?n) ?s1) = _ => destruct (feeds_conn CPublish e n s1) as (A & B & C' & D & E') end.
      cbn zeta in *. rewrite D. destruct (is_term e); auto.
    - destruct (c_used_conn s x); auto. rewrite E. cbn. exact E. }
  unfold ck_final. rewrite G; auto.
Qed.
