(* C05, the other direction: an observer that is subscribed stays subscribed until a request that is
   either Observer::unsubscribe on it or the delivery of a terminal to it - no other step of the machine,
   for any pipeline, touches the callback slots of an existing observer. *)
From Coq Require Import List ZArith Bool Arith Lia.
From RX Require Import Val Syntax World Step Oracle.
From RXP Require Import Contract Moves Frozen.
Import ListNotations.

Definition closer (r : req) : option oid :=
  match r with
  | Unsub o => Some o
  | Deliver o (Er _) => Some o
  | Deliver o Co => Some o
  | _ => None
  end.

(* w' has every observer of w, with the same is_subscribed - except possibly the one named by co *)
Definition K (co : option oid) (w w' : world) : Prop :=
  n_obs w <= n_obs w' /\
  forall o, o < n_obs w ->
    (co <> Some o -> is_sub (obs w' o) = is_sub (obs w o)) /\
    (forall u, o_tgt (obs w o) = TUser u -> o_tgt (obs w' o) = TUser u).

Lemma K_refl co w : K co w w.
Proof. split; auto. Qed.
Lemma K_trans co a b c : K co a b -> K co b c -> K co a c.
Proof.
  intros [A1 A2] [B1 B2]. split; [lia |]. intros o Ho.
  destruct (A2 o Ho) as [A3 A4]. destruct (B2 o ltac:(lia)) as [B3 B4]. split.
  - intro N. rewrite B3 by auto. now apply A3.
  - intros u T. apply B4. now apply A4.
Qed.
Lemma K_weaken co w w' : K None w w' -> K co w w'.
Proof. intros [A B]. split; auto. intros o Ho. destruct (B o Ho) as [B1 B2]. split; auto. intros _. apply B1. discriminate. Qed.
Lemma K_same co w w' : n_obs w' = n_obs w -> obs w' = obs w -> K co w w'.
Proof. intros A B. split; [lia |]. intros o _. rewrite B. auto. Qed.
Lemma K_set_obs co w o ob :
  is_sub ob = is_sub (obs w o) -> (forall u, o_tgt (obs w o) = TUser u -> o_tgt ob = TUser u) -> K co w (set_obs w o ob).
Proof.
  intros E T. split; [cbn; lia |]. intros o' _. cbn. unfold upd. destruct (Nat.eqb o' o) eqn:Q; auto.
  apply Nat.eqb_eq in Q. subst. auto.
Qed.
Lemma K_settd co w o t : K co w (set_obs w o (set_td (obs w o) t)).
Proof. apply K_set_obs; auto. Qed.
Lemma K_close w o : K (Some o) w (set_obs w o (set_slots (obs w o) false false false)).
Proof.
  split; [cbn; lia |]. intros o' _. cbn. unfold upd. destruct (Nat.eqb o' o) eqn:Q; auto.
  apply Nat.eqb_eq in Q. subst. split; auto. intro N. exfalso. apply N. reflexivity.
Qed.
Lemma K_alloc co w t : K co w (snd (alloc_obs w t)).
Proof.
  unfold alloc_obs, K. cbn [snd]. split; [cbn; lia |]. intros o Ho. cbn. unfold upd.
  destruct (Nat.eqb o (n_obs w)) eqn:Q; auto. apply Nat.eqb_eq in Q. lia.
Qed.
Lemma K_then co a b c : K co a b -> K co b c -> K co a c.
Proof. apply K_trans. Qed.

Lemma K_fold_alloc co n ups : forall es w,
  K co w (snd (fold_left (fun (acc : list (nat * oid) * world) (pp : nat * pipe) =>
                           let '(es, wa) := acc in
                           let ser := length es in
                           let '(o', wb) := alloc_obs wa (THandler n (fst pp) ser) in
                           (es ++ [(ser, o')], wb)) ups (es, w))).
Proof.
  induction ups as [|pp ups IH]; intros es w; cbn [fold_left].
  - apply K_refl.
  - unfold alloc_obs at 1. cbn [fst snd].
    eapply K_trans; [apply (K_alloc co w (THandler n (fst pp) (length es))) | apply IH].
Qed.

Ltac ksame := apply K_same; reflexivity.

Theorem step_K r w : K (closer r) w (snd (step r w)).
Proof.
  destruct r as [o e | o | o | o | n a | c | c | c ser | s att o script idx | o l | o a n | o v | o l src | p o | h e | h e | h o | h o | o x | h len | h len | k | k | h o | h o' | o x | o d | s | x | l m | l m | k i | k p rs | | a]; cbn [step closer].
  - (* Deliver *)
    assert (K1 : K (closer (Deliver o e)) w (match e with Nx _ => w | _ => if o_e (obs w o) then set_obs w o (set_slots (obs w o) false false false) else w end)).
    { destruct e; cbn [closer]; [apply K_refl | |]; (destruct (o_e (obs w o)); [apply K_close | apply K_refl]). }
    cbn [closer] in K1.
    set (w1 := match e with Nx _ => w | _ => if o_e (obs w o) then set_obs w o (set_slots (obs w o) false false false) else w end) in *.
    set (co := match e with Nx _ => None | _ => Some o end).
    assert (K1' : K co w w1) by (subst co; destruct e; exact K1).
    assert (G : K co w (snd (if match e with Nx _ => o_n (obs w o) | Er _ => o_e (obs w o) | Co => o_e (obs w o) && o_c (obs w o) end
                              then
        match o_tgt (obs w o) with
        | TUser u =>
            let w2 := add_log w1 u e in
            let '(creqs, w3) :=
              match e with
              | Nx (VObs h) =>
                  let j := n_child w2 in
                  let '(o', w') := alloc_obs (w_n_child (S j) w2) (TUser (uenc (UChild j))) in
                  ([SubscribePipe (PHot h) o'], w')
              | _ => ([], w2)
              end in
            match udec u with
            | UTop k => let i := ncalls w3 k in
                        (creqs ++ [React k i], w_ncalls (upd (ncalls w3) k (S i)) w3)
            | UChild _ => (creqs, w3)
            end
        | THandler n port ser =>
            let nd := nodes w1 n in
            let '(st', acts) := handler (n_op nd) (n_src nd) (n_others nd) (n_st nd) port ser (n_subjs w1) e in
            (map (Act n) acts, set_nst w1 n st')
        | TForward o' => ([Deliver o' e], w1)
        | TGated _ => ([], w1)
        | TFeed h => ([SubjCall h e], w1)
        | TFeedK k =>
            let cn := conns w1 k in
            ([SubjCall (k_subj cn) e],
             match e, k_kind cn with
             | Nx _, _ => w1
             | _, CReplay => w1
             | _, _ => w_conns (upd (conns w1) k {| k_kind := k_kind cn; k_src := k_src cn; k_subj := k_subj cn; k_slot := None |}) w1
             end)
        | TTapLog t => ([], w_taplog (taplog w1 ++ [(t, e)]) w1)
        | TJunk => ([], w1)
        end
      else ([], w1)))).
    { destruct (match e with Nx _ => o_n (obs w o) | Er _ => o_e (obs w o) | Co => o_e (obs w o) && o_c (obs w o) end); [| exact K1'].
      destruct (o_tgt (obs w o)) as [u | n port ser | o' | o' | h | k | t |]; cbn [snd]; try exact K1'.
      - assert (K2 : K co w (add_log w1 u e)) by (eapply K_trans; [exact K1' | ksame]).
        assert (G : forall creqs w3, K co w w3 ->
                  K co w (snd (match udec u with
                                 | UTop k => (creqs ++ [React k (ncalls w3 k)], w_ncalls (upd (ncalls w3) k (S (ncalls w3 k))) w3)
                                 | UChild _ => (creqs, w3)
                                 end))).
        { intros creqs w3 K3. destruct (udec u); cbn [snd]; [eapply K_trans; [exact K3 | ksame] | exact K3]. }
        destruct e as [v | x |]; try (apply G; exact K2).
        destruct v; try (apply G; exact K2).
        unfold alloc_obs. cbn [snd fst]. apply G.
        eapply K_trans; [exact K2 |].
        eapply K_trans; [| apply (K_alloc co (w_n_child (S (n_child (add_log w1 u (Nx (VObs s))))) (add_log w1 u (Nx (VObs s)))) (TUser (uenc (UChild (n_child (add_log w1 u (Nx (VObs s))))))))].
        ksame.
      - destruct (handler _ _ _ _ _ _ _ _) as [st' acts]. cbn [snd]. eapply K_trans; [exact K1' | ksame].
      - destruct e; cbn [snd]; try exact K1'; destruct (k_kind (conns w1 k)); try exact K1'; (eapply K_trans; [exact K1' | ksame]). }
    subst co. destruct e; exact G.
  - (* Unsub *) cbn [snd]. apply K_close.
  - (* RunTd *)
    destruct (o_td (obs w o)) as [[c | h ser | x] |]; cbn [snd]; try apply K_refl. ksame.
  - (* ClearTd *) cbn [snd]. apply K_settd.
  - (* Act *)
    destruct a; cbn [snd];
      repeat match goal with
             | |- K _ _ (snd (if ?b then _ else _)) => destruct b
             | |- K _ _ (snd (match ?l with [] => _ | _ :: _ => _ end)) => destruct l
             end; cbn [snd]; try apply K_refl; try (ksame; fail).
    + (* ASubscribe *)
      unfold alloc_obs. cbn [snd].
      pose proof (K_alloc None w (THandler n port (c_serial (ctls w (n_ctl (nodes w n)))))) as MA.
      unfold alloc_obs in MA; cbn [snd] in MA.
      destruct (is_sub (obs w (c_sub (ctls w (n_ctl (nodes w n)))))); cbn [snd].
      * eapply K_trans; [exact MA | ksame].
      * split; [cbn; lia |]. intros o Ho. cbn. unfold upd.
        destruct (Nat.eqb o (n_obs w)) eqn:Q; [apply Nat.eqb_eq in Q; lia | auto].
    + (* ASubjNew *)
      unfold alloc_subj. cbn [snd]. destruct (n_op (nodes w n)); ksame.
  - (* Fin *) apply K_refl.
  - (* FinSub *) destruct (is_sub _); cbn [snd]; ksame.
  - (* UnsubEntry *) destruct (find_ser _ _); cbn [snd]; [ksame | apply K_refl].
  - (* Src *) destruct script; [| destruct (_ && _)]; cbn [snd]; ksame.
  - (* FromIter *) destruct l; destruct (is_sub _); apply K_refl.
  - (* Range *) destruct n; [| destruct (is_sub _)]; apply K_refl.
  - (* Repeat *) destruct (is_sub _); apply K_refl.
  - (* StartWith *) destruct l; destruct (is_sub _); apply K_refl.
  - (* SubscribePipe *)
    destruct (negb (is_sub (obs w o))); [apply K_refl |].
    destruct p as [s | v | l | a n | | | e | v | q | c | r | h | h | k | s | i | op src others]; cbn [snd]; try apply K_refl; try (ksame; fail).
    + destruct r; apply K_refl.
    + (* PHot *)
      destruct (sj_kind (subjs w h)); cbn [snd]; try apply K_refl.
      * destruct (sj_err (subjs w h)); [apply K_refl |]. destruct (sj_last (subjs w h)); apply K_refl.
      * unfold alloc_cell, alloc_obs; cbn [snd].
        eapply K_trans; [| apply (K_alloc None (w_n_cells (S (n_cells w)) (w_cells (upd (cells w) (n_cells w) None) w)) (TGated o))].
        ksame.
    + (* POp *)
      assert (G : forall l, K None w (snd (@pair (list req) world l w))) by (intro; apply K_refl).
      destruct op; try apply G.
      all: destruct (plan _ src others) as [ups order].
      all: match goal with
           | |- context [fold_left ?F ?U ([], ?w2)] =>
               pose proof (K_fold_alloc None (n_nodes w) U [] w2) as EF;
               destruct (fold_left F U ([], w2)) as [entries w3] eqn:FE
           end.
      all: cbn [snd] in EF.
      all: assert (M3 : K None w w3) by (eapply K_trans; [| exact EF]; eapply K_trans; [| apply K_settd]; ksame).
      all: cbn [snd]; try (eapply K_trans; [exact M3 | ksame]).
      * (* OTap *) unfold alloc_obs; cbn [snd]. eapply K_trans; [exact M3 |].
        eapply K_trans; [| eapply K_trans; [apply (K_alloc None (set_ctl w3 (n_ctls w) {| c_sub := o; c_uns := entries; c_serial := length entries |}) (TTapLog t)) |]].
        -- ksame.
        -- unfold alloc_obs; cbn [snd]. ksame.
  - (* SubjCall *)
    destruct (match sj_kind (subjs w h) with KBehavior | KReplay => conflicts (held w) (LHist h) MW | _ => false end); cbn [snd]; ksame.
  - (* Broadcast *) destruct e; cbn [snd]; try apply K_refl; ksame.
  - (* SubjJoin *) cbn [snd]. eapply K_trans; [apply K_settd | ksame].
  - (* Replay *) apply K_refl.
  - (* SetTdCell *) cbn [snd]. apply K_settd.
  - destruct (sj_hook _); [destruct (Nat.eqb _ _) |]; apply K_refl.
  - destruct (sj_hook _); [destruct (Nat.eqb _ _) |]; apply K_refl.
  - (* Connect *)
    destruct (k_slot (conns w k)); [apply K_refl |]. unfold alloc_obs; cbn [snd].
    apply (K_alloc None w (TFeedK k)).
  - (* SlotUnsub *) destruct (k_slot (conns w k)); cbn [snd]; [| apply K_refl]. destruct (match k_kind (conns w k) with CReplay => _ | _ => false end); cbn [snd]; [apply K_refl | ksame].
  - (* BehaviorJoin *)
    destruct (is_sub (obs w o)); [| apply K_refl].
    unfold alloc_cell, alloc_obs; cbn [snd].
    eapply K_trans; [| apply (K_alloc None (w_n_cells (S (n_cells w)) (w_cells (upd (cells w) (n_cells w) None) w)) (TForward o))].
    ksame.
  - (* ReplayDone *)
    destruct (sj_err (subjs w h)); [apply K_refl |]. destruct (sj_done (subjs w h)); [apply K_refl |]. cbn [snd].
    destruct (o_tgt (obs w o')) eqn:Tg; try apply K_refl.
    apply K_set_obs; [reflexivity | intros u T; rewrite Tg in T; discriminate].
  - (* CellCheck *) destruct (is_sub (obs w o)); apply K_refl.
  - (* MkSub *) cbn [snd]. destruct d; ksame.
  - (* SubUnsub *) destruct (sb_live _); cbn [snd]; [ksame | apply K_refl].
  - (* CellUnsub *) apply K_refl.
  - (* AcqL *) destruct (conflicts _ _ _); cbn [snd]; ksame.
  - (* RelL *) cbn [snd]. ksame.
  - (* React *) apply K_refl.
  - (* DoSub *)
    destruct (handles w k) eqn:HN; [apply K_refl |].
    unfold alloc_obs. cbn [snd]. eapply K_trans; [apply (K_alloc None w (TUser (uenc (UTop k)))) | ksame].
  - (* Snap *) cbn [snd]. ksame.
  - (* Drv *)
    destruct a; cbn [snd]; try ksame.
    unfold alloc_obs; cbn [snd]. eapply K_trans; [| apply (K_alloc None (w_cur (S (cur w)) w) (TFeed (k_subj (conns (w_cur (S (cur w)) w) k))))]. ksame.
Qed.

(* ------------------------------------------------------------------ every run *)
(* the requests a run executes, in order *)
Fixpoint run_reqs (fuel : nat) (stk : list req) (w : world) : list req :=
  match fuel with
  | 0 => []
  | S f => match out w with
           | SelfDeadlock _ => []
           | Running => match stk with
                        | [] => []
                        | r :: rs => let '(new, w') := step r w in r :: run_reqs f (new ++ rs) w'
                        end
           end
  end.

Theorem open_until_closer fuel : forall stk w o,
  o < n_obs w -> is_sub (obs w o) = true -> is_sub (obs (snd (run fuel stk w)) o) = false ->
  exists r, In r (run_reqs fuel stk w) /\ closer r = Some o.
Proof.
  induction fuel as [|f IH]; intros stk w o Ho Op Cl; cbn [run run_reqs] in *.
  - cbn [snd] in Cl. congruence.
  - destruct (out w); [| cbn [snd] in Cl; congruence].
    destruct stk as [|r rs]; [cbn [snd] in Cl; congruence |].
    pose proof (step_K r w) as [N S]. destruct (step r w) as [new w'] eqn:E. cbn [snd] in N, S. destruct (S o Ho) as [S1 _].
    assert (D : {closer r = Some o} + {closer r <> Some o}) by (decide equality; apply Nat.eq_dec).
    destruct D as [Y | NY].
    + exists r. split; [left; reflexivity | exact Y].
    + destruct (IH (new ++ rs) w' o) as [r' [I C]]; [lia | rewrite S1; auto | exact Cl |].
      exists r'. split; [right; exact I | exact C].
Qed.

(* ------------------------------------------------------------------ a user's subscriber *)
Lemma closed_user_frozen w o u : Inv w -> o_tgt (obs w o) = TUser u -> is_sub (obs w o) = false -> Frozen u w.
Proof.
  intros I T C. constructor.
  - intros o2 H2. assert (o2 = o) by (eapply (i_uniq _ I); eauto). now subst.
  - unfold taken. destruct (udec u) eqn:D.
    + apply (i_top _ I o). rewrite T. f_equal. rewrite <- D. symmetry. apply uenc_udec.
    + apply (i_child _ I o). rewrite T. f_equal. rewrite <- D. symmetry. apply uenc_udec.
Qed.

Lemma deliver_term_user w o u e :
  o_tgt (obs w o) = TUser u -> is_sub (obs w o) = true -> is_term e = true ->
  ulog u (log (snd (step (Deliver o e) w))) = ulog u (log w) ++ [e].
Proof.
  intros T S Te. unfold is_sub in S. apply andb_prop in S. destruct S as [S Sc]. apply andb_prop in S. destruct S as [Sn Se].
  cbn [step]. rewrite T, Se, Sc.
  destruct e as [v | x |]; [discriminate | |]; cbn [andb]; (destruct (udec u); cbn [snd log add_log w_log w_ncalls]; rewrite ulog_app, Nat.eqb_refl; reflexivity).
Qed.

Lemma step_inv r w : Inv w -> Inv (snd (step r w)).
Proof. intro I. eapply moves_inv; [exact I | now apply step_moves]. Qed.

(* is_subscribed of a subscriber turns false only through Observer::unsubscribe on its observer or through a
   terminal notification that it has received (it is then the last entry of its log, for ever) *)
Theorem open_until_user fuel : forall stk w o u,
  Inv w -> o < n_obs w -> o_tgt (obs w o) = TUser u ->
  is_sub (obs w o) = true -> is_sub (obs (snd (run fuel stk w)) o) = false ->
  In (Unsub o) (run_reqs fuel stk w) \/ has_term (ulog u (log (snd (run fuel stk w)))) = true.
Proof.
  induction fuel as [|f IH]; intros stk w o u I Ho T Op Cl; cbn [run run_reqs] in *.
  - cbn [snd] in Cl. congruence.
  - destruct (out w); [| cbn [snd] in Cl; congruence].
    destruct stk as [|r rs]; [cbn [snd] in Cl; congruence |].
    pose proof (step_K r w) as [N S]. pose proof (step_inv r w I) as I'.
    pose proof (deliver_term_user w o u) as DT.
    destruct (step r w) as [new w'] eqn:E. cbn [snd] in N, S, I'. destruct (S o Ho) as [S1 S2].
    assert (D : {closer r = Some o} + {closer r <> Some o}) by (decide equality; apply Nat.eq_dec).
    destruct D as [Y | NY].
    + destruct r as [o0 e | o0 | | | | | | | | | | | | | | | | | | | | | | | | | | | | | | | | |]; try discriminate.
      * (* a terminal delivered to it *)
        right. assert (o0 = o /\ is_term e = true) as [-> Te] by (destruct e; cbn in Y; try discriminate; injection Y as ->; auto).
        specialize (DT e T Op Te). rewrite E in DT. cbn [snd] in DT.
        destruct (is_sub (obs w' o)) eqn:Q.
        -- (* cannot be: the slots are emptied by that very step *)
           exfalso. revert Q. replace w' with (snd (step (Deliver o e) w)) by (now rewrite E).
           unfold is_sub in Op. apply andb_prop in Op. destruct Op as [Op Sc]. apply andb_prop in Op. destruct Op as [Sn Se].
           cbn [step]. rewrite T, Se, Sc. destruct e; [discriminate | |]; cbn [andb];
             (destruct (udec u); cbn; unfold upd; rewrite Nat.eqb_refl; cbn; discriminate).
        -- destruct (frozen_forever f (new ++ rs) w' u I' (closed_user_frozen w' o u I' (S2 u T) Q)) as [L _].
           rewrite L, DT, has_term_app, Te. apply orb_true_r.
      * left. left. cbn in Y. injection Y as ->. reflexivity.
    + destruct (IH (new ++ rs) w' o u I' ltac:(lia) (S2 u T) ltac:(rewrite S1; auto) Cl) as [A | B]; [left; right; exact A | right; exact B].
Qed.
