(* Every step of the sequential machine is a short sequence of BASIC MOVES:
     - an `ext` move (logs untouched; observers only get closed, re-linked, or new internal ones appear),
     - a user-log move (one callback of a user subscriber passes the gate),
     - the allocation of a recorder for a window/group observable, or of a driver handle's observer.
   Any property that is preserved by each basic move is preserved by every run of every scenario; this is
   how C05 (nothing after unsubscribe) and the monotonicity of closedness are obtained for ALL pipelines. *)
From Coq Require Import List ZArith Bool Arith Lia.
From RX Require Import Val Syntax World Step Oracle.
From RXP Require Import Contract.
Import ListNotations.

Definition fires (ob : observer) (e : ev) : bool :=
  match e with Nx _ => o_n ob | Er _ => o_e ob | Co => o_e ob && o_c ob end.
Definition close_if_term (w : world) (o : oid) (e : ev) : world :=
  match e with
  | Nx _ => w
  | _ => if o_e (obs w o) then set_obs w o (set_slots (obs w o) false false false) else w
  end.

Inductive move (w w' : world) : Prop :=
| mv_ext : ext w w' -> move w w'
| mv_user o u e : o_tgt (obs w o) = TUser u -> fires (obs w o) e = true -> w' = add_log (close_if_term w o e) u e -> move w w'
| mv_child : w' = snd (alloc_obs (w_n_child (S (n_child w)) w) (TUser (uenc (UChild (n_child w))))) -> move w w'
| mv_top k rs : handles w k = None ->
    w' = (let '(o, w1) := alloc_obs w (TUser (uenc (UTop k))) in
          w_reacts (upd (reacts w1) k rs) (w_handles (upd (handles w1) k (Some (o, None))) w1)) -> move w w'.

Inductive moves : world -> world -> Prop :=
| ms_refl w : moves w w
| ms_step w w1 w2 : Inv w -> move w w1 -> moves w1 w2 -> moves w w2.

Lemma move_inv w w' : Inv w -> move w w' -> Inv w'.
Proof.
  intros I [E | o u e T F -> | -> | k rs H ->].
  - eapply ext_inv; eauto.
  - apply (inv_user_log w o u e I T F).
  - now apply inv_alloc_child.
  - pose proof (inv_alloc_top w k rs I H) as X. exact X.
Qed.

Lemma moves_inv w w' : Inv w -> moves w w' -> Inv w'.
Proof. intros I M. induction M as [| w w1 w2 I0 Mv M IH]; auto. apply IH. eapply move_inv; eauto. Qed.

Lemma moves_trans a b c : moves a b -> moves b c -> moves a c.
Proof. intros M1 M2. induction M1 as [| w w1 w2 I0 Mv M IH]; auto. eapply ms_step; eauto. Qed.

Lemma ms_one w w' : Inv w -> move w w' -> moves w w'.
Proof. intros I M. eapply ms_step; [exact I | exact M | apply ms_refl]. Qed.
Lemma ms_ext w w' : Inv w -> ext w w' -> moves w w'.
Proof. intros I E. apply ms_one; auto. now apply mv_ext. Qed.
Lemma ms_then w w1 w2 : Inv w -> moves w w1 -> (Inv w1 -> moves w1 w2) -> moves w w2.
Proof. intros I M F. eapply moves_trans; [exact M | apply F; eapply moves_inv; eauto]. Qed.

Lemma ms_same w w' : Inv w -> obs w' = obs w -> log w' = log w -> handles w' = handles w -> n_child w' = n_child w -> moves w w'.
Proof. intros. apply ms_ext; auto. apply ext_same; auto. Qed.
Lemma ms_close w o : Inv w -> moves w (set_obs w o (set_slots (obs w o) false false false)).
Proof. intro I. apply ms_ext; auto. now apply ext_close. Qed.
Lemma ms_settd w o t : Inv w -> moves w (set_obs w o (set_td (obs w o) t)).
Proof. intro I. apply ms_ext; auto. now apply ext_settd. Qed.
Lemma ms_alloc w t : Inv w -> nonuser t -> moves w (snd (alloc_obs w t)).
Proof. intros I N. apply ms_ext; auto. now apply ext_alloc. Qed.

Ltac ms_simple I := apply ms_same; [exact I | reflexivity | reflexivity | reflexivity | reflexivity].

Lemma ms_close_if_term w o e : Inv w -> moves w (close_if_term w o e).
Proof.
  intro I. unfold close_if_term. destruct e; [apply ms_refl | |]; (destruct (o_e (obs w o)); [now apply ms_close | apply ms_refl]).
Qed.

Theorem step_moves r w : Inv w -> moves w (snd (step r w)).
Proof.
  intro I.
  destruct r as [o e | o | o | o | n a | c | c | c ser | s att o script idx | o l | o a n | o v | o l src | p o | h e | h e | h o | h o | o x | h len | h len | k | k | h o | h o' | o x | o d | s | x | l m | l m | k i | k p rs | | a]; cbn [step].
  - (* Deliver *)
    fold (fires (obs w o) e). change (match e with Nx _ => w | _ => if o_e (obs w o) then set_obs w o (set_slots (obs w o) false false false) else w end) with (close_if_term w o e).
    set (w1 := close_if_term w o e).
    pose proof (ms_close_if_term w o e I) as M1. fold w1 in M1.
    pose proof (moves_inv _ _ I M1) as I1.
    destruct (fires (obs w o) e) eqn:Fire; [| exact M1].
    destruct (o_tgt (obs w o)) as [u | n port ser | o' | o' | h | k | t |] eqn:Tg; cbn [snd]; try exact M1.
    + (* user *)
      assert (M2 : moves w (add_log w1 u e)).
      { apply ms_one; auto. eapply mv_user; eauto. }
      pose proof (moves_inv _ _ I M2) as I2.
      assert (G : forall creqs w3, Inv w3 ->
                  moves w3 (snd (match udec u with
                                 | UTop k => (creqs ++ [React k (ncalls w3 k)], w_ncalls (upd (ncalls w3) k (S (ncalls w3 k))) w3)
                                 | UChild _ => (creqs, w3)
                                 end))).
      { intros creqs w3 I3. destruct (udec u); cbn [snd]; [ms_simple I3 | apply ms_refl]. }
      destruct e as [v | x |]; try (eapply moves_trans; [exact M2 | apply G; exact I2]).
      destruct v; try (eapply moves_trans; [exact M2 | apply G; exact I2]).
      (* a window / group observable: the recorder subscribes a child *)
      assert (M3 : moves (add_log w1 u (Nx (VObs s))) (snd (alloc_obs (w_n_child (S (n_child (add_log w1 u (Nx (VObs s))))) (add_log w1 u (Nx (VObs s)))) (TUser (uenc (UChild (n_child (add_log w1 u (Nx (VObs s)))))))))).
      { apply ms_one; auto. now apply mv_child. }
      unfold alloc_obs in *. cbn [snd] in M3. cbn [snd fst].
      eapply moves_trans; [exact M2 |]. eapply ms_then; [exact I2 | exact M3 |]. intro I3. apply G. exact I3.
    + (* handler *)
      destruct (handler _ _ _ _ _ _ _ _) as [st' acts]. cbn [snd]. eapply moves_trans; [exact M1 |]. ms_simple I1.
    + (* ref_count / replay feed *)
      destruct e; cbn [snd]; try exact M1; destruct (k_kind (conns w1 k)); try exact M1; (eapply moves_trans; [exact M1 |]; ms_simple I1).
    + (* tap log *) eapply moves_trans; [exact M1 |]. ms_simple I1.
  - (* Unsub *) cbn [snd]. now apply ms_close.
  - (* RunTd *)
    destruct (o_td (obs w o)) as [[c | h ser | x] |]; cbn [snd]; try apply ms_refl. ms_simple I.
  - (* ClearTd *) cbn [snd]. now apply ms_settd.
  - (* Act *)
    destruct a; cbn [snd];
      repeat match goal with
             | |- moves _ (snd (if ?b then _ else _)) => destruct b
             | |- moves _ (snd (match ?l with [] => _ | _ :: _ => _ end)) => destruct l
             end; cbn [snd]; try apply ms_refl; try (ms_simple I; fail).
    + (* ASubscribe *)
      unfold alloc_obs. cbn [snd].
      pose proof (ms_alloc w (THandler n port (c_serial (ctls w (n_ctl (nodes w n))))) I Logic.I) as MA.
      unfold alloc_obs in MA; cbn [snd] in MA.
      destruct (is_sub (obs w (c_sub (ctls w (n_ctl (nodes w n)))))); cbn [snd].
      * eapply ms_then; [exact I | exact MA |]. intro IA. ms_simple IA.
      * eapply ms_then; [exact I | exact MA |]. intro IA.
        eapply ms_then; [exact IA | |].
        -- apply (ms_same _ (set_ctl (w_n_obs (S (n_obs w)) (set_obs w (n_obs w) (mk_obs (THandler n port (c_serial (ctls w (n_ctl (nodes w n)))))))) (n_ctl (nodes w n))
                                      {| c_sub := c_sub (ctls w (n_ctl (nodes w n))); c_uns := c_uns (ctls w (n_ctl (nodes w n))); c_serial := S (c_serial (ctls w (n_ctl (nodes w n)))) |}) IA); reflexivity.
        -- intro IB. now apply ms_close.
    + (* ASubjNew *)
      unfold alloc_subj. cbn [snd]. destruct (n_op (nodes w n)); ms_simple I.
  - (* Fin *) apply ms_refl.
  - (* FinSub *) destruct (is_sub _); cbn [snd]; ms_simple I.
  - (* UnsubEntry *) destruct (find_ser _ _); cbn [snd]; [ms_simple I | apply ms_refl].
  - (* Src *) destruct script; [| destruct (_ && _)]; cbn [snd]; ms_simple I.
  - (* FromIter *) destruct l; destruct (is_sub _); apply ms_refl.
  - (* Range *) destruct n; [| destruct (is_sub _)]; apply ms_refl.
  - (* Repeat *) destruct (is_sub _); apply ms_refl.
  - (* StartWith *) destruct l; destruct (is_sub _); apply ms_refl.
  - (* SubscribePipe *)
    destruct (negb (is_sub (obs w o))); [apply ms_refl |].
    destruct p as [s | v | l | a n | | | e | v | q | c | r | h | h | k | s | i | op src others]; cbn [snd]; try apply ms_refl; try (ms_simple I; fail).
    + (* PFromResult *) destruct r; apply ms_refl.
    + (* PHot *)
      destruct (sj_kind (subjs w h)); cbn [snd]; try apply ms_refl.
      * destruct (sj_err (subjs w h)); [apply ms_refl |]. destruct (sj_last (subjs w h)); apply ms_refl.
      * unfold alloc_cell, alloc_obs; cbn [snd].
        eapply ms_then; [exact I | |].
        -- apply (ms_same w (w_n_cells (S (n_cells w)) (w_cells (upd (cells w) (n_cells w) None) w)) I); reflexivity.
        -- intro I2. apply (ms_alloc _ (TGated o) I2 Logic.I).
    + (* POp *)
      assert (G : forall l, moves w (snd (@pair (list req) world l w))) by (intro; apply ms_refl).
      destruct op; try apply G.
      all: destruct (plan _ src others) as [ups order].
      all: match goal with
           | |- context [fold_left ?F ?U ([], ?w2)] =>
               pose proof (ext_fold_alloc (n_nodes w) U [] w2) as EF;
               destruct (fold_left F U ([], w2)) as [entries w3] eqn:FE
           end.
      all: cbn [snd] in EF.
      all: assert (M2 : moves w (set_obs (w_n_ctls (S (n_ctls w)) (w_n_nodes (S (n_nodes w)) w)) o
                          (set_td (obs (w_n_ctls (S (n_ctls w)) (w_n_nodes (S (n_nodes w)) w)) o) (Some (TdFin (n_ctls w))))))
             by (eapply ms_then; [exact I | apply (ms_same w (w_n_ctls (S (n_ctls w)) (w_n_nodes (S (n_nodes w)) w)) I); reflexivity | intro I'; now apply ms_settd]).
      all: pose proof (moves_inv _ _ I M2) as I2.
      all: assert (M3 : moves w w3) by (eapply moves_trans; [exact M2 | apply ms_ext; [exact I2 | exact (EF I2)]]).
      all: pose proof (moves_inv _ _ I M3) as I3.
      all: cbn [snd]; try (eapply moves_trans; [exact M3 |]; ms_simple I3).
      * (* OTap *) unfold alloc_obs; cbn [snd]. eapply moves_trans; [exact M3 |].
        eapply ms_then; [exact I3 | |].
        -- apply (ms_same w3 (set_ctl w3 (n_ctls w) {| c_sub := o; c_uns := entries; c_serial := length entries |}) I3); reflexivity.
        -- intro I4. eapply ms_then; [exact I4 | apply (ms_alloc _ (TTapLog t) I4 Logic.I) |]. intro I5. unfold alloc_obs; cbn [snd]. ms_simple I5.
  - (* SubjCall *)
    destruct (match sj_kind (subjs w h) with KBehavior | KReplay => conflicts (held w) (LHist h) MW | _ => false end); cbn [snd]; ms_simple I.
  - (* Broadcast *) destruct e; cbn [snd]; try apply ms_refl; ms_simple I.
  - (* SubjJoin *) cbn [snd]. eapply ms_then; [exact I | now apply ms_settd |]. intro I2. ms_simple I2.
  - (* Replay *) apply ms_refl.
  - (* SetTdCell *) cbn [snd]. now apply ms_settd.
  - (* HookSub *) destruct (sj_hook _); [destruct (Nat.eqb _ _) |]; apply ms_refl.
  - (* HookUnsub *) destruct (sj_hook _); [destruct (Nat.eqb _ _) |]; apply ms_refl.
  - (* Connect *)
    destruct (k_slot (conns w k)); [apply ms_refl |]. unfold alloc_obs; cbn [snd].
    apply (ms_alloc w (TFeedK k) I Logic.I).
  - (* SlotUnsub *) destruct (k_slot (conns w k)); cbn [snd]; [| apply ms_refl]. destruct (match k_kind (conns w k) with CReplay => _ | _ => false end); cbn [snd]; [apply ms_refl | ms_simple I].
  - (* BehaviorJoin *)
    destruct (is_sub (obs w o)); [| apply ms_refl].
    unfold alloc_cell, alloc_obs; cbn [snd].
    eapply ms_then; [exact I | |].
    + apply (ms_same w (w_n_cells (S (n_cells w)) (w_cells (upd (cells w) (n_cells w) None) w)) I); reflexivity.
    + intro I2. apply (ms_alloc _ (TForward o) I2 Logic.I).
  - (* ReplayDone *)
    destruct (sj_err (subjs w h)); [apply ms_refl |]. destruct (sj_done (subjs w h)); [apply ms_refl |]. cbn [snd].
    destruct (o_tgt (obs w o')) eqn:Tg; try apply ms_refl.
    apply ms_ext; [exact I |]. apply ext_set_obs; [exact I |]. right. split; [exact Logic.I |].
    destruct (i_unif _ I o') as [A B]. split; cbn; assumption.
  - (* CellCheck *) destruct (is_sub (obs w o)); apply ms_refl.
  - (* MkSub *)
    cbn [snd].
    assert (M1 : moves w (w_n_subs (S (n_subs w)) (w_subs (upd (subs w) (n_subs w) {| sb_obs := o; sb_live := true |}) w))) by ms_simple I.
    pose proof (moves_inv _ _ I M1) as I1.
    destruct d; try exact M1; try (eapply moves_trans; [exact M1 |]; ms_simple I1).
    (* DHandle: handles only become more defined *)
    eapply moves_trans; [exact M1 |]. apply ms_ext; [exact I1 |]. constructor; cbn; auto.
    + intros k'. unfold upd. destruct (Nat.eqb k' k); [discriminate | auto].
    + intro x. left. split; [reflexivity | split; [apply (i_unif _ I) | auto]].
  - (* SubUnsub *) destruct (sb_live _); cbn [snd]; [ms_simple I | apply ms_refl].
  - (* CellUnsub *) apply ms_refl.
  - (* AcqL *) destruct (conflicts _ _ _); cbn [snd]; ms_simple I.
  - (* RelL *) cbn [snd]. ms_simple I.
  - (* React *) apply ms_refl.
  - (* DoSub *)
    destruct (handles w k) eqn:HN; [apply ms_refl |].
    unfold alloc_obs. cbn [snd]. apply ms_one; [exact I |]. eapply (mv_top w _ k rs HN). reflexivity.
  - (* Snap *) cbn [snd]. ms_simple I.
  - (* Drv *)
    assert (M1 : moves w (w_cur (S (cur w)) w)) by ms_simple I.
    pose proof (moves_inv _ _ I M1) as I1.
    destruct a; cbn [snd]; try exact M1.
    unfold alloc_obs; cbn [snd]. eapply moves_trans; [exact M1 |]. apply (ms_alloc _ (TFeed (k_subj (conns (w_cur (S (cur w)) w) k))) I1 Logic.I).
Qed.

Theorem run_moves fuel : forall stk w, Inv w -> moves w (snd (run fuel stk w)).
Proof.
  induction fuel as [|f IH]; intros stk w I; cbn [run]; try apply ms_refl.
  destruct (out w); try apply ms_refl. destruct stk as [|r rs]; try apply ms_refl.
  pose proof (step_moves r w I) as M. destruct (step r w) as [new w'] eqn:E. cbn [snd] in M.
  eapply moves_trans; [exact M |]. apply IH. eapply moves_inv; eauto.
Qed.

(* ------------------------------------------------------------------ a generic induction principle *)
Lemma moves_ind_inv (P : world -> Prop) :
  (forall w w', Inv w -> move w w' -> P w -> P w') ->
  forall w w', moves w w' -> P w -> P w'.
Proof. intros H w w' M. induction M as [| w w1 w2 I0 Mv M IH]; auto. intro Pw. apply IH. eapply H; eauto. Qed.
