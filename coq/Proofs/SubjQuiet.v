(* A subject's observer list grows only by subscribing (SubjJoin), for every request kind and every run; hence, once a terminal
   broadcast has taken its snapshot and emptied the list - in one step, before the first notification runs - nothing pushed
   afterwards (from inside the notifications or later) reaches anybody until somebody subscribes again.  (C10, C01) *)
From Coq Require Import List ZArith Bool Arith Lia.
From RX Require Import Val Syntax World Step.
From RXP Require Import OpenUntil.
Import ListNotations.

Lemma upd_obs_in {A} (f : nat -> A) (proj : A -> list (nat * oid)) h h' v p :
  In p (proj (upd f h v h')) -> (h = h' /\ In p (proj v)) \/ In p (proj (f h')).
Proof.
  unfold upd. destruct (Nat.eqb h' h) eqn:E; intro H.
  - left. apply Nat.eqb_eq in E. split; [symmetry; assumption | exact H].
  - right. exact H.
Qed.

Lemma in_filter_sub {A} (f : A -> bool) l (x : A) : In x (filter f l) -> In x l.
Proof. intro H. apply filter_In in H. tauto. Qed.

Lemma fold_pres {B} (F : list (nat * oid) * world -> B -> list (nat * oid) * world) l acc :
  (forall a b, subjs (snd (F a b)) = subjs (snd a)) -> subjs (snd (fold_left F l acc)) = subjs (snd acc).
Proof. intro HF. revert acc; induction l as [| x l IH]; intro acc; cbn [fold_left]; [reflexivity |]. rewrite IH. apply HF. Qed.

Lemma remove_ser_in s l (p : nat * oid) : In p (remove_ser s l) -> In p l.
Proof.
  induction l as [| [k o] l IH]; cbn [remove_ser]; [tauto |].
  destruct (Nat.eqb k s); intro H.
  - right. auto.
  - destruct H as [H | H]; [left; exact H | right; auto].
Qed.

Ltac fold_case :=
  match goal with
  | E : fold_left _ ?l ?init = (?l1, ?w0), H : In _ (sj_obs (subjs ?w0 _)) |- _ =>
      let X := fresh in
      assert (X : subjs (snd (l1, w0)) = subjs (snd init)) by (rewrite <- E; apply fold_pres; intros [es wa] b; reflexivity);
      cbn -[In] in X; rewrite X in H; left; exact H
  end.

(* A subject's observer list grows only by SubjJoin: whoever is in it after a step was in it before, or the step is the join. *)
Theorem step_members r w h p :
  In p (sj_obs (subjs (snd (step r w)) h)) -> In p (sj_obs (subjs w h)) \/ exists o, r = SubjJoin h o.
Proof.
  destruct r as [o e | o | o | o | n a | c | c | c ser | s att o script idx | o l | o a n | o v | o l src | p0 o | h0 e | h0 e | h0 o | h0 o | o x | h0 len | h0 len | k | k | h0 o | h0 o' | o x | o d | s | x | l m | l m | k i | k p0 rs | | a]; cbn [step].
  all: cbn [alloc_obs alloc_subj alloc_cell].
  all: repeat (match goal with
  | |- context[match (match ?y with _ => _ end) with _ => _ end] => destruct y eqn:?
  | |- context[match ?x with _ => _ end] => destruct x eqn:?
  end; cbn [fst snd alloc_obs alloc_subj alloc_cell]).
  all: cbn [snd fst]; intro H; try (left; exact H).
  all: unfold set_subj in H; cbn -[upd In] in H; try (left; exact H).
  all: try fold_case.
  all: apply (upd_obs_in _ sj_obs) in H; destruct H as [[Eh H] | H]; [| try (left; exact H); try fold_case]; cbn -[In] in H; try contradiction; try (left; subst; exact H).
  - (* RunTd: removal *) left. subst. eapply remove_ser_in; eauto.
  - (* SubjJoin *) apply in_app_or in H. destruct H as [H | H]; [left; subst; exact H |]. right. subst. eexists. reflexivity.
Qed.

(* ... and so for every run: members of the final list were members at the start or joined during the run *)
Theorem members_only_by_join fuel : forall stk w h p,
  In p (sj_obs (subjs (snd (run fuel stk w)) h)) ->
  In p (sj_obs (subjs w h)) \/ exists o, In (SubjJoin h o) (run_reqs fuel stk w).
Proof.
  induction fuel as [| f IH]; intros stk w h p H; cbn [run run_reqs] in *.
  - left. exact H.
  - destruct (out w); [| left; exact H].
    destruct stk as [| r rs]; [left; exact H |].
    pose proof (step_members r w h p) as SM.
    destruct (step r w) as [new w'] eqn:E. cbn [snd] in SM.
    destruct (IH (new ++ rs) w' h p H) as [M | [o J]].
    + destruct (SM M) as [M0 | [o ->]]; [left; exact M0 | right; exists o; left; reflexivity].
    + right. exists o. right. exact J.
Qed.

Corollary quiet_until_join fuel stk w h :
  sj_obs (subjs w h) = [] -> (forall o, ~ In (SubjJoin h o) (run_reqs fuel stk w)) ->
  sj_obs (subjs (snd (run fuel stk w)) h) = [].
Proof.
  intros E NJ. destruct (sj_obs (subjs (snd (run fuel stk w)) h)) as [| p l] eqn:Q; [reflexivity | exfalso].
  destruct (members_only_by_join fuel stk w h p) as [M | [o J]].
  - rewrite Q. left. reflexivity.
  - rewrite E in M. exact M.
  - exact (NJ o J).
Qed.

(* The terminal broadcast takes its snapshot and empties the list in ONE step, before the first notification runs ... *)
Lemma terminal_broadcast_snapshot h e w : is_term e = true ->
  fst (step (Broadcast h e) w) = map (fun p => Deliver (snd p) e) (sj_obs (subjs w h)) /\
  sj_obs (subjs (snd (step (Broadcast h e) w)) h) = [].
Proof.
  intro T. cbn [step fst snd]. split; [reflexivity |].
  destruct e; cbn in T; try discriminate; unfold set_subj; cbn; unfold upd; rewrite Nat.eqb_refl; reflexivity.
Qed.

(* ... so whatever runs afterwards - the pending notifications, the callbacks they trigger, pushes nested in them - a later
   broadcast on the same subject reaches NOBODY unless somebody has subscribed again in between. *)
Theorem nothing_after_terminal_until_resubscription h e w fuel stk e' : is_term e = true ->
  let w1 := snd (step (Broadcast h e) w) in
  (forall o, ~ In (SubjJoin h o) (run_reqs fuel stk w1)) ->
  fst (step (Broadcast h e') (snd (run fuel stk w1))) = [].
Proof.
  intros T w1 NJ. cbn [step fst].
  rewrite (quiet_until_join fuel stk w1 h); [reflexivity | apply terminal_broadcast_snapshot; exact T | exact NJ].
Qed.

(* Observable::inner_subscribe: an observer that has already ended is never handed to a source - whatever the pipeline (cold or
   hot source, subject, connectable, any operator): the step changes nothing and asks for nothing. *)
Theorem dead_observer_subscribes_nothing p o w :
  is_sub (obs w o) = false -> step (SubscribePipe p o) w = ([], w).
Proof. intro H. cbn [step]. rewrite H. reflexivity. Qed.
