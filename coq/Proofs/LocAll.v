(* The per-operator theorems of LocOpsA-D gathered: every node-level operator, the derived operators
   through the nodes `execute` builds them from, chains of any length, and materialize/dematerialize. *)
From Coq Require Import List ZArith Bool Arith Lia.
From RX Require Import Val Syntax Step Spec Loc.
From RXP Require Import LocBase LocOpsA LocOpsB LocOpsC LocOpsD.
Import ListNotations.

(* ---------------------------------------------------------------- node-level operators *)
(* every node-level operator of the catalogue *)
Theorem loc_node_correct op i : loc_node_op op = true -> loc_run op (events i) = events (spec_op op i).
Proof.
  intro H.
  destruct op; try discriminate H;
    try solve
      [ apply loc_map_correct | apply loc_filter_correct | apply loc_take_correct
      | apply loc_take_while_correct | apply loc_take_last_correct | apply loc_skip_correct
      | apply loc_skip_last_correct | apply loc_skip_while_correct | apply loc_distinct_correct
      | apply loc_scan_correct | apply loc_reduce_correct | apply loc_count_correct | apply loc_sum_correct
      | apply loc_sum_and_count_correct | apply loc_min_correct | apply loc_max_correct
      | apply loc_contains_correct | apply loc_default_if_empty_correct | apply loc_ignore_correct
      | apply loc_group_by_correct | apply loc_materialize_correct | apply loc_dematerialize_correct
      | apply loc_tap_correct | apply loc_map_to_any_correct | apply loc_fwd_correct ].
  - (* buffer *)
    match goal with |- context [OBuffer ?k] => destruct k as [|k'] end;
      [discriminate H | apply loc_buffer_correct].
  - (* window *)
    match goal with |- context [OWindow ?k] => destruct k as [|k'] end;
      [discriminate H | apply loc_window_correct].
Qed.

(* a node-level operator is its own expansion *)
Lemma loc_op_node op l : loc_node_op op = true -> loc_op op l = loc_run op l.
Proof. intro H. destruct op; try discriminate H; reflexivity. Qed.

(* ---------------------------------------------------------------- first / last *)
Theorem loc_first_correct i : loc_op OFirst (events i) = events (spec_op OFirst i).
Proof.
  unfold loc_op; cbn [prefix_of expand fold_left app].
  rewrite loc_take_correct, loc_fwd_correct. destruct i as [xs en]. reflexivity.
Qed.

Theorem loc_last_correct i : loc_op OLast (events i) = events (spec_op OLast i).
Proof.
  unfold loc_op; cbn [prefix_of expand fold_left app].
  rewrite loc_take_last_correct, loc_fwd_correct. destruct i as [xs en].
  cbn [spec_op]. destruct (when_complete en (lastn 1 xs)) as [ys en']. reflexivity.
Qed.

(* ---------------------------------------------------------------- element_at *)
Lemma skipn_firstn_nth {A} : forall m (xs : list A),
  skipn m (firstn (S m) xs) = match nth_error xs m with Some v => [v] | None => [] end.
Proof.
  induction m as [|m IH]; intros [|x xs]; cbn [skipn firstn nth_error].
  - reflexivity.
  - reflexivity.
  - reflexivity.
  - apply IH.
Qed.

Theorem loc_element_at_correct n i : loc_op (OElementAt n) (events i) = events (spec_op (OElementAt n) i).
Proof.
  unfold loc_op; cbn [prefix_of expand fold_left app].
  rewrite loc_take_correct, loc_skip_correct, loc_fwd_correct. destruct i as [xs en].
  cbn [spec_op]. destruct n as [|m].
  - reflexivity.
  - replace (S m - 1) with m by lia. rewrite skipn_firstn_nth. reflexivity.
Qed.

(* ---------------------------------------------------------------- all *)
Lemma neg_pred_appp p x : appp (neg_pred p) x = negb (appp p x).
Proof.
  destruct p as [k|k| | | | |k|k]; cbn [neg_pred appp].
  - apply Z.leb_antisym.
  - apply Z.ltb_antisym.
  - reflexivity.
  - symmetry; apply negb_involutive.
  - reflexivity.
  - reflexivity.
  - reflexivity.
  - symmetry; apply negb_involutive.
Qed.

Lemma filter_neg_spec p : forall xs,
  match filter (appp (neg_pred p)) xs with
  | [] => forallb (appp p) xs = true
  | _ :: _ => forallb (appp p) xs = false
  end.
Proof.
  induction xs as [|x xs IH]; cbn [filter forallb].
  - reflexivity.
  - rewrite neg_pred_appp. destruct (appp p x); cbn [negb andb].
    + exact IH.
    + reflexivity.
Qed.

Lemma filter_neg_nil p xs : filter (appp (neg_pred p)) xs = [] <-> forallb (appp p) xs = true.
Proof.
  pose proof (filter_neg_spec p xs) as F. destruct (filter (appp (neg_pred p)) xs) as [|y ys].
  - split; auto.
  - split; intro H; [discriminate H | rewrite H in F; discriminate F].
Qed.

(* the `all` node itself: it only ever sees the output of filter(!p).take(1) *)
Lemma all_step p st y :
  loc_step (OAll p) (live st) (Nx y) =
  ({| l_st := st; l_done := true; l_up := false |}, [Nx (VBool false); Co]).
Proof. reflexivity. Qed.

Lemma all_node p ys en :
  loc_run (OAll p) (events (ys, en)) =
  match ys with
  | [] => events (when_complete en [VBool true])
  | _ :: _ => [Nx (VBool false); Co]
  end.
Proof.
  unfold loc_run. rewrite lst0_live, events_eq. destruct ys as [|y ys]; cbn [map app].
  - destruct en as [|e|]; reflexivity.
  - rewrite feed_cons_snd, all_step. cbn [fst snd].
    rewrite feed_dead_snd by reflexivity. reflexivity.
Qed.

Theorem loc_all_correct p i : loc_op (OAll p) (events i) = events (spec_op (OAll p) i).
Proof.
  unfold loc_op; cbn [prefix_of expand fold_left app].
  rewrite loc_filter_correct, loc_take_correct. destruct i as [xs en].
  cbn [spec_op]. rewrite all_node.
  pose proof (filter_neg_spec p xs) as F.
  destruct (filter (appp (neg_pred p)) xs) as [|y ys].
  - cbn [firstn length].
    change (Nat.leb (Nat.max 1 1) 0) with false. cbn iota.
    rewrite F. reflexivity.
  - cbn [firstn]. rewrite F. reflexivity.
Qed.

(* ---------------------------------------------------------------- start_with *)
Theorem loc_start_with_correct ys i : loc_op (OStartWith ys) (events i) = events (spec_op (OStartWith ys) i).
Proof.
  unfold loc_op; cbn [prefix_of expand fold_left app].
  rewrite loc_fwd_correct. destruct i as [xs en].
  cbn [spec_op]. unfold events; cbn [fst snd]. rewrite map_app, app_assoc. reflexivity.
Qed.

(* ---------------------------------------------------------------- all of them *)
Theorem loc_op_correct op i : (loc_node_op op || loc_derived_op op) = true -> loc_op op (events i) = events (spec_op op i).
Proof.
  intro H. destruct (loc_node_op op) eqn:N.
  - rewrite loc_op_node by exact N. apply loc_node_correct; exact N.
  - cbn [orb] in H. destruct op; try discriminate H.
    + apply loc_first_correct.
    + apply loc_last_correct.
    + apply loc_element_at_correct.
    + apply loc_all_correct.
    + apply loc_start_with_correct.
Qed.

(* compositions of operators behave as the composition of their definitions, for chains of ANY length *)
Theorem loc_chain_correct ops i : forallb (fun op => loc_node_op op || loc_derived_op op) ops = true ->
  loc_chain ops (events i) = events (spec_chain ops i).
Proof.
  unfold loc_chain, spec_chain. revert i.
  induction ops as [|op ops IH]; intros i H.
  - reflexivity.
  - cbn [forallb] in H. apply andb_prop in H. destruct H as [Hop Hops].
    cbn [fold_left]. rewrite loc_op_correct by exact Hop. apply IH; exact Hops.
Qed.

(* ---------------------------------------------------------------- dematerialize . materialize = id (C04) *)
Lemma demat_mat_ending xs tail en en' :
  demat tail en = ([], en') -> demat (map VMatN xs ++ tail) en = (xs, en').
Proof.
  intro T. induction xs as [|x xs IH]; cbn [map app].
  - exact T.
  - cbn [demat]. rewrite IH. reflexivity.
Qed.

Theorem demat_mat_id i : spec_op ODematerialize (spec_op OMaterialize i) = i.
Proof.
  destruct i as [xs en]. destruct en as [|e|]; cbn [spec_op].
  - apply demat_mat_ending. reflexivity.
  - apply demat_mat_ending. reflexivity.
  - rewrite <- (app_nil_r (map VMatN xs)). apply demat_mat_ending. reflexivity.
Qed.

Print Assumptions loc_op_correct.
Print Assumptions loc_chain_correct.
Print Assumptions demat_mat_id.
