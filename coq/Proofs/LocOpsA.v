(* Per-operator theorems, part A (pattern examples): map, filter, take. *)
From Coq Require Import List ZArith Bool Arith Lia.
From RX Require Import Val Syntax Step Spec Loc.
From RXP Require Import LocBase.
Import ListNotations.

(* ---------------------------------------------------------------- map *)
Lemma map_feed f st en : forall xs,
  snd (loc_feed (OMap f) (live st) (map Nx xs ++ ending_evs en)) = map Nx (map (app1 f) xs) ++ ending_evs en.
Proof.
  induction xs as [|x xs IH]; cbn [map app].
  - apply feed_ending_dflt; reflexivity.
  - rewrite feed_cons_snd. change (loc_step (OMap f) (live st) (Nx x)) with (live st, [Nx (app1 f x)]).
    cbn [fst snd]. now rewrite IH.
Qed.
Theorem loc_map_correct f i : loc_run (OMap f) (events i) = events (spec_op (OMap f) i).
Proof. destruct i as [xs en]. unfold loc_run. rewrite lst0_live, events_eq. cbn [spec_op]. rewrite events_eq. apply map_feed. Qed.

(* ---------------------------------------------------------------- filter *)
Lemma filter_feed p st en : forall xs,
  snd (loc_feed (OFilter p) (live st) (map Nx xs ++ ending_evs en)) = map Nx (filter (appp p) xs) ++ ending_evs en.
Proof.
  induction xs as [|x xs IH]; cbn [map app filter].
  - apply feed_ending_dflt; reflexivity.
  - rewrite feed_cons_snd.
    assert (S : loc_step (OFilter p) (live st) (Nx x) = (live st, if appp p x then [Nx x] else [])).
    { unfold loc_step, live; cbn [l_up l_st handler]. destruct (appp p x); reflexivity. }
    rewrite S. cbn [fst snd]. rewrite IH. destruct (appp p x); reflexivity.
Qed.
Theorem loc_filter_correct p i : loc_run (OFilter p) (events i) = events (spec_op (OFilter p) i).
Proof. destruct i as [xs en]. unfold loc_run. rewrite lst0_live, events_eq. cbn [spec_op]. rewrite events_eq. apply filter_feed. Qed.

(* ---------------------------------------------------------------- take *)
Lemma take_step n c x :
  loc_step (OTake n) (live (st_set_cnt st0 c)) (Nx x) =
  if Nat.leb n (S c)
  then ({| l_st := st_set_cnt st0 (S c); l_done := true; l_up := false |}, (if Nat.ltb c n then [Nx x] else []) ++ [Co])
  else (live (st_set_cnt st0 (S c)), if Nat.ltb c n then [Nx x] else []).
Proof.
  unfold loc_step, live; cbn [l_up l_st handler st_cnt st_set_cnt st0].
  destruct (Nat.leb n (S c)), (Nat.ltb c n); reflexivity.
Qed.

Lemma take_feed n en : forall xs c, c < Nat.max n 1 ->
  snd (loc_feed (OTake n) (live (st_set_cnt st0 c)) (map Nx xs ++ ending_evs en)) =
  map Nx (firstn (n - c) xs) ++ ending_evs (if Nat.leb (Nat.max n 1 - c) (length xs) then Completes else en).
Proof.
  induction xs as [|x xs IH]; intros c Hc.
  - cbn [map app length firstn]. rewrite firstn_nil.
    replace (Nat.leb (Nat.max n 1 - c) 0) with false by (symmetry; apply Nat.leb_gt; lia).
    apply feed_ending_dflt; reflexivity.
  - cbn [map app]. rewrite feed_cons_snd, take_step.
    destruct (Nat.leb n (S c)) eqn:L; cbn [fst snd].
    + (* this item completes the take *)
      apply Nat.leb_le in L. rewrite feed_dead_snd by reflexivity. rewrite app_nil_r.
      replace (Nat.leb (Nat.max n 1 - c) (length (x :: xs))) with true by (symmetry; apply Nat.leb_le; cbn [length]; lia).
      destruct (Nat.ltb c n) eqn:L2.
      * apply Nat.ltb_lt in L2. replace (n - c) with 1 by lia. cbn [firstn map app ending_evs]. reflexivity.
      * apply Nat.ltb_ge in L2. replace (n - c) with 0 by lia. reflexivity.
    + apply Nat.leb_gt in L.
      replace (Nat.ltb c n) with true by (symmetry; apply Nat.ltb_lt; lia).
      rewrite IH by lia.
      replace (n - c) with (S (n - S c)) by lia. cbn [firstn map app length].
      replace (Nat.leb (Nat.max n 1 - S c) (length xs)) with (Nat.leb (Nat.max n 1 - c) (S (length xs))); [reflexivity |].
      destruct (Nat.leb (Nat.max n 1 - c) (S (length xs))) eqn:A; symmetry;
        [apply Nat.leb_le in A; apply Nat.leb_le; lia | apply Nat.leb_gt in A; apply Nat.leb_gt; lia].
Qed.
Theorem loc_take_correct n i : loc_run (OTake n) (events i) = events (spec_op (OTake n) i).
Proof.
  destruct i as [xs en]. unfold loc_run. rewrite lst0_live, events_eq. cbn [spec_op init_state].
  change st0 with (st_set_cnt st0 0). rewrite take_feed by lia. now rewrite !Nat.sub_0_r.
Qed.
