(* C09: observe_on hands every event to the scheduler: none lost, none reordered, none twice - every interleaving. *)
From Coq Require Import List Bool Arith Lia.
From RX Require Import ConcQueue ConcObserveOn.
From RXP Require Import QueueInv.
Import ListNotations.
Arguments Nat.ltb : simpl never.
Arguments Nat.leb : simpl never.
Arguments Nat.eqb : simpl never.

Ltac oc := cbn [o_n o_term o_q o_next o_open o_unsub o_tpc o_log set_q].

Definition not_running (w : wstate) : Prop := forall t, w <> WRunning t.

Record OInv (c : ocfg) : Prop := {
  ov_q : QInv (o_q c);
  ov_posted : q_posted (o_q c) = seq 0 (o_next c) /\ o_next c <= o_n c;
  ov_tpc : not_running (q_worker (o_q c)) -> o_tpc c = OStart;
  ov_log : o_log c = seq 0 (length (o_log c));
  ov_open : o_open c = true ->
            o_log c = (match o_tpc c with OStart => q_finished (o_q c) | ODelivered => q_started (o_q c) end) /\
            q_abort (o_q c) = false /\ o_unsub c = false;
  ov_closed : o_unsub c = false -> o_open c = false -> o_term c = true /\ o_log c = seq 0 (o_n c) }.

Lemma seq_prefix (l r : list nat) k : l ++ r = seq 0 k -> l = seq 0 (length l).
Proof.
  intro H. assert (E : firstn (length l) (l ++ r) = firstn (length l) (seq 0 k)) by now rewrite H.
  rewrite firstn_app, Nat.sub_diag, firstn_all in E. cbn [firstn] in E. rewrite app_nil_r in E. rewrite E.
  assert (L : length l <= k). { apply (f_equal (@length nat)) in H. rewrite app_length, seq_length in H. lia. }
  replace k with (length l + (k - length l)) by lia. rewrite seq_app, firstn_app, seq_length, Nat.sub_diag. cbn [firstn].
  rewrite app_nil_r. rewrite firstn_all2; [now rewrite seq_length | rewrite seq_length; lia].
Qed.

Lemma started_seq c : OInv c -> q_started (o_q c) = seq 0 (length (q_started (o_q c))).
Proof.
  intro I. destruct (ov_posted c I) as [P _]. pose proof (qi_acct _ (ov_q c I)) as A. rewrite P in A. symmetry in A.
  now apply seq_prefix in A.
Qed.

Lemma snoc_seq (l : list nat) t : l ++ [t] = seq 0 (length (l ++ [t])) -> t = length l.
Proof.
  intro H. rewrite app_length in H. cbn [length] in H. rewrite Nat.add_1_r, seq_S in H. cbn [Nat.add] in H.
  apply app_inj_tail in H. now destruct H.
Qed.

Lemma qpost_facts s t : q_started (qstep s (QPost t)) = q_started s /\ q_finished (qstep s (QPost t)) = q_finished s /\
  q_abort (qstep s (QPost t)) = q_abort s /\ q_posted (qstep s (QPost t)) = q_posted s ++ [t] /\
  (not_running (q_worker (qstep s (QPost t))) <-> not_running (q_worker s)) /\
  (forall x, q_worker s = WRunning x -> q_worker (qstep s (QPost t)) = WRunning x).
Proof.
  cbn [qstep q_started q_finished q_abort q_posted q_worker]. repeat split; auto; unfold not_running; destruct (q_worker s); cbn; auto; try discriminate.
  all: intros H x E; try discriminate; now apply (H x).
Qed.
Lemma qstop_facts s : q_started (qstep s QStop) = q_started s /\ q_finished (qstep s QStop) = q_finished s /\
  q_abort (qstep s QStop) = true /\ q_posted (qstep s QStop) = q_posted s /\
  (not_running (q_worker (qstep s QStop)) <-> not_running (q_worker s)) /\
  (forall x, q_worker s = WRunning x -> q_worker (qstep s QStop) = WRunning x).
Proof.
  cbn [qstep q_started q_finished q_abort q_posted q_worker]. repeat split; auto; unfold not_running; destruct (q_worker s); cbn; auto; try discriminate.
  all: intros H x E; try discriminate; now apply (H x).
Qed.

Lemma oinv_emit c : OInv c -> o_next c < o_n c ->
  OInv {| o_n := o_n c; o_term := o_term c; o_q := qstep (o_q c) (QPost (o_next c)); o_next := S (o_next c);
          o_open := o_open c; o_unsub := o_unsub c; o_tpc := o_tpc c; o_log := o_log c |}.
Proof.
  intros I LT. destruct (qpost_facts (o_q c) (o_next c)) as (S1 & F1 & A1 & P1 & N1 & R1).
  destruct (ov_posted c I) as [P L].
  constructor; oc.
  - apply qstep_inv, (ov_q c I).
  - split; [|lia]. rewrite P1, P, seq_S. reflexivity.
  - intro H. apply (ov_tpc c I). now apply N1.
  - apply (ov_log c I).
  - intro O. destruct (ov_open c I O) as (A & B & C). rewrite S1, F1, A1. auto.
  - apply (ov_closed c I).
Qed.

Lemma oinv_worker c w : OInv c -> (w = QCheck \/ w = QWake) -> OInv (set_q c (qstep (o_q c) w)).
Proof.
  intros I W. pose proof (ov_q c I) as QI.
  assert (KEEP : q_posted (qstep (o_q c) w) = q_posted (o_q c) /\ q_finished (qstep (o_q c) w) = q_finished (o_q c) /\
                 q_abort (qstep (o_q c) w) = q_abort (o_q c)).
  { destruct W as [-> | ->]; cbn [qstep]; destruct (q_worker (o_q c)); auto; destruct (q_abort (o_q c)); auto; destruct (q_queue (o_q c)); auto. }
  destruct KEEP as (K1 & K2 & K3).
  constructor; oc.
  - now apply qstep_inv.
  - rewrite K1. apply (ov_posted c I).
  - intro H. destruct (q_worker (o_q c)) eqn:WK.
    + apply (ov_tpc c I). rewrite WK. intros x E. discriminate.
    + apply (ov_tpc c I). rewrite WK. intros x E. discriminate.
    + exfalso. destruct W as [-> | ->]; cbn [qstep] in H; rewrite WK in H; apply (H t); now rewrite WK.
    + apply (ov_tpc c I). rewrite WK. intros x E. discriminate.
  - apply (ov_log c I).
  - intro O. destruct (ov_open c I O) as (A & B & C). rewrite K2, K3. split; [|auto].
    destruct (o_tpc c) eqn:T; [exact A|].
    (* ODelivered: the worker is running, so the worker step changes nothing *)
    assert (RUN : exists t, q_worker (o_q c) = WRunning t).
    { destruct (q_worker (o_q c)) eqn:WK; try (now exists t); exfalso;
        assert (X : o_tpc c = OStart) by (apply (ov_tpc c I); rewrite WK; intros x E; discriminate); congruence. }
    destruct RUN as [t R]. destruct W as [-> | ->]; cbn [qstep]; rewrite R; exact A.
  - apply (ov_closed c I).
Qed.

Lemma oinv_deliver c t : OInv c -> q_worker (o_q c) = WRunning t -> o_tpc c = OStart ->
  OInv {| o_n := o_n c; o_term := o_term c; o_q := o_q c; o_next := o_next c;
          o_open := if o_open c then negb (is_term c t) else false;
          o_unsub := o_unsub c; o_tpc := ODelivered;
          o_log := if o_open c then o_log c ++ [t] else o_log c |}.
Proof.
  intros I R T. pose proof (ov_q c I) as QI. pose proof (qi_one _ QI) as ONE. rewrite R in ONE. cbn [running] in ONE.
  pose proof (started_seq c I) as SS.
  constructor; oc.
  - exact QI.
  - apply (ov_posted c I).
  - intro H. exfalso. apply (H t). exact R.
  - destruct (o_open c) eqn:O; [|apply (ov_log c I)].
    destruct (ov_open c I O) as (A & B & C). rewrite T in A. cbv beta iota in A. rewrite A, <- ONE. exact SS.
  - destruct (o_open c) eqn:O; [|discriminate]. intro NT.
    destruct (ov_open c I O) as (A & B & C). rewrite T in A. cbv beta iota in A. rewrite A, <- ONE. auto.
  - intros U. destruct (o_open c) eqn:O.
    + intro NT. apply negb_false_iff in NT. unfold is_term in NT. apply andb_true_iff in NT. destruct NT as [TM E]. apply Nat.eqb_eq in E.
      split; [exact TM|]. destruct (ov_open c I O) as (A & B & C). rewrite T in A. cbv beta iota in A. rewrite A, <- ONE, SS.
      rewrite ONE in SS. apply snoc_seq in SS. rewrite ONE, app_length. cbn [length]. rewrite <- SS. f_equal. lia.
    + intros _. apply (ov_closed c I U O).
Qed.

Lemma oinv_after c t : OInv c -> q_worker (o_q c) = WRunning t -> o_tpc c = ODelivered ->
  OInv {| o_n := o_n c; o_term := o_term c;
          o_q := qstep (if o_open c then o_q c else qstep (o_q c) QStop) QDone;
          o_next := o_next c; o_open := o_open c; o_unsub := o_unsub c; o_tpc := OStart; o_log := o_log c |}.
Proof.
  intros I R T. pose proof (ov_q c I) as QI. pose proof (qi_one _ QI) as ONE. rewrite R in ONE. cbn [running] in ONE.
  destruct (qstop_facts (o_q c)) as (S1 & F1 & A1 & P1 & N1 & R1).
  set (q1 := if o_open c then o_q c else qstep (o_q c) QStop).
  assert (Q1 : QInv q1) by (unfold q1; destruct (o_open c); [exact QI | now apply qstep_inv]).
  assert (R1' : q_worker q1 = WRunning t) by (unfold q1; destruct (o_open c); [exact R | now apply R1]).
  assert (P1' : q_posted q1 = q_posted (o_q c)) by (unfold q1; destruct (o_open c); auto).
  assert (F1' : q_finished q1 = q_finished (o_q c)) by (unfold q1; destruct (o_open c); auto).
  constructor; oc.
  - now apply qstep_inv.
  - cbn [qstep]. rewrite R1'. cbn [q_posted]. rewrite P1'. apply (ov_posted c I).
  - reflexivity.
  - apply (ov_log c I).
  - intro O. destruct (ov_open c I O) as (A & B & C). rewrite T in A. cbv beta iota in A. unfold q1. rewrite O. cbn [qstep]. rewrite R. cbn [q_finished q_abort].
    rewrite A, ONE. auto.
  - apply (ov_closed c I).
Qed.

Lemma oinv_unsub c : OInv c ->
  OInv {| o_n := o_n c; o_term := o_term c; o_q := qstep (o_q c) QStop; o_next := o_next c;
          o_open := false; o_unsub := true; o_tpc := o_tpc c; o_log := o_log c |}.
Proof.
  intros I. destruct (qstop_facts (o_q c)) as (S1 & F1 & A1 & P1 & N1 & R1).
  constructor; oc.
  - apply qstep_inv, (ov_q c I).
  - rewrite P1. apply (ov_posted c I).
  - intro H. apply (ov_tpc c I). now apply N1.
  - apply (ov_log c I).
  - discriminate.
  - discriminate.
Qed.

Lemma ostep_inv c a : OInv c -> OInv (ostep c a).
Proof.
  intro I. destruct a as [|w| | |]; unfold ostep.
  - destruct (Nat.ltb (o_next c) (o_n c)) eqn:LT; [|exact I]. apply Nat.ltb_lt in LT. now apply oinv_emit.
  - destruct w; try exact I; apply oinv_worker; auto.
  - destruct (q_worker (o_q c)) eqn:R; try exact I. destruct (o_tpc c) eqn:T; try exact I. now apply oinv_deliver.
  - destruct (q_worker (o_q c)) eqn:R; try exact I. destruct (o_tpc c) eqn:T; try exact I. now apply (oinv_after c t).
  - destruct (o_unsub c); [exact I|]. now apply oinv_unsub.
Qed.

Lemma oinit_inv n term : OInv (oinit n term).
Proof.
  constructor; unfold oinit; oc; cbn; auto; try discriminate.
  - apply qinv0.
  - split; [reflexivity | lia].
Qed.
Lemma orun_inv acts : forall c, OInv c -> OInv (orun acts c).
Proof. induction acts as [|a acts IH]; intros c I; cbn [orun fold_left]; auto. apply IH. now apply ostep_inv. Qed.

(* ------------------------------------------------------------------ what the subscriber sees *)
Lemma ostep_len c a : OInv c -> length (o_log c) <= length (q_started (o_q c)) ->
  length (o_log (ostep c a)) <= length (q_started (o_q (ostep c a))).
Proof.
  intros I L. destruct a as [|w| | |]; unfold ostep.
  - destruct (Nat.ltb (o_next c) (o_n c)); auto.
  - destruct w; auto; oc; cbn [qstep]; destruct (q_worker (o_q c)); auto; destruct (q_abort (o_q c)); auto; destruct (q_queue (o_q c)); auto.
    cbn [q_started]. rewrite app_length. lia.
  - destruct (q_worker (o_q c)) eqn:R; auto. destruct (o_tpc c) eqn:T; auto. oc. destruct (o_open c) eqn:O; auto.
    destruct (ov_open c I O) as (A & _). rewrite T in A. cbv beta iota in A. pose proof (qi_one _ (ov_q c I)) as ONE. rewrite R in ONE. cbn [running] in ONE.
    rewrite A, ONE. lia.
  - destruct (q_worker (o_q c)) eqn:R; auto. destruct (o_tpc c) eqn:T; auto. oc.
    destruct (o_open c); cbn [qstep q_worker q_started]; rewrite ?R; cbn [notified q_started]; rewrite ?R; exact L.
  - destruct (o_unsub c); auto.
Qed.

Lemma orun_len acts : forall c, OInv c -> length (o_log c) <= length (q_started (o_q c)) ->
  length (o_log (orun acts c)) <= length (q_started (o_q (orun acts c))).
Proof.
  induction acts as [|a acts IH]; intros c I L; cbn [orun fold_left]; auto. apply IH; [now apply ostep_inv | now apply ostep_len].
Qed.

Lemma ostep_n c a : o_n (ostep c a) = o_n c /\ o_term (ostep c a) = o_term c.
Proof.
  destruct a as [|w| | |]; unfold ostep.
  - destruct (Nat.ltb _ _); auto.
  - destruct w; auto.
  - destruct (q_worker (o_q c)); auto. destruct (o_tpc c); auto.
  - destruct (q_worker (o_q c)); auto. destruct (o_tpc c); auto.
  - destruct (o_unsub c); auto.
Qed.
Lemma orun_n acts : forall c, o_n (orun acts c) = o_n c /\ o_term (orun acts c) = o_term c.
Proof.
  induction acts as [|a acts IH]; intro c; cbn [orun fold_left]; auto. fold (orun acts (ostep c a)).
  destruct (IH (ostep c a)) as [A B]. destruct (ostep_n c a) as [A' B']. split; congruence.
Qed.

(* for EVERY interleaving of the emitting thread, the worker and an unsubscribing thread: the subscriber has received
   events 0 .. m-1 of the source, in the source's order, each once (m <= the number emitted so far); the tasks run
   one at a time on the worker; what was posted is started, discarded by the abort or still queued, in order *)
Theorem observe_on_prefix n term acts :
  let c := orun acts (oinit n term) in
  o_log c = seq 0 (length (o_log c)) /\ length (o_log c) <= o_next c /\ o_next c <= n /\
  q_posted (o_q c) = seq 0 (o_next c) /\
  q_posted (o_q c) = q_started (o_q c) ++ q_discarded (o_q c) ++ q_queue (o_q c) /\
  q_started (o_q c) = q_finished (o_q c) ++ running (q_worker (o_q c)).
Proof.
  intro c. assert (I : OInv c) by (apply orun_inv, oinit_inv).
  assert (N : o_n c = n) by (unfold c; now rewrite (proj1 (orun_n acts (oinit n term)))).
  destruct (ov_posted c I) as [P LE].
  pose proof (orun_len acts (oinit n term) (oinit_inv n term) (Nat.le_0_l _)) as LL. fold c in LL.
  split; [apply (ov_log c I)|]. split.
  - pose proof (qi_acct _ (ov_q c I)) as A. apply (f_equal (@length nat)) in A. rewrite P, seq_length, !app_length in A. lia.
  - split; [lia|]. split; [exact P|]. split; [apply (qi_acct _ (ov_q c I)) | apply (qi_one _ (ov_q c I))].
Qed.

(* without an unsubscribe: when nothing can move any more the subscriber has received EVERY event of the source *)
Theorem observe_on_complete n term acts :
  let c := orun acts (oinit n term) in
  o_unsub c = false -> (forall a, ostep c a = c) -> o_log c = seq 0 n.
Proof.
  intros c U Q. assert (I : OInv c) by (apply orun_inv, oinit_inv).
  assert (N : o_n c = n) by (unfold c; now rewrite (proj1 (orun_n acts (oinit n term)))).
  destruct (o_open c) eqn:O; [|rewrite <- N; now apply (ov_closed c I U O)].
  destruct (ov_open c I O) as (A & B & _). destruct (ov_posted c I) as [P LE].
  pose proof (ov_q c I) as QI.
  (* the emitter has finished *)
  assert (NX : o_next c = n).
  { destruct (Nat.ltb (o_next c) (o_n c)) eqn:LT; [|apply Nat.ltb_ge in LT; lia].
    pose proof (Q OEmit) as E. unfold ostep in E. rewrite LT in E. apply (f_equal o_next) in E. cbn [o_next] in E. lia. }
  destruct (q_worker (o_q c)) eqn:W.
  - exfalso. pose proof (Q (OWorker QCheck)) as E. unfold ostep in E. apply (f_equal (fun x => q_worker (o_q x))) in E. cbn [set_q o_q] in E.
    unfold qstep in E. rewrite W, B in E. destruct (q_queue (o_q c)); cbn [q_worker] in E; discriminate.
  - destruct (qi_nolost _ QI W) as [QE _]. pose proof (qi_nodisc _ QI B) as DE. pose proof (qi_acct _ QI) as AC. pose proof (qi_one _ QI) as ONE.
    rewrite W in ONE. cbn [running] in ONE. rewrite QE, DE, !app_nil_r in AC. rewrite app_nil_r in ONE.
    assert (T : o_tpc c = OStart) by (apply (ov_tpc c I); rewrite W; intros x E; discriminate).
    rewrite T in A. rewrite A, <- ONE, <- AC, P, NX. reflexivity.
  - exfalso. destruct (o_tpc c) eqn:T.
    + pose proof (Q ODeliver) as E. unfold ostep in E. rewrite W, T in E. apply (f_equal o_tpc) in E. cbn [o_tpc] in E. congruence.
    + pose proof (Q OAfter) as E. unfold ostep in E. rewrite W, T in E. apply (f_equal o_tpc) in E. cbn [o_tpc] in E. congruence.
  - pose proof (qi_exit _ QI W). congruence.
Qed.

(* once the subscriber is closed (its terminal was delivered, or unsubscribe has run) nothing is delivered any more,
   whatever the source, the worker and the queue still do *)
Lemma closed_step c a : o_open c = false -> o_open (ostep c a) = false /\ o_log (ostep c a) = o_log c.
Proof.
  intro O. destruct a as [|w| | |]; unfold ostep.
  - destruct (Nat.ltb _ _); auto.
  - destruct w; auto.
  - destruct (q_worker (o_q c)); auto. destruct (o_tpc c); auto. oc. now rewrite O.
  - destruct (q_worker (o_q c)); auto. destruct (o_tpc c); auto.
  - destruct (o_unsub c); auto.
Qed.
Theorem nothing_after_close acts : forall c, o_open c = false -> o_log (orun acts c) = o_log c.
Proof.
  induction acts as [|a acts IH]; intros c O; cbn [orun fold_left]; auto. fold (orun acts (ostep c a)).
  destruct (closed_step c a O) as [O' L]. now rewrite IH, L.
Qed.
Theorem unsubscribe_closes c : o_open (ostep c OUnsub) = false \/ o_unsub c = true.
Proof. unfold ostep. destruct (o_unsub c); auto. Qed.

(* ------------------------------------------------------------------ C15: the worker of an ended subscription exits *)
Definition ClosedAborts (c : ocfg) : Prop :=
  o_open c = false -> q_abort (o_q c) = true \/ (exists t, q_worker (o_q c) = WRunning t /\ o_tpc c = ODelivered).

Lemma closed_aborts_step c a : ClosedAborts c -> ClosedAborts (ostep c a).
Proof.
  intros H. destruct a as [|w| | |]; unfold ostep, ClosedAborts in *.
  - destruct (Nat.ltb (o_next c) (o_n c)); try exact H. oc. intro O. destruct (qpost_facts (o_q c) (o_next c)) as (_ & _ & A1 & _ & _ & R1).
    destruct (H O) as [A|(t & R & T)]; [left; now rewrite A1 | right; exists t; split; auto].
  - destruct w; try exact H; oc; intro O; (destruct (H O) as [A|(t & R & T)]; [left | right; exists t; cbn [qstep]; rewrite R; auto]).
    + cbn [qstep]. destruct (q_worker (o_q c)); auto. rewrite A. reflexivity.
    + cbn [qstep]. destruct (q_worker (o_q c)); auto.
  - destruct (q_worker (o_q c)) as [| |t0|] eqn:R in |- *; try exact H. destruct (o_tpc c) eqn:T in |- *; try exact H. oc. intro O. destruct (o_open c) eqn:OP.
    + right. exists t0. auto.
    + destruct (H eq_refl) as [A|(t' & _ & T')]; [now left | congruence].
  - destruct (q_worker (o_q c)) as [| |t0|] eqn:R in |- *; try exact H. destruct (o_tpc c) eqn:T in |- *; try exact H. oc. intro O. rewrite O. left.
    cbn [qstep q_worker q_abort notified]. rewrite R. reflexivity.
  - destruct (o_unsub c); try exact H. oc. intros _. left. reflexivity.
Qed.
Lemma closed_aborts_run acts : forall c, ClosedAborts c -> ClosedAborts (orun acts c).
Proof. induction acts as [|a acts IH]; intros c H; cbn [orun fold_left]; auto. apply IH. now apply closed_aborts_step. Qed.

(* when nothing can move any more and the subscription has ended - by its terminal or by unsubscribe - the
   scheduler's worker thread has exited *)
Theorem observe_on_worker_exits n term acts :
  let c := orun acts (oinit n term) in
  o_open c = false -> (forall a, ostep c a = c) -> q_worker (o_q c) = WExited.
Proof.
  intros c O Q. assert (I : OInv c) by (apply orun_inv, oinit_inv).
  assert (CA : ClosedAborts c) by (apply closed_aborts_run; intro H; discriminate H).
  pose proof (ov_q c I) as QI.
  destruct (q_worker (o_q c)) eqn:W; auto; exfalso.
  - (* idle: its next check would change the state *)
    destruct (CA O) as [A|(t & R & _)]; [|congruence].
    pose proof (Q (OWorker QCheck)) as E. unfold ostep in E. apply (f_equal (fun x => q_worker (o_q x))) in E. cbn [set_q o_q] in E.
    unfold qstep in E. rewrite W, A in E. cbn [q_worker] in E. discriminate.
  - destruct (qi_nolost _ QI W) as [_ A]. destruct (CA O) as [A'|(t & R & _)]; congruence.
  - destruct (o_tpc c) eqn:T.
    + pose proof (Q ODeliver) as E. unfold ostep in E. rewrite W, T in E. apply (f_equal o_tpc) in E. cbn [o_tpc] in E. congruence.
    + pose proof (Q OAfter) as E. unfold ostep in E. rewrite W, T in E. apply (f_equal o_tpc) in E. cbn [o_tpc] in E. congruence.
Qed.
