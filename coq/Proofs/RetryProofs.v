(* C04: retry / retry_when resubscribe exactly as often as their argument allows and forward the items of
   every attempt in order; errors pass unchanged through every operator that is not an error handler;
   dematerialize inverts materialize. *)
From Coq Require Import List ZArith Bool Arith Lia.
From RX Require Import Val Syntax Step Spec RetryLoc.
Import ListNotations.
Arguments Nat.ltb : simpl never.
Arguments Nat.leb : simpl never.
Arguments Nat.eqb : simpl never.

Lemma rfeed_retry n st xs en :
  rfeed (ORetry n) st (events (xs, en)) =
  (map Nx xs ++ match en with
                | Completes => [Co]
                | Fails e => if Nat.eqb n 0 || Nat.ltb (st_cnt st) n then [] else [Er e]
                | Silent => []
                end,
   match en with
   | Completes => RDone
   | Fails e => if Nat.eqb n 0 || Nat.ltb (st_cnt st) n then RResub (st_set_cnt st (S (st_cnt st))) else RDone
   | Silent => RSilent st
   end).
Proof.
  unfold events. cbn [fst snd]. induction xs as [|x xs IH]; cbn [map app].
  - destruct en as [|e|]; cbn [rfeed handler fwd dflt_err dflt_comp app]; auto.
    destruct (Nat.eqb n 0 || Nat.ltb (st_cnt st) n); reflexivity.
  - cbn [rfeed handler fwd]. rewrite IH. reflexivity.
Qed.

Theorem retry_correct n : forall (attempts : list sout) st,
  rrun (ORetry n) st (map events attempts) = spec_attempts (retry_budget n) (st_cnt st) attempts.
Proof.
  induction attempts as [|[xs en] rest IH]; intro st; cbn [map rrun spec_attempts]; auto.
  rewrite rfeed_retry. unfold retry_budget at 1.
  destruct en as [|e|]; cbn [fst snd]; try (rewrite ?app_nil_r; reflexivity).
  destruct (Nat.eqb n 0 || Nat.ltb (st_cnt st) n).
  - rewrite IH. cbn [st_cnt st_set_cnt]. destruct (spec_attempts (retry_budget n) (S (st_cnt st)) rest) as [o m].
    now rewrite app_nil_r.
  - reflexivity.
Qed.

Corollary retry_spec n attempts : retry_run n (map events attempts) = spec_retry n attempts.
Proof. unfold retry_run, spec_retry. now rewrite retry_correct. Qed.

Lemma rfeed_retry_when p st xs en :
  rfeed (ORetryWhen p) st (events (xs, en)) =
  (map Nx xs ++ match en with Completes => [Co] | Fails e => if appe p e then [] else [Er e] | Silent => [] end,
   match en with Completes => RDone | Fails e => if appe p e then RResub st else RDone | Silent => RSilent st end).
Proof.
  unfold events. cbn [fst snd]. induction xs as [|x xs IH]; cbn [map app].
  - destruct en as [|e|]; cbn [rfeed handler fwd dflt_err dflt_comp app]; auto. destruct (appe p e); reflexivity.
  - cbn [rfeed handler fwd]. rewrite IH. reflexivity.
Qed.

Theorem retry_when_correct p : forall (attempts : list sout) st k,
  rrun (ORetryWhen p) st (map events attempts) = spec_attempts (fun _ e => appe p e) k attempts.
Proof.
  induction attempts as [|[xs en] rest IH]; intros st k; cbn [map rrun spec_attempts]; auto.
  rewrite rfeed_retry_when.
  destruct en as [|e|]; cbn [fst snd]; try (rewrite ?app_nil_r; reflexivity).
  destruct (appe p e).
  - rewrite (IH st (S k)). destruct (spec_attempts (fun _ e0 => appe p e0) (S k) rest) as [o m]. now rewrite app_nil_r.
  - reflexivity.
Qed.

(* ------------------------------------------------------------------ errors pass unchanged *)
(* error handlers of the crate: contains (pinned by its own test), materialize, retry, retry_when, on_error_resume_next;
   the trigger port (0) of take_until / skip_until / sample ignores the trigger's terminal; a loser of amb is dropped *)
Definition error_handler (op : opk) (port : nat) : bool :=
  match op with
  | OContains _ | OMaterialize | ORetry _ | ORetryWhen _ | OAmb => true
  | OResume => Nat.eqb port 0
  | OTakeUntil | OSkipUntil | OSample => Nat.eqb port 0
  | _ => false
  end.

(* actions that sink nothing downstream and touch no upstream *)
Fixpoint quiet (a : act) : bool :=
  match a with
  | ASubjCall _ _ | ADeliver _ _ | ASetFlag _ => true
  | AWith _ body => (fix go (l : list act) : bool := match l with [] => true | x :: r => quiet x && go r end) body
  | _ => false
  end.

Lemma quiet_subjcalls (f : Z * hid -> ev) l : forallb quiet (map (fun g => ASubjCall (snd g) (f g)) l) = true.
Proof. induction l; cbn; auto. Qed.
Lemma quiet_with_subjcalls m (f : Z * hid -> ev) l : quiet (AWith m (map (fun g => ASubjCall (snd g) (f g)) l)) = true.
Proof. cbn. induction l; cbn; auto. Qed.

(* every other handler, in every state, answers an upstream error with side effects on its own window / group
   subjects or its tap observer only, followed by exactly one sink_error carrying the SAME payload *)
Theorem error_passthrough op src others st port ser fresh x :
  error_handler op port = false ->
  exists pre, snd (handler op src others st port ser fresh (Er x)) = pre ++ [SinkError x] /\ forallb quiet pre = true.
Proof.
  intro NH.
  destruct op; cbn in NH; try discriminate; unfold handler, fwd, dflt_err; try (destruct port; try discriminate);
    first [ exists []; split; reflexivity
          | exists [ASubjCall (st_subj st) (Er x)]; split; reflexivity
          | exists [ADeliver (st_aux st) (Er x)]; split; reflexivity
          | exists [AWith MR (map (fun g => ASubjCall (snd g) (Er x)) (st_groups st))]; split;
            [reflexivity | cbn [forallb]; rewrite quiet_with_subjcalls; reflexivity] ].
Qed.

(* ------------------------------------------------------------------ dematerialize inverts materialize *)
Definition plain (v : val) : bool := match v with VMatN _ | VMatE _ | VMatC => false | _ => true end.

Lemma demat_mat xs en :
  demat (map VMatN xs ++ match en with Completes => [VMatC] | Fails e => [VMatE e] | Silent => [] end)
        (match en with Silent => Silent | _ => Completes end) = (xs, en).
Proof.
  induction xs as [|x xs IH]; cbn [map app demat].
  - destruct en; reflexivity.
  - rewrite IH. reflexivity.
Qed.

Theorem dematerialize_materialize i : spec_op ODematerialize (spec_op OMaterialize i) = i.
Proof.
  destruct i as [xs en]. cbn [spec_op].
  destruct en as [|e|]; cbn [spec_op].
  - apply (demat_mat xs Completes).
  - apply (demat_mat xs (Fails e)).
  - pose proof (demat_mat xs Silent) as H. now rewrite app_nil_r in H.
Qed.
