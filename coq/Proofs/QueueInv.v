(* C08: invariants of the scheduler queue for EVERY trace (any number of clients, any operations, any
   interleaving with the worker's steps, spurious wake-ups included). *)
From Coq Require Import List Bool Arith Lia.
From RX Require Import ConcQueue.
Import ListNotations.

Record QInv (s : qst) : Prop := {
  qi_nolost : q_worker s = WWaiting -> q_queue s = [] /\ q_abort s = false;
  qi_acct : q_posted s = q_started s ++ q_discarded s ++ q_queue s;
  qi_nodisc : q_abort s = false -> q_discarded s = [];
  qi_one : q_started s = q_finished s ++ running (q_worker s);
  qi_exit : q_worker s = WExited -> q_abort s = true }.

Lemma qinv0 : QInv q0.
Proof. constructor; cbn; auto; discriminate. Qed.

Lemma qstep_inv s o : QInv s -> QInv (qstep s o).
Proof.
  intros I0. pose proof I0 as [NL AC ND ON EX]. destruct o as [t | | | |]; cbn [qstep].
  - (* post *)
    constructor; cbn.
    + destruct (q_worker s); cbn; discriminate.
    + rewrite AC. now rewrite !app_assoc.
    + exact ND.
    + rewrite ON. destruct (q_worker s); reflexivity.
    + destruct (q_worker s) eqn:W; cbn; try discriminate; intros _; now apply EX.
  - (* stop *)
    constructor; cbn.
    + destruct (q_worker s); cbn; discriminate.
    + rewrite AC. now rewrite app_nil_r, !app_assoc.
    + discriminate.
    + rewrite ON. destruct (q_worker s); reflexivity.
    + reflexivity.
  - (* worker check *)
    destruct (q_worker s) eqn:W; try exact I0.
    destruct (q_abort s) eqn:A.
    + constructor; cbn; auto; try discriminate; try (rewrite ON, ?W; cbn; now rewrite ?app_nil_r).
    + destruct (q_queue s) as [|t r] eqn:Q.
      * constructor; cbn; auto; try discriminate; try (rewrite ON, ?W; cbn; now rewrite ?app_nil_r).
      * constructor; cbn; try discriminate.
        -- rewrite AC. rewrite (ND eq_refl). cbn. now rewrite <- app_assoc.
        -- exact ND.
        -- rewrite ON. cbn. now rewrite app_nil_r.
  - (* wake *)
    destruct (q_worker s) eqn:W; try exact I0.
    constructor; cbn; auto; try discriminate; try (rewrite ON, ?W; cbn; now rewrite ?app_nil_r).
  - (* task done *)
    destruct (q_worker s) eqn:W; try exact I0.
    constructor; cbn; auto; try discriminate; try (rewrite ON, ?W; cbn; now rewrite ?app_nil_r).
Qed.

Theorem qrun_inv ops : QInv (qrun ops).
Proof.
  unfold qrun. assert (G : forall s, QInv s -> QInv (fold_left qstep ops s)).
  { induction ops as [|o ops IH]; intros s I; cbn; auto. apply IH. now apply qstep_inv. }
  apply G. apply qinv0.
Qed.

(* after stop no further task is ever taken from the queue *)
Lemma no_start_after_abort s o : q_abort s = true -> q_started (qstep s o) = q_started s /\ q_abort (qstep s o) = true.
Proof.
  intro A. destruct o; cbn [qstep]; auto.
  - destruct (q_worker s); auto. rewrite A. auto.
  - destruct (q_worker s); auto.
  - destruct (q_worker s); auto.
Qed.
Theorem no_start_after_abort_run ops : forall s, q_abort s = true -> q_started (fold_left qstep ops s) = q_started s.
Proof.
  induction ops as [|o ops IH]; intros s A; cbn; auto.
  destruct (no_start_after_abort s o A) as [E A']. rewrite IH by exact A'. exact E.
Qed.

(* bounded liveness of the worker's own steps *)
Theorem worker_takes_front s t r :
  QInv s -> q_worker s = WIdle -> q_abort s = false -> q_queue s = t :: r ->
  q_worker (qstep s QCheck) = WRunning t /\ q_queue (qstep s QCheck) = r.
Proof. intros _ W A Q. cbn [qstep]. rewrite W, A, Q. auto. Qed.

Theorem worker_exits_after_abort s :
  q_abort s = true -> q_worker s <> WWaiting ->
  (* at most: the task in progress returns, then one check *)
  q_worker (qstep (qstep s QDone) QCheck) = WExited \/ q_worker s = WExited.
Proof.
  intros A NW. destruct (q_worker s) eqn:W; cbn [qstep]; rewrite ?W; cbn; rewrite ?A; auto. contradiction.
Qed.

(* a waiting worker is always woken by post and by stop (the notification cannot be lost) *)
Theorem post_wakes s t : q_worker s = WWaiting -> q_worker (qstep s (QPost t)) = WIdle.
Proof. intro W. cbn. now rewrite W. Qed.
Theorem stop_wakes s : q_worker s = WWaiting -> q_worker (qstep s QStop) = WIdle.
Proof. intro W. cbn. now rewrite W. Qed.

(* FIFO / at most once / every posted task accounted for, as corollaries for every trace *)
Theorem queue_accounting ops :
  let s := qrun ops in
  q_posted s = q_started s ++ q_discarded s ++ q_queue s /\
  q_started s = q_finished s ++ running (q_worker s) /\
  (q_worker s = WWaiting -> q_queue s = [] /\ q_abort s = false) /\
  (q_abort s = false -> q_discarded s = []) /\
  (q_worker s = WExited -> q_abort s = true).
Proof. cbn zeta. destruct (qrun_inv ops) as [A B C D E]. auto. Qed.

(* abort discards: right after a stop the queue is empty, and every task posted so far has been started or discarded *)
Theorem stop_discards_what_is_queued ops :
  let s := qstep (qrun ops) QStop in
  q_queue s = [] /\ forall t, In t (q_posted s) -> In t (q_started s) \/ In t (q_discarded s).
Proof.
  intro s. assert (E : s = qrun (ops ++ [QStop])) by (unfold s, qrun; rewrite fold_left_app; reflexivity).
  split; [reflexivity |]. intros t H.
  pose proof (queue_accounting (ops ++ [QStop])) as [A _]. cbv zeta in A. rewrite <- E in A.
  rewrite A in H. apply in_app_or in H. destruct H as [H | H]; [left; exact H |].
  apply in_app_or in H. destruct H as [H | H]; [right; exact H |].
  assert (Q : q_queue s = []) by reflexivity. rewrite Q in H. contradiction.
Qed.
