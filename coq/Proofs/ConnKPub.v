(* C13, publish: what the subscribers of source.publish() over a hot source see is what the reference machine of
   the definition (Oracle2.cref_step) assigns to the call history - for EVERY history in which connect() is not
   called while a connection is live (the reference flags that case, q_dbl, and claims nothing about it). *)
From Coq Require Import List ZArith Bool Arith Lia.
From RX Require Import Val Syntax Step ConnK Oracle2.
From RXP Require Import ConnKInv ConnKRef.
Import ListNotations.

Record PbRel (s : ck) (r : cref) : Prop := {
  pr_reg : c_reg s = q_reg r;
  pr_logs : forall k, c_clogs s k = q_logs r k;
  pr_conn : if q_conn r
            then exists y, c_conns s = [y] /\ q_live r = Some y /\ c_used_conn s y = false /\ c_nsrc s = 1
            else c_conns s = [] /\ c_nsrc s = 0;
  pr_nodup : NoDup (c_reg s);
  pr_alive : forall k, In k (c_reg s) -> c_alive s k = true /\ c_unsub s k = true;
  pr_used : forall k, c_unsub s k = true -> c_usedh s k = true;
  pr_dbl : q_dbl r = false }.

Lemma q_deliver_rest es l : forall r,
  let r' := fold_left (fun acc k => q_add_log acc k es) l r in
  q_reg r' = q_reg r /\ q_conn r' = q_conn r /\ q_dbl r' = q_dbl r /\ q_live r' = q_live r.
Proof. intro r. destruct (q_deliver_spec es l r) as (_ & A & B & _ & _ & C & D). auto. Qed.

Lemma pb_sim s r a :
  PbRel s r -> (forall k p rs, a = DSub k p rs -> c_usedh s k = false) ->
  q_dbl (cref_step CPublish None r a) = false ->
  PbRel (ck_step CPublish s a) (cref_step CPublish None r a).
Proof.
  intros R FRESH NDBL.
  destruct a as [k p rs | k | h e | k x | x | sm em]; cbn [ck_step cref_step] in *; try exact R.
  - (* subscribe *)
    rewrite (FRESH k p rs eq_refl) in *.
    assert (NI : ~ In k (c_reg s)).
    { intro H. destruct (pr_alive s r R k H) as [_ U]. apply (pr_used s r R) in U. rewrite (FRESH k p rs eq_refl) in U. discriminate. }
    constructor; cbn.
    + now rewrite (pr_reg s r R).
    + apply (pr_logs s r R).
    + apply (pr_conn s r R).
    + apply nodup_snoc_ck; [apply (pr_nodup s r R) | exact NI].
    + intros j Hj. apply in_app_iff in Hj. destruct Hj as [Hj|[<-|[]]].
      * destruct (pr_alive s r R j Hj) as [A B]. split; cu j k.
      * split; unfold cupd; now rewrite Nat.eqb_refl.
    + intros j. unfold cupd. destruct (Nat.eqb j k) eqn:EQ; auto. apply (pr_used s r R).
    + apply (pr_dbl s r R).
  - (* unsubscribe *)
    destruct (c_unsub s k) eqn:U.
    + constructor; cbn.
      * now rewrite (pr_reg s r R).
      * apply (pr_logs s r R).
      * apply (pr_conn s r R).
      * apply NoDup_filter, (pr_nodup s r R).
      * intros j Hj. apply filter_in_neq in Hj. destruct Hj as [A B]. destruct (pr_alive s r R j A) as [C D]. unfold cupd. apply Nat.eqb_neq in B. now rewrite B.
      * intro j. unfold cupd. destruct (Nat.eqb j k); [discriminate | apply (pr_used s r R)].
      * apply (pr_dbl s r R).
    + assert (NI : ~ In k (c_reg s)). { intro H. destruct (pr_alive s r R k H) as [_ X]. congruence. }
      rewrite <- (pr_reg s r R), (filter_neq_notin k _ NI).
      constructor; cbn; try reflexivity; try apply R.
  - (* the source emits *)
    pose proof (pr_conn s r R) as CN. unfold q_source_ev. destruct (q_conn r) eqn:QC.
    + destruct CN as (y & CY & LV & UC & N1). rewrite N1. cbn [seq fold_left]. unfold ck_feed, q_deliver.
      assert (QD : forall es j, q_logs (fold_left (fun acc k => q_add_log acc k es) (q_reg r) r) j = if existsb (Nat.eqb j) (q_reg r) then q_logs r j ++ es else q_logs r j).
      { intros es j. apply (q_deliver_spec es (q_reg r) r). rewrite <- (pr_reg s r R). apply (pr_nodup s r R). }
      assert (QR : forall es, let r' := fold_left (fun acc k => q_add_log acc k es) (q_reg r) r in
                              q_reg r' = q_reg r /\ q_conn r' = q_conn r /\ q_dbl r' = q_dbl r /\ q_live r' = q_live r) by (intro es; apply q_deliver_rest).
      destruct e as [v|x|]; cbn [is_term] in *.
      * unfold ck_broadcast. cbn [is_term].
        destruct (fold_deliver_spec (Nx v) (c_reg s) s (pr_nodup s r R) (fun k H => proj1 (pr_alive s r R k H))) as (A & B & C & D & _ & _ & G).
        destruct (sc_fold_deliver (Nx v) (c_reg s) s) as (S1 & S2 & S3 & S4 & S5).
        destruct (QR [Nx v]) as (Q1 & Q2 & Q3 & Q4).
        cbn zeta in *. constructor; cbn.
        -- rewrite S1, Q1. apply (pr_reg s r R).
        -- intro j. rewrite A, QD, <- (pr_reg s r R), (pr_logs s r R). reflexivity.
        -- exists y. rewrite S4, S5, G, Q4. auto.
        -- rewrite S1. apply (pr_nodup s r R).
        -- intros j Hj. rewrite S1 in Hj. rewrite B, D. cbn [is_term andb]. apply (pr_alive s r R j Hj).
        -- intro j. rewrite C, D. apply (pr_used s r R).
        -- rewrite Q3. apply (pr_dbl s r R).
      * unfold ck_broadcast. cbn [is_term].
        match goal with |- PbRel (fold_left _ _ ?s2') _ => set (s2 := s2') end.
        assert (AL2 : forall k, In k (c_reg s) -> c_alive s2 k = true) by (intros k H; apply (pr_alive s r R k H)).
        change (c_reg {| c_reg := c_reg s; c_usedh := c_usedh s; c_alive := c_alive s; c_unsub := c_unsub s; c_slotc := c_slotc s; c_slot_live := false;
                          c_conns := []; c_used_conn := c_used_conn s; c_nsrc := 0; c_items := c_items s; c_term := c_term s; c_clogs := c_clogs s |}) with (c_reg s).
        destruct (fold_deliver_spec (Er x) (c_reg s) s2 (pr_nodup s r R) AL2) as (A & B & C & D & _ & _ & G).
        destruct (sc_fold_deliver (Er x) (c_reg s) s2) as (S1 & S2 & S3 & S4 & S5).
        destruct (QR [Er x]) as (Q1 & Q2 & Q3 & Q4).
        cbn zeta in *. constructor; cbn.
        -- now rewrite S1.
        -- intro j. rewrite A, QD, <- (pr_reg s r R). unfold s2. cbn. rewrite (pr_logs s r R). reflexivity.
        -- rewrite S4, S5. auto.
        -- rewrite S1. constructor.
        -- intros j Hj. rewrite S1 in Hj. destruct Hj.
        -- intro j. rewrite C, D. unfold s2. cbn. apply (pr_used s r R).
        -- rewrite Q3. apply (pr_dbl s r R).
      * unfold ck_broadcast. cbn [is_term].
        match goal with |- PbRel (fold_left _ _ ?s2') _ => set (s2 := s2') end.
        assert (AL2 : forall k, In k (c_reg s) -> c_alive s2 k = true) by (intros k H; apply (pr_alive s r R k H)).
        change (c_reg {| c_reg := c_reg s; c_usedh := c_usedh s; c_alive := c_alive s; c_unsub := c_unsub s; c_slotc := c_slotc s; c_slot_live := false;
                          c_conns := []; c_used_conn := c_used_conn s; c_nsrc := 0; c_items := c_items s; c_term := c_term s; c_clogs := c_clogs s |}) with (c_reg s).
        destruct (fold_deliver_spec Co (c_reg s) s2 (pr_nodup s r R) AL2) as (A & B & C & D & _ & _ & G).
        destruct (sc_fold_deliver Co (c_reg s) s2) as (S1 & S2 & S3 & S4 & S5).
        destruct (QR [Co]) as (Q1 & Q2 & Q3 & Q4).
        cbn zeta in *. constructor; cbn.
        -- now rewrite S1.
        -- intro j. rewrite A, QD, <- (pr_reg s r R). unfold s2. cbn. rewrite (pr_logs s r R). reflexivity.
        -- rewrite S4, S5. auto.
        -- rewrite S1. constructor.
        -- intros j Hj. rewrite S1 in Hj. destruct Hj.
        -- intro j. rewrite C, D. unfold s2. cbn. apply (pr_used s r R).
        -- rewrite Q3. apply (pr_dbl s r R).
    + destruct CN as (CE & N0). rewrite N0. cbn [seq fold_left].
      destruct (is_term e); [| exact R].
      constructor; cbn; try apply R. rewrite QC. auto.
  - (* connect *)
    pose proof (pr_conn s r R) as CN. unfold q_connect, q_set_live in *. cbn in NDBL.
    rewrite (pr_dbl s r R) in NDBL. cbn [orb] in NDBL. rewrite NDBL in CN. destruct CN as (CE & N0).
    constructor; cbn; try apply R.
    + exists x. rewrite CE, N0. cbn. unfold cupd. rewrite Nat.eqb_refl. auto.
    + rewrite (pr_dbl s r R), NDBL. reflexivity.
  - (* disconnect *)
    pose proof (pr_conn s r R) as CN.
    destruct (q_live r) as [y|] eqn:LV.
    + destruct (Nat.eqb x y) eqn:XY.
      * apply Nat.eqb_eq in XY. subst y. destruct (q_conn r) eqn:QC.
        -- destruct CN as (y & CY & LY & UC & N1). injection LY as E; subst y.
           rewrite UC, CY. cbn [existsb]. rewrite Nat.eqb_refl. cbn [orb].
           constructor; cbn; try apply R. rewrite Nat.eqb_refl, N1. auto.
        -- destruct CN as (CE & N0). rewrite CE. cbn [existsb].
           assert (E : (if c_used_conn s x then s else s) = s) by (destruct (c_used_conn s x); reflexivity). rewrite E.
           constructor; cbn; try apply R. auto.
      * destruct (q_conn r) eqn:QC.
        -- destruct CN as (y' & CY & LY & UC & N1). injection LY as E; subst y'. rewrite CY. cbn [existsb]. rewrite XY. cbn [orb].
           assert (E : (if c_used_conn s x then s else s) = s) by (destruct (c_used_conn s x); reflexivity). rewrite E. exact R.
        -- destruct CN as (CE & N0). rewrite CE. cbn [existsb].
           assert (E : (if c_used_conn s x then s else s) = s) by (destruct (c_used_conn s x); reflexivity). rewrite E. exact R.
    + destruct (q_conn r) eqn:QC.
      * destruct CN as (y & _ & LY & _). congruence.
      * destruct CN as (CE & N0). rewrite CE. cbn [existsb].
        assert (E : (if c_used_conn s x then s else s) = s) by (destruct (c_used_conn s x); reflexivity). rewrite E. exact R.
Qed.

(* q_dbl is sticky *)
Lemma q_deliver_dbl es l r : q_dbl (fold_left (fun acc k => q_add_log acc k es) l r) = q_dbl r.
Proof. apply (q_deliver_rest es l r). Qed.
Lemma dbl_sticky kind r a : q_dbl r = true -> q_dbl (cref_step kind None r a) = true.
Proof.
  intro D. destruct a as [k p rs | k | h e | k x | x | sm em]; cbn [cref_step]; auto.
  - destruct kind; cbn; auto.
    + destruct (q_conn r); cbn; auto. now rewrite D.
    + destruct (q_term r); cbn; auto. destruct (q_conn r); cbn; auto. now rewrite D.
  - destruct kind; cbn; auto.
  - unfold q_source_ev. destruct (q_conn r); auto. destruct e; cbn; unfold q_deliver; now rewrite q_deliver_dbl.
  - destruct kind; cbn; auto. now rewrite D.
  - destruct kind; cbn; auto. destruct (q_live r); auto. destruct (Nat.eqb x n); cbn; auto.
Qed.
Lemma dbl_sticky_run kind script : forall r, q_dbl r = true -> q_dbl (fold_left (cref_step kind None) script r) = true.
Proof. induction script as [|a script IH]; intros r D; cbn [fold_left]; auto. apply IH. now apply dbl_sticky. Qed.

Lemma pb_sim_run script : forall s r,
  PbRel s r -> (forall k, In k (sub_handles script) -> c_usedh s k = false) -> NoDup (sub_handles script) ->
  q_dbl (fold_left (cref_step CPublish None) script r) = false ->
  PbRel (fold_left (ck_step CPublish) script s) (fold_left (cref_step CPublish None) script r).
Proof.
  induction script as [|a script IH]; intros s r R FR ND NDBL; cbn [fold_left] in *; auto.
  rewrite sub_handles_cons in FR, ND.
  assert (D1 : q_dbl (cref_step CPublish None r a) = false).
  { destruct (q_dbl (cref_step CPublish None r a)) eqn:D; auto. rewrite (dbl_sticky_run CPublish script _ D) in NDBL. discriminate. }
  apply IH; auto.
  - apply pb_sim; auto. intros k p rs ->. apply FR. cbn. now left.
  - intros k Hk. destruct (c_usedh (ck_step CPublish s a) k) eqn:U; auto. exfalso.
    apply usedh_step in U. destruct U as [U | (p & rs & ->)].
    + rewrite FR in U; [discriminate | apply in_or_app; now right].
    + cbn [app] in ND. inversion ND; subst. contradiction.
  - destruct a; cbn [app] in ND; auto. now inversion ND.
Qed.

Lemma pb_rel0 : PbRel ck0 cref0.
Proof. constructor; cbn; auto; try (now constructor); try (intros k []); try discriminate. Qed.

Theorem publish_refines_reference script :
  NoDup (sub_handles script) ->
  let s := fold_left (ck_step CPublish) script ck0 in
  let r := fold_left (cref_step CPublish None) script cref0 in
  q_dbl r = false ->
  (forall k, c_clogs s k = q_logs r k) /\ c_reg s = q_reg r /\ c_nsrc s = (if q_conn r then 1 else 0).
Proof.
  intros ND s r NDBL. assert (R : PbRel s r) by (apply pb_sim_run; [apply pb_rel0 | reflexivity | exact ND | exact NDBL]).
  split; [apply (pr_logs s r R)|]. split; [apply (pr_reg s r R)|].
  pose proof (pr_conn s r R) as CN. destruct (q_conn r); [destruct CN as (y & _ & _ & _ & N) | destruct CN as (_ & N)]; exact N.
Qed.
