(* C09: subscribe_on runs the source's emissions on the scheduler's thread and loses nothing. *)
From Coq Require Import List Bool Arith Lia.
From RX Require Import ConcQueue ConcSubscribeOn.
From RXP Require Import QueueInv.
Import ListNotations.
Arguments Nat.ltb : simpl never.
Arguments Nat.eqb : simpl never.

Ltac bc := cbn [b_n b_term b_q b_k b_open b_unsub b_log].

Record BInv (c : bcfg) : Prop := {
  bv_q : QInv (b_q c);
  bv_posted : q_posted (b_q c) = [0];
  bv_k : b_k c <= b_n c;
  bv_idle : (forall t, q_worker (b_q c) <> WRunning t) -> q_finished (b_q c) = [] -> b_k c = 0;
  bv_open : b_open c = true -> b_log c = seq 0 (b_k c) /\ q_abort (b_q c) = false /\ b_unsub c = false;
  bv_log : b_log c = seq 0 (length (b_log c)) /\ length (b_log c) <= b_k c;
  bv_closed : b_unsub c = false -> b_open c = false -> b_term c = true /\ b_log c = seq 0 (b_n c) /\ q_abort (b_q c) = true }.

Lemma binit_inv n term : BInv (binit n term).
Proof.
  constructor; unfold binit; bc; cbn; auto; try discriminate; try lia.
  - apply (qstep_inv q0 (QPost 0)), qinv0.
Qed.

Lemma qstop_keeps s : q_posted (qstep s QStop) = q_posted s /\ q_finished (qstep s QStop) = q_finished s /\ q_abort (qstep s QStop) = true /\
  (forall t, q_worker s = WRunning t -> q_worker (qstep s QStop) = WRunning t) /\
  ((forall t, q_worker (qstep s QStop) <> WRunning t) -> (forall t, q_worker s <> WRunning t)).
Proof.
  cbn [qstep q_posted q_finished q_abort q_worker]. repeat split; auto.
  - intros t H. rewrite H. reflexivity.
  - intros H t E. apply (H t). rewrite E. reflexivity.
Qed.

Ltac bkeep c I := first [exact (bv_k c I) | exact (bv_log c I) | exact (bv_open c I) | exact (bv_closed c I) | exact (bv_posted c I) | exact (bv_idle c I)].

Lemma bstep_inv c a : BInv c -> BInv (bstep c a).
Proof.
  intro I. pose proof (bv_q c I) as QI. destruct a as [w| | |]; unfold bstep.
  - (* worker steps *)
    assert (KEEP : forall w', (w' = QCheck \/ w' = QWake) ->
              q_posted (qstep (b_q c) w') = q_posted (b_q c) /\ q_finished (qstep (b_q c) w') = q_finished (b_q c) /\ q_abort (qstep (b_q c) w') = q_abort (b_q c) /\
              ((forall t, q_worker (qstep (b_q c) w') <> WRunning t) -> (forall t, q_worker (b_q c) <> WRunning t))).
    { intros w' Hw. assert (RUN : forall x, q_worker (b_q c) = WRunning x -> q_worker (qstep (b_q c) w') = WRunning x).
      { intros x E. destruct Hw as [-> | ->]; cbn [qstep]; rewrite E; exact E. }
      assert (REST : q_posted (qstep (b_q c) w') = q_posted (b_q c) /\ q_finished (qstep (b_q c) w') = q_finished (b_q c) /\ q_abort (qstep (b_q c) w') = q_abort (b_q c)).
      { destruct Hw as [-> | ->]; cbn [qstep]; destruct (q_worker (b_q c)); auto; destruct (q_abort (b_q c)); auto; destruct (q_queue (b_q c)); auto. }
      destruct REST as (R1 & R2 & R3). repeat split; auto. intros H x E. apply (H x). now apply RUN. }
    destruct w; try exact I.
    + destruct (KEEP QCheck (or_introl eq_refl)) as (K1 & K2 & K3 & K4).
      constructor; bc; try bkeep c I; auto.
      * now apply qstep_inv.
      * rewrite K1. apply (bv_posted c I).
      * intros H F. rewrite K2 in F. apply (bv_idle c I); auto.
      * intro O. destruct (bv_open c I O) as (A & B & C). rewrite K3. auto.
      * intros U O. destruct (bv_closed c I U O) as (A & B & C). rewrite K3. auto.
    + destruct (KEEP QWake (or_intror eq_refl)) as (K1 & K2 & K3 & K4).
      constructor; bc; try bkeep c I; auto.
      * now apply qstep_inv.
      * rewrite K1. apply (bv_posted c I).
      * intros H F. rewrite K2 in F. apply (bv_idle c I); auto.
      * intro O. destruct (bv_open c I O) as (A & B & C). rewrite K3. auto.
      * intros U O. destruct (bv_closed c I U O) as (A & B & C). rewrite K3. auto.
  - (* the source emits inside the task *)
    destruct (q_worker (b_q c)) as [| |t0|] eqn:W; try exact I. destruct (Nat.ltb (b_k c) (b_n c)) eqn:LT; [|exact I]. apply Nat.ltb_lt in LT.
    destruct (qstop_keeps (b_q c)) as (S1 & S2 & S3 & S4 & S5).
    destruct (bv_log c I) as [L1 L2].
    destruct (b_open c) eqn:O.
    + destruct (bv_open c I O) as (A & B & C). cbn [negb orb].
      destruct (b_is_term c (b_k c)) eqn:T.
      * (* the terminal: delivered, closes, finalize aborts *)
        unfold b_is_term in T. apply andb_true_iff in T. destruct T as [TM E]. apply Nat.eqb_eq in E.
        constructor; bc; cbn [negb].
        -- now apply qstep_inv.
        -- rewrite S1. apply (bv_posted c I).
        -- lia.
        -- intros H _. exfalso. apply (S5 H t0). exact W.
        -- discriminate.
        -- rewrite A, app_length, seq_length. cbn [length]. rewrite Nat.add_1_r, seq_S. split; [reflexivity | lia].
        -- intros _ _. split; [exact TM|]. split; [|exact S3]. rewrite A, <- E, seq_S. reflexivity.
      * constructor; bc; cbn [negb].
        -- exact QI.
        -- apply (bv_posted c I).
        -- lia.
        -- intros H _. exfalso. apply (H t0). exact W.
        -- intros _. rewrite A, seq_S. auto.
        -- rewrite A, app_length, seq_length. cbn [length]. rewrite Nat.add_1_r, seq_S. split; [reflexivity | lia].
        -- discriminate.
    + cbn [negb orb]. constructor; bc.
      * now apply qstep_inv.
      * rewrite S1. apply (bv_posted c I).
      * lia.
      * intros H _. exfalso. apply (S5 H t0). exact W.
      * discriminate.
      * split; [exact L1 | lia].
      * intros U _. destruct (bv_closed c I U O) as (A & B & C). auto.
  - (* the task returns *)
    destruct (q_worker (b_q c)) as [| |t0|] eqn:W; try exact I. destruct (Nat.ltb (b_k c) (b_n c)) eqn:LT; [exact I|].
    constructor; bc; try bkeep c I; auto.
    + now apply qstep_inv.
    + cbn [qstep]. rewrite W. cbn. apply (bv_posted c I).
    + intros _ F. cbn [qstep] in F. rewrite W in F. cbn in F. destruct (q_finished (b_q c)); discriminate.
    + intro O. destruct (bv_open c I O) as (A & B & C). cbn [qstep]. rewrite W. cbn. auto.
    + intros U O. destruct (bv_closed c I U O) as (A & B & C). cbn [qstep]. rewrite W. cbn. auto.
  - (* unsubscribe *)
    destruct (b_unsub c) eqn:U; [exact I|]. destruct (qstop_keeps (b_q c)) as (S1 & S2 & S3 & S4 & S5).
    constructor; bc; try bkeep c I; auto; try discriminate.
    + now apply qstep_inv.
    + intros H F. rewrite S2 in F. apply (bv_idle c I); auto.
Qed.

Lemma brun_inv acts : forall c, BInv c -> BInv (brun acts c).
Proof. induction acts as [|a acts IH]; intros c I; cbn [brun fold_left]; auto. apply IH. now apply bstep_inv. Qed.

Lemma bstep_n c a : b_n (bstep c a) = b_n c.
Proof.
  destruct a as [w| | |]; unfold bstep; auto.
  - destruct w; auto.
  - destruct (q_worker (b_q c)); auto. destruct (Nat.ltb _ _); auto.
  - destruct (q_worker (b_q c)); auto. destruct (Nat.ltb _ _); auto.
  - destruct (b_unsub c); auto.
Qed.
Lemma brun_n acts : forall c, b_n (brun acts c) = b_n c.
Proof. induction acts as [|a acts IH]; intro c; cbn [brun fold_left]; auto. fold (brun acts (bstep c a)). now rewrite IH, bstep_n. Qed.

(* at every moment the subscriber has received events 0..m-1 of the source, in order, each once, m at most the number
   emitted; the single posted task is the only thing the worker ever runs *)
Theorem subscribe_on_prefix n term acts :
  let c := brun acts (binit n term) in
  b_log c = seq 0 (length (b_log c)) /\ length (b_log c) <= b_k c /\ b_k c <= n /\ q_posted (b_q c) = [0].
Proof.
  intro c. assert (I : BInv c) by (apply brun_inv, binit_inv).
  assert (N : b_n c = n) by (unfold c; now rewrite brun_n).
  destruct (bv_log c I) as [A B]. split; [exact A|]. split; [exact B|]. split; [rewrite <- N; apply (bv_k c I) | apply (bv_posted c I)].
Qed.

(* the task only returns after the source has emitted everything *)
Definition FinAll (c : bcfg) : Prop := q_finished (b_q c) <> [] -> b_k c = b_n c.
Lemma finall_step c a : BInv c -> FinAll c -> FinAll (bstep c a).
Proof.
  intros I F. pose proof (bv_q c I) as QI. destruct a as [w| | |]; unfold bstep, FinAll in *.
  - destruct w; auto; bc; cbn [qstep]; destruct (q_worker (b_q c)); auto; destruct (q_abort (b_q c)); auto; destruct (q_queue (b_q c)); auto.
  - destruct (q_worker (b_q c)) as [| |t0|] eqn:W; auto. destruct (Nat.ltb (b_k c) (b_n c)) eqn:LT; auto. bc.
    (* while the only task is running nothing has finished yet *)
    intro H. exfalso. apply H.
    pose proof (qi_acct _ QI) as AC. pose proof (qi_one _ QI) as ONE. rewrite W in ONE. cbn [running] in ONE. rewrite (bv_posted c I), ONE in AC.
    assert (E : q_finished (if negb (b_open c) || b_is_term c (b_k c) then qstep (b_q c) QStop else b_q c) = q_finished (b_q c)) by (destruct (negb (b_open c) || b_is_term c (b_k c)); reflexivity).
    rewrite E. destruct (q_finished (b_q c)) as [|x l]; auto. apply (f_equal (@length nat)) in AC. cbn [length app] in AC. rewrite !app_length in AC. cbn [length] in AC. lia.
  - destruct (q_worker (b_q c)) as [| |t0|] eqn:W; auto. destruct (Nat.ltb (b_k c) (b_n c)) eqn:LT; auto. bc. intros _.
    apply Nat.ltb_ge in LT. pose proof (bv_k c I). lia.
  - destruct (b_unsub c); auto.
Qed.
Lemma finall_run acts : forall c, BInv c -> FinAll c -> FinAll (brun acts c).
Proof. induction acts as [|a acts IH]; intros c I F; cbn [brun fold_left]; auto. apply IH; [now apply bstep_inv | now apply finall_step]. Qed.

(* without an unsubscribe, when nothing can move any more the subscriber has received EVERY event *)
Theorem subscribe_on_complete n term acts :
  let c := brun acts (binit n term) in
  b_unsub c = false -> (forall a, bstep c a = c) -> b_log c = seq 0 n.
Proof.
  intros c U Q. assert (I : BInv c) by (apply brun_inv, binit_inv).
  assert (N : b_n c = n) by (unfold c; now rewrite brun_n).
  destruct (b_open c) eqn:O; [|rewrite <- N; now apply (bv_closed c I U O)].
  destruct (bv_open c I O) as (A & B & _). pose proof (bv_q c I) as QI.
  destruct (q_worker (b_q c)) as [| |t0|] eqn:W.
  - exfalso. pose proof (Q (BWorker QCheck)) as E. unfold bstep in E. apply (f_equal (fun x => q_worker (b_q x))) in E. cbn [b_q] in E. unfold qstep in E. rewrite W, B in E. destruct (q_queue (b_q c)); cbn [q_worker] in E; discriminate.
  - (* waiting with an empty queue: the posted task has run, to the end *)
    destruct (qi_nolost _ QI W) as [QE _]. pose proof (qi_nodisc _ QI B) as DE. pose proof (qi_acct _ QI) as AC. pose proof (qi_one _ QI) as ONE.
    rewrite W in ONE. cbn [running] in ONE. rewrite QE, DE, !app_nil_r in AC. rewrite app_nil_r in ONE. rewrite (bv_posted c I) in AC.
    assert (FA : FinAll c) by (apply finall_run; [apply binit_inv | intro H; exfalso; apply H; reflexivity]).
    rewrite A, FA, N; [reflexivity|]. rewrite <- ONE, <- AC. discriminate.
  - exfalso. destruct (Nat.ltb (b_k c) (b_n c)) eqn:LT.
    + pose proof (Q BEmit) as E. unfold bstep in E. rewrite W, LT in E. apply (f_equal b_k) in E. cbn [b_k] in E. lia.
    + pose proof (Q BReturn) as E. unfold bstep in E. rewrite W, LT in E. apply (f_equal (fun x => q_worker (b_q x))) in E. cbn [b_q qstep] in E.
      rewrite W in E. cbn [q_worker] in E. discriminate.
  - pose proof (qi_exit _ QI W). congruence.
Qed.

(* once closed, nothing more is delivered *)
Lemma bclosed_step c a : b_open c = false -> b_open (bstep c a) = false /\ b_log (bstep c a) = b_log c.
Proof.
  intro O. destruct a as [w| | |]; unfold bstep.
  - destruct w; auto.
  - destruct (q_worker (b_q c)); auto. destruct (Nat.ltb _ _); auto. bc. now rewrite O.
  - destruct (q_worker (b_q c)); auto. destruct (Nat.ltb _ _); auto.
  - destruct (b_unsub c); auto.
Qed.
Theorem subscribe_on_nothing_after_close acts : forall c, b_open c = false -> b_log (brun acts c) = b_log c.
Proof.
  induction acts as [|a acts IH]; intros c O; cbn [brun fold_left]; auto. fold (brun acts (bstep c a)).
  destruct (bclosed_step c a O) as [O' L]. now rewrite IH, L.
Qed.
