(* C06, node level: (1) every handler of the operator catalogue is DISCIPLINED - it never makes
   sink_complete forget an upstream entry whose observer is still subscribed; (2) for any disciplined
   action list, the controller's bookkeeping keeps "every subscribed upstream observer is registered" and
   "an ended subscriber implies an empty map", hence: whenever the downstream subscriber has ended - by a
   terminal, because the operator had enough, or because the downstream left during a delivery - every
   upstream observer of the node is unsubscribed. *)
From Coq Require Import List ZArith Bool Arith Lia.
From RX Require Import Val Syntax Step Tear.
Import ListNotations.

(* ------------------------------------------------------------------ induction over nested actions *)
Fixpoint act_ind' (P : act -> Prop)
  (HIf : forall y n, Forall P y -> Forall P n -> P (IfSub y n))
  (HWith : forall m b, Forall P b -> P (AWith m b))
  (HOther : forall a, match a with IfSub _ _ | AWith _ _ => False | _ => True end -> P a)
  (a : act) {struct a} : P a :=
  match a as a0 return P a0 with
  | IfSub y n =>
      HIf y n
        ((fix go (l : list act) : Forall P l := match l with [] => Forall_nil P | x :: r => Forall_cons x (act_ind' P HIf HWith HOther x) (go r) end) y)
        ((fix go (l : list act) : Forall P l := match l with [] => Forall_nil P | x :: r => Forall_cons x (act_ind' P HIf HWith HOther x) (go r) end) n)
  | AWith m b =>
      HWith m b
        ((fix go (l : list act) : Forall P l := match l with [] => Forall_nil P | x :: r => Forall_cons x (act_ind' P HIf HWith HOther x) (go r) end) b)
  | SinkNext v => HOther (SinkNext v) I
  | SinkError e => HOther (SinkError e) I
  | SinkComplete k => HOther (SinkComplete k) I
  | SinkCompleteForce => HOther SinkCompleteForce I
  | UpAbort k => HOther (UpAbort k) I
  | Finalize => HOther Finalize I
  | AFlush l => HOther (AFlush l) I
  | ASetFlag b => HOther (ASetFlag b) I
  | ASubscribe p port => HOther (ASubscribe p port) I
  | ASubjNew k => HOther (ASubjNew k) I
  | ASubjCall h e => HOther (ASubjCall h e) I
  | ADeliver o e => HOther (ADeliver o e) I
  | AZipDrain => HOther AZipDrain I
  end.

(* the inner fixpoints of tact / disc are tacts / discs *)
Lemma tact_ifsub y n s : tact (IfSub y n) s = tacts (if tn_alive s then y else n) s.
Proof.
  cbn [tact]. generalize (if tn_alive s then y else n). intro l. revert s.
  induction l as [|a r IH]; intro s; cbn; auto.
Qed.
Lemma tact_with m b s : tact (AWith m b) s = tacts b s.
Proof. cbn [tact]. revert s. induction b as [|a r IH]; intro s; cbn; auto. Qed.
Lemma disc_with ser m b c : disc ser (AWith m b) c = discs ser b c.
Proof. cbn [disc]. revert c. induction b as [|a r IH]; intro c; cbn [discs]; auto. destruct (disc ser a c) as [ok1 c1]. rewrite IH. reflexivity. Qed.
Lemma disc_ifsub ser y n c :
  disc ser (IfSub y n) c = (fst (discs ser y c) && fst (discs ser n c), snd (discs ser y c) && snd (discs ser n c)).
Proof.
  cbn [disc].
  assert (G : forall l c0, (fix go (l : list act) (c : bool) {struct l} : bool * bool :=
                   match l with [] => (true, c) | a :: r => let '(ok1, c1) := disc ser a c in let '(ok2, c2) := go r c1 in (ok1 && ok2, c2) end) l c0 = discs ser l c0).
  { induction l as [|a r IH]; intro c0; cbn [discs]; auto. destruct (disc ser a c0) as [ok1 c1]. rewrite IH. reflexivity. }
  rewrite !G. destruct (discs ser y c), (discs ser n c). reflexivity.
Qed.

(* ------------------------------------------------------------------ the bookkeeping invariants *)
Definition J (s : tn) : Prop := forall k r u, In (k, (r, u)) (tn_es s) -> u = true -> r = true.
Definition K (s : tn) : Prop := tn_alive s = false -> forall k r u, In (k, (r, u)) (tn_es s) -> r = false.
Definition Fr (s : tn) : Prop := forall k r u, In (k, (r, u)) (tn_es s) -> k < tn_next s.
Definition Up (ser : nat) (s : tn) : Prop := forall r u, In (ser, (r, u)) (tn_es s) -> u = false.

Record G (ser : nat) (s : tn) : Prop := { g_j : J s; g_k : K s; g_fr : Fr s; g_lt : ser < tn_next s }.

Ltac gsplit := (split; [| split]); auto.

Lemma in_map_es (f : nat * (bool * bool) -> nat * (bool * bool)) (es : list (nat * (bool * bool))) (k : nat) (r u : bool) :
  In (k, (r, u)) (map f es) -> exists k0 r0 u0, In (k0, (r0, u0)) es /\ f (k0, (r0, u0)) = (k, (r, u)).
Proof. intro H. apply in_map_iff in H. destruct H as [[k0 [r0 u0]] [E I]]. eauto. Qed.

Lemma finalize_G ser s : G ser s -> G ser (finalize s) /\ Up ser (finalize s) /\ tn_next (finalize s) = tn_next s.
Proof.
  intros [Jj Kk Ff Lt]. repeat split; cbn.
  - intros k r u H. apply in_map_es in H. destruct H as (k0 & r0 & u0 & I & E). inversion E; subst.
    destruct r0; [discriminate |]. intro U. specialize (Jj _ _ _ I U). discriminate.
  - intros _ k r u H. apply in_map_es in H. destruct H as (k0 & r0 & u0 & I & E). now inversion E.
  - intros k r u H. apply in_map_es in H. destruct H as (k0 & r0 & u0 & I & E). inversion E; subst. eapply Ff; eauto.
  - exact Lt.
  - intros r u H. apply in_map_es in H. destruct H as (k0 & r0 & u0 & I & E). inversion E; subst.
    destruct r0; auto. destruct u0; auto. specialize (Jj _ _ _ I eq_refl). discriminate.
Qed.

Lemma finalize_keeps_up ser s : Up ser s -> Up ser (finalize s).
Proof.
  intros U r u H. cbn in H. apply in_map_es in H. destruct H as (k0 & r0 & u0 & I & E). inversion E; subst.
  destruct r0; auto. eapply U; eauto.
Qed.

Lemma deliver_down_G ser s : G ser s -> G ser (deliver_down s) /\ (Up ser s -> Up ser (deliver_down s)) /\ tn_next (deliver_down s) = tn_next s.
Proof.
  intro Gs. unfold deliver_down. destruct (tn_lv s) as [|b r]; [auto |].
  set (s1 := {| tn_es := tn_es s; tn_next := tn_next s; tn_alive := tn_alive s; tn_lv := r |}).
  assert (G1 : G ser s1) by (destruct Gs; constructor; auto).
  destruct b; [| auto].
  destruct (finalize_G ser s1 G1) as (A & B & C). gsplit.
Qed.

Lemma fold_deliver_G ser {A} (l : list A) : forall s, G ser s ->
  let s' := fold_left (fun acc (_ : A) => if tn_alive acc then deliver_down acc else acc) l s in
  G ser s' /\ (Up ser s -> Up ser s') /\ tn_next s' = tn_next s.
Proof.
  induction l as [|x l IH]; intros s Gs; cbn [fold_left]; [auto |].
  destruct (tn_alive s).
  - destruct (deliver_down_G ser s Gs) as (A1 & B1 & C1). destruct (IH _ A1) as (A2 & B2 & C2). cbn zeta in *. gsplit. congruence.
  - apply IH. exact Gs.
Qed.

Lemma abort_in k es k0 r u : In (k0, (r, u)) (abort k es) ->
  exists r0 u0, In (k0, (r0, u0)) es /\ ((r = r0 /\ u = u0 /\ (k0 <> k \/ r0 = false)) \/ (k0 = k /\ r0 = true /\ r = false /\ u = false)).
Proof.
  intro H. unfold abort in H. apply in_map_es in H. destruct H as (k1 & r1 & u1 & I & E).
  destruct (Nat.eqb k1 k && r1) eqn:Q; inversion E; subst.
  - apply andb_prop in Q. destruct Q as [Q1 Q2]. apply Nat.eqb_eq in Q1. subst. exists true, u1. split; auto.
  - exists r, u. split; auto. left. gsplit. apply andb_false_iff in Q. destruct Q as [Q | Q]; [left; now apply Nat.eqb_neq in Q | right; exact Q].
Qed.

(* ------------------------------------------------------------------ soundness of the discipline *)
Definition Sound (ser : nat) (a : act) : Prop :=
  forall s closed, G ser s -> (closed = true -> Up ser s) ->
    fst (disc ser a closed) = true ->
    G ser (tact a s) /\ (snd (disc ser a closed) = true -> Up ser (tact a s)) /\ tn_next s <= tn_next (tact a s).

Lemma sound_list ser l : Forall (Sound ser) l ->
  forall s closed, G ser s -> (closed = true -> Up ser s) -> fst (discs ser l closed) = true ->
    G ser (tacts l s) /\ (snd (discs ser l closed) = true -> Up ser (tacts l s)) /\ tn_next s <= tn_next (tacts l s).
Proof.
  induction 1 as [|a r Ha Hr IH]; intros s closed Gs U OK; cbn [tacts discs] in *.
  - auto.
  - destruct (disc ser a closed) as [ok1 c1] eqn:D1. destruct (discs ser r c1) as [ok2 c2] eqn:D2. cbn [fst snd] in *.
    apply andb_prop in OK. destruct OK as [O1 O2]. subst.
    destruct (Ha s closed Gs U) as (G1 & U1 & N1); [now rewrite D1 |]. rewrite D1 in U1. cbn [snd] in U1.
    destruct (IH (tact a s) c1 G1 U1) as (G2 & U2 & N2); [now rewrite D2 |]. rewrite D2 in U2. cbn [snd] in U2.
    gsplit; lia.
Qed.

Lemma unreg_in' k es k0 r u : In (k0, (r, u)) (unreg k es) ->
  (k0 = k /\ r = false /\ exists r0, In (k0, (r0, u)) es) \/ (k0 <> k /\ In (k0, (r, u)) es).
Proof.
  intro H. unfold unreg in H. apply in_map_es in H. destruct H as (k1 & r1 & u1 & I & E).
  destruct (Nat.eqb k1 k) eqn:Q; inversion E; subst.
  - apply Nat.eqb_eq in Q. subst. left. eauto.
  - apply Nat.eqb_neq in Q. right. auto.
Qed.

Lemma G_set_unreg ser s : G ser s -> Up ser s -> tn_alive s = true -> G ser (tn_set_es s (unreg ser (tn_es s))) /\ Up ser (tn_set_es s (unreg ser (tn_es s))).
Proof.
  intros [Jj Kk Ff Lt] U AL. split; [constructor |]; unfold J, K, Fr, Up in *; cbn.
  - intros k r u H Hu. apply unreg_in' in H. destruct H as [(-> & -> & r0 & I) | (NE & I)].
    + rewrite (U _ _ I) in Hu. discriminate.
    + eapply Jj; eauto.
  - rewrite AL. discriminate.
  - intros k r u H. apply unreg_in' in H. destruct H as [(-> & _ & r0 & I) | (NE & I)]; eapply Ff; eauto.
  - exact Lt.
  - intros r u H. apply unreg_in' in H. destruct H as [(_ & _ & r0 & I) | (NE & I)]; [eapply U; eauto | contradiction].
Qed.

Lemma G_set_abort ser k s : G ser s -> G ser (tn_set_es s (abort k (tn_es s))) /\ (Up ser s \/ k = ser -> Up ser (tn_set_es s (abort k (tn_es s)))).
Proof.
  intros [Jj Kk Ff Lt]. split; [constructor |]; unfold J, K, Fr, Up in *; cbn.
  - intros k0 r u H Hu. apply abort_in in H. destruct H as (r0 & u0 & I & [(-> & -> & _) | (_ & _ & _ & ->)]); [eapply Jj; eauto | discriminate].
  - intros AL k0 r u H. apply abort_in in H. destruct H as (r0 & u0 & I & [(-> & -> & _) | (_ & _ & -> & _)]); [eapply Kk; eauto | reflexivity].
  - intros k0 r u H. apply abort_in in H. destruct H as (r0 & u0 & I & _). eapply Ff; eauto.
  - exact Lt.
  - intros X r u H. apply abort_in in H. destruct H as (r0 & u0 & I & [(-> & -> & D) | (_ & _ & _ & ->)]); [| reflexivity].
    destruct X as [U | ->]; [eapply U; eauto |].
    destruct D as [D | ->]; [contradiction |]. destruct u0; auto. specialize (Jj _ _ _ I eq_refl). discriminate.
Qed.

Theorem tact_sound ser a : Sound ser a.
Proof.
  induction a using act_ind'.
  - (* IfSub *)
    intros s closed Gs U OK. rewrite tact_ifsub. rewrite disc_ifsub in *. cbn [fst snd] in *.
    apply andb_prop in OK. destruct OK as [OY ON].
    destruct (tn_alive s).
    + destruct (sound_list ser y H s closed Gs U OY) as (A & B & C). gsplit.
      intro X. apply andb_prop in X. destruct X. auto.
    + destruct (sound_list ser n H0 s closed Gs U ON) as (A & B & C). gsplit.
      intro X. apply andb_prop in X. destruct X. auto.
  - (* AWith *)
    intros s closed Gs U OK. rewrite tact_with. rewrite disc_with in *. apply (sound_list ser b H s closed Gs U OK).
  - (* all the others *)
    intros s closed Gs U OK. destruct a; try contradiction; cbn [tact disc fst snd] in *.
    + (* SinkNext *) destruct (tn_alive s).
      * destruct (deliver_down_G ser s Gs) as (A & B & C). gsplit; lia.
      * destruct (finalize_G ser s Gs) as (A & B & C). gsplit; lia.
    + (* SinkError *) destruct (finalize_G ser s Gs) as (A & B & C). gsplit; lia.
    + (* SinkComplete *)
      apply andb_prop in OK. destruct OK as [E Cl]. apply Nat.eqb_eq in E. subst ser0.
      specialize (U Cl).
      destruct (tn_alive s) eqn:AL.
      * destruct (G_set_unreg ser s Gs U AL) as [G1 U1].
        destruct (no_reg (unreg ser (tn_es s))).
        -- destruct (finalize_G ser _ G1) as (A & B & C). gsplit; cbn in *; lia.
        -- gsplit.
      * destruct (finalize_G ser s Gs) as (A & B & C). gsplit; lia.
    + (* SinkCompleteForce *) destruct (finalize_G ser s Gs) as (A & B & C). gsplit; lia.
    + (* UpAbort *)
      destruct (G_set_abort ser ser0 s Gs) as [G1 U1]. gsplit.
      intro X. apply orb_prop in X. apply U1. destruct X as [X | X]; [left; auto | right; now apply Nat.eqb_eq in X].
    + (* Finalize *) destruct (finalize_G ser s Gs) as (A & B & C). gsplit; lia.
    + (* AFlush *) destruct (fold_deliver_G ser l s Gs) as (A & B & C). cbn zeta in *. gsplit; lia.
    + (* ASetFlag *) gsplit.
    + (* ASubscribe: a fresh serial; subscribed iff registered iff the subscriber is alive *)
      destruct Gs as [Jj Kk Ff Lt]. split; [constructor | split]; unfold J, K, Fr, Up in *; cbn.
      * intros k r u H1 Hu. apply in_app_or in H1. destruct H1 as [H1 | [H1 | []]]; [eapply Jj; eauto | inversion H1; subst; auto].
      * intros AL k r u H1. apply in_app_or in H1. destruct H1 as [H1 | [H1 | []]]; [eapply Kk; eauto | inversion H1; subst; auto].
      * intros k r u H1. apply in_app_or in H1. destruct H1 as [H1 | [H1 | []]]; [specialize (Ff _ _ _ H1); lia | inversion H1; subst; lia].
      * lia.
      * intros X r u H1. apply in_app_or in H1. destruct H1 as [H1 | [H1 | []]]; [eapply U; eauto | inversion H1; subst; lia].
      * lia.
    + (* ASubjNew *) gsplit.
    + (* ASubjCall *) gsplit.
    + (* ADeliver *) gsplit.
    + (* AZipDrain *) destruct (fold_deliver_G ser (tn_lv s) s Gs) as (A & B & C). cbn zeta in *. gsplit; lia.
Qed.

(* ------------------------------------------------------------------ one handler invocation *)
(* an event arrives at the upstream observer of `ser`: a terminal empties that observer's slots first *)
Definition arrive (ser : nat) (e : ev) (s : tn) : tn :=
  if is_term e then tn_set_es s (map (fun x : nat * (bool * bool) => let '(k, (r, u)) := x in if Nat.eqb k ser then (k, (r, false)) else x) (tn_es s)) else s.

Lemma arrive_G ser e s : G ser s -> G ser (arrive ser e s) /\ (is_term e = true -> Up ser (arrive ser e s)).
Proof.
  intros [Jj Kk Ff Lt]. unfold arrive. destruct (is_term e); [| split; [constructor; auto | discriminate]].
  split; [constructor |]; unfold J, K, Fr, Up in *; cbn.
  - intros k r u H Hu. apply in_map_es in H. destruct H as (k0 & r0 & u0 & I & E). destruct (Nat.eqb k0 ser); inversion E; subst; [discriminate | eapply Jj; eauto].
  - intros AL k r u H. apply in_map_es in H. destruct H as (k0 & r0 & u0 & I & E). destruct (Nat.eqb k0 ser); inversion E; subst; eapply Kk; eauto.
  - intros k r u H. apply in_map_es in H. destruct H as (k0 & r0 & u0 & I & E). destruct (Nat.eqb k0 ser); inversion E; subst; eapply Ff; eauto.
  - exact Lt.
  - intros _ r u H. apply in_map_es in H. destruct H as (k0 & r0 & u0 & I & E). destruct (Nat.eqb k0 ser) eqn:Q; inversion E; subst; auto.
    rewrite Nat.eqb_refl in Q. discriminate.
Qed.

(* THE node-level theorem: whatever the operator, state, port and event - as long as its handler is
   disciplined - handling one event keeps the bookkeeping invariants *)
Theorem handle_event_G op src others st port ser fresh e s :
  handler_disciplined op src others st port ser fresh e = true ->
  G ser s -> G ser (tacts (snd (handler op src others st port ser fresh e)) (arrive ser e s)).
Proof.
  intros D Gs. destruct (arrive_G ser e s Gs) as [G1 U1].
  assert (F : Forall (Sound ser) (snd (handler op src others st port ser fresh e))) by (apply Forall_forall; intros; apply tact_sound).
  destruct (sound_list ser _ F (arrive ser e s) (is_term e) G1 U1 D) as (A & _). exact A.
Qed.

(* ... and the invariants say: an ended subscriber has no subscribed upstream observer left *)
Theorem ended_means_all_upstream_closed ser s :
  G ser s -> tn_alive s = false -> forall k r u, In (k, (r, u)) (tn_es s) -> u = false.
Proof.
  intros [Jj Kk _ _] AL k r u H. destruct u; auto. pose proof (Jj _ _ _ H eq_refl) as R. rewrite (Kk AL _ _ _ H) in R. discriminate.
Qed.

(* ------------------------------------------------------------------ the whole catalogue is disciplined *)
Lemma discs_subjcalls ser (f : Z * hid -> ev) l c : discs ser (map (fun g => ASubjCall (snd g) (f g)) l) c = (true, c).
Proof. induction l as [|g l IH]; cbn [map discs disc]; auto. rewrite IH. reflexivity. Qed.

Lemma discs_app ser l1 l2 c :
  discs ser (l1 ++ l2) c = (fst (discs ser l1 c) && fst (discs ser l2 (snd (discs ser l1 c))), snd (discs ser l2 (snd (discs ser l1 c)))).
Proof.
  revert c. induction l1 as [|a r IH]; intro c; cbn [app discs fst snd].
  - destruct (discs ser l2 c). reflexivity.
  - destruct (disc ser a c) as [ok1 c1]. rewrite IH. destruct (discs ser r c1) as [ok2 c2]. cbn [fst snd].
    destruct (discs ser l2 c2) as [ok3 c3]. cbn. now rewrite andb_assoc.
Qed.

Ltac disc_crush :=
  repeat match goal with
         | |- context [if ?b then _ else _] => destruct b
         | |- context [match ?x with _ => _ end] => destruct x
         end;
  cbn [app map snd is_term];
  repeat (cbn [discs]; rewrite ?disc_with, ?discs_subjcalls);
  cbn [discs disc fst snd andb orb]; rewrite ?Nat.eqb_refl; cbn [andb orb fst snd]; try reflexivity.

Theorem catalogue_disciplined op src others st port ser fresh e :
  handler_disciplined op src others st port ser fresh e = true.
Proof.
  unfold handler_disciplined.
  destruct op; destruct e as [ev1 | ex1 |]; unfold handler, fwd, dflt_err, dflt_comp, emit_acc_then_complete, fold_acc; cbn [snd is_term];
    disc_crush.
Qed.
