(* C05 on the sequential machine, for ALL pipelines: once a subscriber's observer has lost its callback
   slots - Observer::unsubscribe does that at once, a terminal notification too - no later request of any
   kind, in any reachable world, adds anything to that subscriber's log, and it stays closed. *)
From Coq Require Import List ZArith Bool Arith Lia.
From RX Require Import Val Syntax World Step Oracle.
From RXP Require Import Contract Moves.
Import ListNotations.

Definition taken (w : world) (u : nat) : Prop :=
  match udec u with UTop k => handles w k <> None | UChild j => j < n_child w end.
Record Frozen (u : nat) (w : world) : Prop := {
  fz_closed : forall o, o_tgt (obs w o) = TUser u -> is_sub (obs w o) = false;
  fz_taken : taken w u }.

Lemma fires_alive w o e : Inv w -> fires (obs w o) e = true -> is_sub (obs w o) = true.
Proof.
  intros I F. destruct (i_unif _ I o) as [A B]. unfold is_sub, fires in *. destruct e.
  - rewrite <- B, <- A, F. reflexivity.
  - rewrite <- B, A, F. reflexivity.
  - apply andb_prop in F. destruct F as [F1 F2]. rewrite A, F1, F2. reflexivity.
Qed.

Lemma move_frozen u w w' : Inv w -> move w w' -> Frozen u w -> Frozen u w' /\ ulog u (log w') = ulog u (log w).
Proof.
  intros I M [Cl Tk]. destruct M as [[EL EN EH EO] | o u' e T F -> | -> | k rs HN ->].
  - (* ext *)
    split; [| now rewrite EL]. constructor.
    + intros o Ho. destruct (EO o) as [(Tg & _ & Mono) | (NU & _)]; [| rewrite Ho in NU; destruct NU].
      rewrite Tg in Ho. destruct (is_sub (obs w' o)) eqn:E; auto. rewrite (Cl o Ho) in Mono. specialize (Mono eq_refl). discriminate.
    + unfold taken in *. destruct (udec u); [| lia]. intro X. apply Tk. now apply EH.
  - (* a user callback *)
    destruct (Nat.eq_dec u' u) as [-> | NE].
    { exfalso. pose proof (fires_alive w o e I F) as A. rewrite (Cl o T) in A. discriminate. }
    split.
    + constructor.
      * intros o2 Ho2. unfold add_log, close_if_term in *.
        destruct e; cbn in *; try (now apply Cl);
          (destruct (o_e (obs w o)); cbn in *; [| now apply Cl]; unfold upd in *; destruct (Nat.eqb o2 o) eqn:E; [reflexivity | now apply Cl]).
      * unfold taken in *. unfold add_log, close_if_term. destruct e; cbn; auto; destruct (o_e (obs w o)); cbn; auto.
    + unfold add_log. cbn. rewrite ulog_app. destruct (Nat.eqb u' u) eqn:E; [apply Nat.eqb_eq in E; contradiction |].
      unfold close_if_term. destruct e; cbn; auto; destruct (o_e (obs w o)); reflexivity.
  - (* a recorder for a window / group *)
    unfold alloc_obs; cbn. split; [| reflexivity]. constructor; cbn.
    + intros o. unfold upd. destruct (Nat.eqb o (n_obs w)); cbn; [| apply Cl].
      intros [= H]. exfalso. unfold taken in Tk. rewrite <- H, udec_uenc in Tk. lia.
    + unfold taken in *. cbn. destruct (udec u); auto; try lia.
  - (* a driver handle's observer *)
    unfold alloc_obs; cbn. split; [| reflexivity]. constructor; cbn.
    + intros o. unfold upd. destruct (Nat.eqb o (n_obs w)); cbn; [| apply Cl].
      intros [= H]. exfalso. unfold taken in Tk. rewrite <- H, udec_uenc in Tk. contradiction.
    + unfold taken in *. cbn. destruct (udec u); auto. unfold upd. destruct (Nat.eqb k0 k); [discriminate | exact Tk].
Qed.

Lemma moves_frozen u w w' : moves w w' -> Frozen u w -> Frozen u w' /\ ulog u (log w') = ulog u (log w).
Proof.
  intro M. induction M as [| w w1 w2 I0 Mv M IH]; [auto |]. intro Fz.
  destruct (move_frozen u w w1 I0 Mv Fz) as [F1 L1]. destruct (IH F1) as [F2 L2]. split; [exact F2 | congruence].
Qed.

(* from ANY stack of pending requests in any world meeting the invariant *)
Theorem frozen_forever fuel stk w u :
  Inv w -> Frozen u w ->
  ulog u (log (snd (run fuel stk w))) = ulog u (log w) /\ Frozen u (snd (run fuel stk w)).
Proof. intros I Fz. destruct (moves_frozen u _ _ (run_moves fuel stk w I) Fz). auto. Qed.

(* Observer::unsubscribe empties the three slots in its first step *)
Lemma unsub_closes w o : is_sub (obs (snd (step (Unsub o) w)) o) = false.
Proof. cbn. unfold upd. rewrite Nat.eqb_refl. reflexivity. Qed.

(* ... so for a user's own observer: Frozen from then on *)
Lemma unsub_freezes w o u : Inv w -> o_tgt (obs w o) = TUser u -> Frozen u (snd (step (Unsub o) w)).
Proof.
  intros I T. constructor.
  - intros o2 H2. cbn in *. unfold upd in *. destruct (Nat.eqb o2 o) eqn:E; [reflexivity |].
    assert (o2 = o) by (eapply (i_uniq _ I); eauto). subst. rewrite Nat.eqb_refl in E. discriminate.
  - unfold taken. cbn. destruct (udec u) eqn:D.
    + apply (i_top _ I o). rewrite T. f_equal. rewrite <- D. symmetry. apply uenc_udec.
    + apply (i_child _ I o). rewrite T. f_equal. rewrite <- D. symmetry. apply uenc_udec.
Qed.

(* a closed observer fires nothing: Observer::next/error/complete on it is a no-op (the world is unchanged) *)
Lemma closed_delivery_noop w o e : Inv w -> is_sub (obs w o) = false -> step (Deliver o e) w = ([], w).
Proof.
  intros I C. destruct (i_unif _ I o) as [A B]. unfold is_sub in C.
  assert (N : o_n (obs w o) = false).
  { destruct (o_n (obs w o)) eqn:X; auto. rewrite <- B, <- A in C. cbn in C. discriminate. }
  assert (E : o_e (obs w o) = false) by congruence.
  cbn. rewrite N, E. destruct e; reflexivity.
Qed.

(* Subscription::unsubscribe is call-and-clear *)
Lemma subscription_unsubscribe_once w s :
  sb_live (subs w s) = true ->
  fst (step (SubUnsub s) w) = [Unsub (sb_obs (subs w s))] /\ sb_live (subs (snd (step (SubUnsub s) w)) s) = false.
Proof. intro L. cbn. rewrite L. cbn. unfold upd. rewrite Nat.eqb_refl. auto. Qed.
Lemma subscription_unsubscribe_again w s : sb_live (subs w s) = false -> step (SubUnsub s) w = ([], w).
Proof. intro L. cbn. now rewrite L. Qed.
