Model/Val.vo Model/Val.glob Model/Val.v.beautified Model/Val.required_vo: Model/Val.v 
Model/Val.vio: Model/Val.v 
Model/Val.vos Model/Val.vok Model/Val.required_vos: Model/Val.v 
Model/Syntax.vo Model/Syntax.glob Model/Syntax.v.beautified Model/Syntax.required_vo: Model/Syntax.v Model/Val.vo
Model/Syntax.vio: Model/Syntax.v Model/Val.vio
Model/Syntax.vos Model/Syntax.vok Model/Syntax.required_vos: Model/Syntax.v Model/Val.vos
Model/World.vo Model/World.glob Model/World.v.beautified Model/World.required_vo: Model/World.v Model/Val.vo Model/Syntax.vo
Model/World.vio: Model/World.v Model/Val.vio Model/Syntax.vio
Model/World.vos Model/World.vok Model/World.required_vos: Model/World.v Model/Val.vos Model/Syntax.vos
Model/Step.vo Model/Step.glob Model/Step.v.beautified Model/Step.required_vo: Model/Step.v Model/Val.vo Model/Syntax.vo Model/World.vo
Model/Step.vio: Model/Step.v Model/Val.vio Model/Syntax.vio Model/World.vio
Model/Step.vos Model/Step.vok Model/Step.required_vos: Model/Step.v Model/Val.vos Model/Syntax.vos Model/World.vos
Model/Spec.vo Model/Spec.glob Model/Spec.v.beautified Model/Spec.required_vo: Model/Spec.v Model/Val.vo Model/Syntax.vo
Model/Spec.vio: Model/Spec.v Model/Val.vio Model/Syntax.vio
Model/Spec.vos Model/Spec.vok Model/Spec.required_vos: Model/Spec.v Model/Val.vos Model/Syntax.vos
Model/Loc.vo Model/Loc.glob Model/Loc.v.beautified Model/Loc.required_vo: Model/Loc.v Model/Val.vo Model/Syntax.vo Model/Step.vo Model/Spec.vo
Model/Loc.vio: Model/Loc.v Model/Val.vio Model/Syntax.vio Model/Step.vio Model/Spec.vio
Model/Loc.vos Model/Loc.vok Model/Loc.required_vos: Model/Loc.v Model/Val.vos Model/Syntax.vos Model/Step.vos Model/Spec.vos
Model/Oracle.vo Model/Oracle.glob Model/Oracle.v.beautified Model/Oracle.required_vo: Model/Oracle.v Model/Val.vo Model/Syntax.vo Model/World.vo Model/Step.vo Model/Spec.vo Model/Loc.vo
Model/Oracle.vio: Model/Oracle.v Model/Val.vio Model/Syntax.vio Model/World.vio Model/Step.vio Model/Spec.vio Model/Loc.vio
Model/Oracle.vos Model/Oracle.vok Model/Oracle.required_vos: Model/Oracle.v Model/Val.vos Model/Syntax.vos Model/World.vos Model/Step.vos Model/Spec.vos Model/Loc.vos
Model/Oracle2.vo Model/Oracle2.glob Model/Oracle2.v.beautified Model/Oracle2.required_vo: Model/Oracle2.v Model/Val.vo Model/Syntax.vo Model/World.vo Model/Step.vo Model/Spec.vo Model/Oracle.vo
Model/Oracle2.vio: Model/Oracle2.v Model/Val.vio Model/Syntax.vio Model/World.vio Model/Step.vio Model/Spec.vio Model/Oracle.vio
Model/Oracle2.vos Model/Oracle2.vok Model/Oracle2.required_vos: Model/Oracle2.v Model/Val.vos Model/Syntax.vos Model/World.vos Model/Step.vos Model/Spec.vos Model/Oracle.vos
Proofs/Contract.vo Proofs/Contract.glob Proofs/Contract.v.beautified Proofs/Contract.required_vo: Proofs/Contract.v Model/Val.vo Model/Syntax.vo Model/World.vo Model/Step.vo Model/Oracle.vo
Proofs/Contract.vio: Proofs/Contract.v Model/Val.vio Model/Syntax.vio Model/World.vio Model/Step.vio Model/Oracle.vio
Proofs/Contract.vos Proofs/Contract.vok Proofs/Contract.required_vos: Proofs/Contract.v Model/Val.vos Model/Syntax.vos Model/World.vos Model/Step.vos Model/Oracle.vos
Proofs/LocBase.vo Proofs/LocBase.glob Proofs/LocBase.v.beautified Proofs/LocBase.required_vo: Proofs/LocBase.v Model/Val.vo Model/Syntax.vo Model/Step.vo Model/Spec.vo Model/Loc.vo
Proofs/LocBase.vio: Proofs/LocBase.v Model/Val.vio Model/Syntax.vio Model/Step.vio Model/Spec.vio Model/Loc.vio
Proofs/LocBase.vos Proofs/LocBase.vok Proofs/LocBase.required_vos: Proofs/LocBase.v Model/Val.vos Model/Syntax.vos Model/Step.vos Model/Spec.vos Model/Loc.vos
Proofs/LocOpsA.vo Proofs/LocOpsA.glob Proofs/LocOpsA.v.beautified Proofs/LocOpsA.required_vo: Proofs/LocOpsA.v Model/Val.vo Model/Syntax.vo Model/Step.vo Model/Spec.vo Model/Loc.vo Proofs/LocBase.vo
Proofs/LocOpsA.vio: Proofs/LocOpsA.v Model/Val.vio Model/Syntax.vio Model/Step.vio Model/Spec.vio Model/Loc.vio Proofs/LocBase.vio
Proofs/LocOpsA.vos Proofs/LocOpsA.vok Proofs/LocOpsA.required_vos: Proofs/LocOpsA.v Model/Val.vos Model/Syntax.vos Model/Step.vos Model/Spec.vos Model/Loc.vos Proofs/LocBase.vos
Proofs/LocOpsB.vo Proofs/LocOpsB.glob Proofs/LocOpsB.v.beautified Proofs/LocOpsB.required_vo: Proofs/LocOpsB.v Model/Val.vo Model/Syntax.vo Model/Step.vo Model/Spec.vo Model/Loc.vo Proofs/LocBase.vo
Proofs/LocOpsB.vio: Proofs/LocOpsB.v Model/Val.vio Model/Syntax.vio Model/Step.vio Model/Spec.vio Model/Loc.vio Proofs/LocBase.vio
Proofs/LocOpsB.vos Proofs/LocOpsB.vok Proofs/LocOpsB.required_vos: Proofs/LocOpsB.v Model/Val.vos Model/Syntax.vos Model/Step.vos Model/Spec.vos Model/Loc.vos Proofs/LocBase.vos
Proofs/LocOpsC.vo Proofs/LocOpsC.glob Proofs/LocOpsC.v.beautified Proofs/LocOpsC.required_vo: Proofs/LocOpsC.v Model/Val.vo Model/Syntax.vo Model/Step.vo Model/Spec.vo Model/Loc.vo Proofs/LocBase.vo
Proofs/LocOpsC.vio: Proofs/LocOpsC.v Model/Val.vio Model/Syntax.vio Model/Step.vio Model/Spec.vio Model/Loc.vio Proofs/LocBase.vio
Proofs/LocOpsC.vos Proofs/LocOpsC.vok Proofs/LocOpsC.required_vos: Proofs/LocOpsC.v Model/Val.vos Model/Syntax.vos Model/Step.vos Model/Spec.vos Model/Loc.vos Proofs/LocBase.vos
Proofs/LocOpsD.vo Proofs/LocOpsD.glob Proofs/LocOpsD.v.beautified Proofs/LocOpsD.required_vo: Proofs/LocOpsD.v Model/Val.vo Model/Syntax.vo Model/Step.vo Model/Spec.vo Model/Loc.vo Proofs/LocBase.vo
Proofs/LocOpsD.vio: Proofs/LocOpsD.v Model/Val.vio Model/Syntax.vio Model/Step.vio Model/Spec.vio Model/Loc.vio Proofs/LocBase.vio
Proofs/LocOpsD.vos Proofs/LocOpsD.vok Proofs/LocOpsD.required_vos: Proofs/LocOpsD.v Model/Val.vos Model/Syntax.vos Model/Step.vos Model/Spec.vos Model/Loc.vos Proofs/LocBase.vos
Proofs/LocAll.vo Proofs/LocAll.glob Proofs/LocAll.v.beautified Proofs/LocAll.required_vo: Proofs/LocAll.v Model/Val.vo Model/Syntax.vo Model/Step.vo Model/Spec.vo Model/Loc.vo Proofs/LocBase.vo Proofs/LocOpsA.vo Proofs/LocOpsB.vo Proofs/LocOpsC.vo Proofs/LocOpsD.vo
Proofs/LocAll.vio: Proofs/LocAll.v Model/Val.vio Model/Syntax.vio Model/Step.vio Model/Spec.vio Model/Loc.vio Proofs/LocBase.vio Proofs/LocOpsA.vio Proofs/LocOpsB.vio Proofs/LocOpsC.vio Proofs/LocOpsD.vio
Proofs/LocAll.vos Proofs/LocAll.vok Proofs/LocAll.required_vos: Proofs/LocAll.v Model/Val.vos Model/Syntax.vos Model/Step.vos Model/Spec.vos Model/Loc.vos Proofs/LocBase.vos Proofs/LocOpsA.vos Proofs/LocOpsB.vos Proofs/LocOpsC.vos Proofs/LocOpsD.vos
Props/C01.vo Props/C01.glob Props/C01.v.beautified Props/C01.required_vo: Props/C01.v Model/Val.vo Model/Syntax.vo Model/World.vo Model/Step.vo Model/Oracle.vo Proofs/Contract.vo
Props/C01.vio: Props/C01.v Model/Val.vio Model/Syntax.vio Model/World.vio Model/Step.vio Model/Oracle.vio Proofs/Contract.vio
Props/C01.vos Props/C01.vok Props/C01.required_vos: Props/C01.v Model/Val.vos Model/Syntax.vos Model/World.vos Model/Step.vos Model/Oracle.vos Proofs/Contract.vos
Props/C02.vo Props/C02.glob Props/C02.v.beautified Props/C02.required_vo: Props/C02.v Model/Val.vo Model/Syntax.vo Model/Step.vo Model/Spec.vo Model/Loc.vo Proofs/LocBase.vo Proofs/LocOpsA.vo Proofs/LocOpsB.vo Proofs/LocOpsC.vo Proofs/LocOpsD.vo Proofs/LocAll.vo
Props/C02.vio: Props/C02.v Model/Val.vio Model/Syntax.vio Model/Step.vio Model/Spec.vio Model/Loc.vio Proofs/LocBase.vio Proofs/LocOpsA.vio Proofs/LocOpsB.vio Proofs/LocOpsC.vio Proofs/LocOpsD.vio Proofs/LocAll.vio
Props/C02.vos Props/C02.vok Props/C02.required_vos: Props/C02.v Model/Val.vos Model/Syntax.vos Model/Step.vos Model/Spec.vos Model/Loc.vos Proofs/LocBase.vos Proofs/LocOpsA.vos Proofs/LocOpsB.vos Proofs/LocOpsC.vos Proofs/LocOpsD.vos Proofs/LocAll.vos
Extract/Extract.vo Extract/Extract.glob Extract/Extract.v.beautified Extract/Extract.required_vo: Extract/Extract.v Model/Val.vo Model/Syntax.vo Model/World.vo Model/Step.vo Model/Oracle.vo Model/Oracle2.vo
Extract/Extract.vio: Extract/Extract.v Model/Val.vio Model/Syntax.vio Model/World.vio Model/Step.vio Model/Oracle.vio Model/Oracle2.vio
Extract/Extract.vos Extract/Extract.vok Extract/Extract.required_vos: Extract/Extract.v Model/Val.vos Model/Syntax.vos Model/World.vos Model/Step.vos Model/Oracle.vos Model/Oracle2.vos
