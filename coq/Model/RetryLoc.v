(* C04: the recovery operators (retry, retry_when, on_error_resume_next) run by their handler table
   (Step.handler) over a source whose k-th subscription plays the k-th script (cold, synchronous), with the
   StreamController bookkeeping reduced to what matters here: the subscriber is alive until a terminal is
   sunk; a failed attempt is dropped (upstream_abort) before the next subscription.  Definitions only. *)
From Coq Require Import List ZArith Bool Arith.
From RX Require Import Val Syntax Step Spec.
Import ListNotations.

(* feeding ONE attempt's script to the current upstream observer of a retry-like node: returns the events
   sunk and whether the handler asked to resubscribe (and the new state) *)
Inductive rres := RDone | RResub (st : ostate) | RSilent (st : ostate).

Fixpoint rfeed (op : opk) (st : ostate) (script : list ev) : list ev * rres :=
  match script with
  | [] => ([], RSilent st)
  | e :: r =>
      let '(st', acts) := handler op PNever [] st 0 0 0 e in
      match acts with
      | [SinkNext v] => let '(o, res) := rfeed op st' r in (Nx v :: o, res)
      | [SinkError x] => ([Er x], RDone)
      | [SinkComplete _] => ([Co], RDone)
      | [UpAbort _; ASubscribe _ _] => ([], RResub st')     (* whatever the failed source does afterwards reaches a dropped observer *)
      | _ => ([], RDone)                                     (* not a recovery operator *)
      end
  end.

(* the attempts are consumed one per subscription (the harness's scripted source repeats its last script) *)
Fixpoint rrun (op : opk) (st : ostate) (attempts : list (list ev)) : list ev * nat :=     (* (events, subscriptions made) *)
  match attempts with
  | [] => ([], 0)
  | a :: rest =>
      let '(o, res) := rfeed op st a in
      match res with
      | RResub st' => let '(o2, k) := rrun op st' rest in (o ++ o2, S k)
      | _ => (o, 1)
      end
  end.

Definition retry_run (n : nat) (attempts : list (list ev)) := rrun (ORetry n) (init_state (ORetry n) []) attempts.
Definition retry_when_run (p : epred) (attempts : list (list ev)) := rrun (ORetryWhen p) st0 attempts.

(* ---- the definition: the items of the attempts up to and including the last one made, in order, then that
   attempt's terminal; `may_retry k e` = the operator's argument allows a resubscription after the k-th
   attempt (1-based) failed with e ---- *)
Fixpoint spec_attempts (may_retry : nat -> err -> bool) (k : nat) (attempts : list sout) : list ev * nat :=
  match attempts with
  | [] => ([], 0)
  | (xs, en) :: rest =>
      match en with
      | Fails e => if may_retry k e
                   then let '(o, m) := spec_attempts may_retry (S k) rest in (map Nx xs ++ o, S m)
                   else (map Nx xs ++ [Er e], 1)
      | Completes => (map Nx xs ++ [Co], 1)
      | Silent => (map Nx xs, 1)
      end
  end.
Definition retry_budget (n : nat) (k : nat) (_ : err) : bool := Nat.eqb n 0 || Nat.ltb k n.      (* n subscriptions in total; 0 = unbounded *)
Definition spec_retry (n : nat) (attempts : list sout) := spec_attempts (retry_budget n) 1 attempts.
Definition spec_retry_when (p : epred) (attempts : list sout) := spec_attempts (fun _ e => appe p e) 1 attempts.
