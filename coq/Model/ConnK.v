(* K-automaton of the connectables (operators/publish.rs, ref_count.rs, replay.rs, after the fix commits)
   over a HOT source (a plain Subject driven by the script) with directly attached subscribers whose
   callbacks do not re-enter the library.  One driver call = one function application.
     publish   : observable() = inner Subject; connect() subscribes the source with forwarding closures;
                 the returned Subscription disconnects
     ref_count : on_subscribe(count==1): if the slot is empty, record the connection, then subscribe the source;
                 on_unsubscribe(count==0): take the connection out of the slot and unsubscribe it;
                 a source terminal empties the slot
     replay    : the same over a ReplaySubject; a terminated connection stays in the slot (no reconnect)
   Definitions only. *)
From Coq Require Import List ZArith Bool Arith.
From RX Require Import Val Syntax Step.
Import ListNotations.

Record ck := {
  c_reg : list nat;               (* handles whose observer the inner subject holds, in order *)
  c_usedh : nat -> bool;          (* handle subscribed already *)
  c_alive : nat -> bool;          (* handle's own observer still has its slots *)
  c_unsub : nat -> bool;          (* handle's Subscription not yet used *)
  c_slotc : bool;                 (* ref_count / replay: the connection slot is occupied *)
  c_slot_live : bool;             (* ... by a connection whose forwarding observer is still subscribed *)
  c_conns : list nat;             (* publish: connection handles whose forwarding observer is registered at the source *)
  c_used_conn : nat -> bool;      (* publish: connection handle's Subscription already used *)
  c_nsrc : nat;                   (* observers the source subject holds on behalf of this connectable *)
  c_items : list val;             (* replay: ReplaySubject.items *)
  c_term : option ev;             (* replay: stored terminal *)
  c_clogs : nat -> list ev }.

Definition ck0 : ck :=
  {| c_reg := []; c_usedh := fun _ => false; c_alive := fun _ => false; c_unsub := fun _ => false; c_slotc := false; c_slot_live := false;
     c_conns := []; c_used_conn := fun _ => false; c_nsrc := 0; c_items := []; c_term := None; c_clogs := fun _ => [] |}.

Definition cupd {A} (f : nat -> A) (k : nat) (v : A) : nat -> A := fun x => if Nat.eqb x k then v else f x.

(* a connection handle names the LATEST connection stored under it; an earlier one under the same handle stays live *)
Fixpoint remove_one (x : nat) (l : list nat) : list nat :=
  match l with [] => [] | y :: r => if Nat.eqb y x then r else y :: remove_one x r end.

Definition ck_deliver (s : ck) (k : nat) (e : ev) : ck :=
  if c_alive s k then
    {| c_reg := c_reg s; c_usedh := c_usedh s; c_alive := if is_term e then cupd (c_alive s) k false else c_alive s; c_unsub := c_unsub s;
       c_slotc := c_slotc s; c_slot_live := c_slot_live s; c_conns := c_conns s; c_used_conn := c_used_conn s; c_nsrc := c_nsrc s;
       c_items := c_items s; c_term := c_term s; c_clogs := cupd (c_clogs s) k (c_clogs s k ++ [e]) |}
  else s.

Definition ck_set (s : ck) (reg : list nat) (slotc slive : bool) (nsrc : nat) : ck :=
  {| c_reg := reg; c_usedh := c_usedh s; c_alive := c_alive s; c_unsub := c_unsub s; c_slotc := slotc; c_slot_live := slive;
     c_conns := c_conns s; c_used_conn := c_used_conn s; c_nsrc := nsrc; c_items := c_items s; c_term := c_term s; c_clogs := c_clogs s |}.

(* the inner subject broadcasts e to the registered handles (a terminal clears the map first) *)
Definition ck_broadcast (s : ck) (e : ev) : ck :=
  let snapshot := c_reg s in
  let s1 := if is_term e then ck_set s [] (c_slotc s) (c_slot_live s) (c_nsrc s) else s in
  fold_left (fun acc k => ck_deliver acc k e) snapshot s1.

(* one event of the hot source reaches ONE forwarding observer of this connectable *)
Definition ck_feed (kind : ckind) (s : ck) (e : ev) : ck :=
  let s1 := match kind, e with
            | CReplay, Nx v => {| c_reg := c_reg s; c_usedh := c_usedh s; c_alive := c_alive s; c_unsub := c_unsub s; c_slotc := c_slotc s; c_slot_live := c_slot_live s;
                                  c_conns := c_conns s; c_used_conn := c_used_conn s; c_nsrc := c_nsrc s; c_items := c_items s ++ [v]; c_term := c_term s; c_clogs := c_clogs s |}
            | CReplay, t => {| c_reg := c_reg s; c_usedh := c_usedh s; c_alive := c_alive s; c_unsub := c_unsub s; c_slotc := c_slotc s; c_slot_live := c_slot_live s;
                               c_conns := c_conns s; c_used_conn := c_used_conn s; c_nsrc := c_nsrc s; c_items := c_items s; c_term := Some t; c_clogs := c_clogs s |}
            | _, _ => s
            end in
  ck_broadcast s1 e.

Definition ck_step (kind : ckind) (s : ck) (a : action) : ck :=
  match a with
  | DSub k _ _ =>
      if c_usedh s k then s else
      let s0 := {| c_reg := c_reg s; c_usedh := cupd (c_usedh s) k true; c_alive := cupd (c_alive s) k true; c_unsub := cupd (c_unsub s) k true;
                   c_slotc := c_slotc s; c_slot_live := c_slot_live s; c_conns := c_conns s; c_used_conn := c_used_conn s; c_nsrc := c_nsrc s;
                   c_items := c_items s; c_term := c_term s; c_clogs := c_clogs s |} in
      match kind with
      | CPublish => ck_set s0 (c_reg s0 ++ [k]) (c_slotc s0) (c_slot_live s0) (c_nsrc s0)
      | CRefCount =>
          (* join; count == 1 and empty slot: connect *)
          let reg := c_reg s0 ++ [k] in
          if Nat.eqb (length reg) 1 && negb (c_slotc s0) then ck_set s0 reg true true (S (c_nsrc s0))
          else ck_set s0 reg (c_slotc s0) (c_slot_live s0) (c_nsrc s0)
      | CReplay =>
          (* join the inner subject (gated), possibly connect, replay the history, leave again if a terminal was replayed *)
          let reg := c_reg s0 ++ [k] in
          let s1 := if Nat.eqb (length reg) 1 && negb (c_slotc s0) then ck_set s0 reg true true (S (c_nsrc s0))
                    else ck_set s0 reg (c_slotc s0) (c_slot_live s0) (c_nsrc s0) in
          let s2 := fold_left (fun acc v => ck_deliver acc k (Nx v)) (c_items s1) s1 in
          match c_term s2 with
          | Some t =>
              let s3 := ck_deliver s2 k t in
              (* the subscriber is gone: unsubscribe the forwarder -> on_unsubscribe(count) *)
              let reg' := filter (fun x => negb (Nat.eqb x k)) (c_reg s3) in
              if Nat.eqb (length reg') 0 && c_slotc s3 && c_slot_live s3 then ck_set s3 reg' false false (c_nsrc s3 - 1)
              else ck_set s3 reg' (c_slotc s3) (c_slot_live s3) (c_nsrc s3)
          | None => s2
          end
      end
  | DUnsub k =>
      if c_unsub s k then
        let s0 := {| c_reg := c_reg s; c_usedh := c_usedh s; c_alive := cupd (c_alive s) k false; c_unsub := cupd (c_unsub s) k false;
                     c_slotc := c_slotc s; c_slot_live := c_slot_live s; c_conns := c_conns s; c_used_conn := c_used_conn s; c_nsrc := c_nsrc s;
                     c_items := c_items s; c_term := c_term s; c_clogs := c_clogs s |} in
        let reg' := filter (fun x => negb (Nat.eqb x k)) (c_reg s0) in
        match kind with
        | CPublish => ck_set s0 reg' (c_slotc s0) (c_slot_live s0) (c_nsrc s0)
        | _ =>
            (* teardown: remove + on_unsubscribe(len) - it runs whether or not the handle was still registered *)
            if Nat.eqb (length reg') 0 && c_slotc s0 && (match kind with CReplay => c_slot_live s0 | _ => true end)
            then ck_set s0 reg' false false (if c_slot_live s0 then c_nsrc s0 - 1 else c_nsrc s0)
            else ck_set s0 reg' (c_slotc s0) (c_slot_live s0) (c_nsrc s0)
        end
      else s
  | DConnect _ x =>
      match kind with
      | CPublish => {| c_reg := c_reg s; c_usedh := c_usedh s; c_alive := c_alive s; c_unsub := c_unsub s; c_slotc := c_slotc s; c_slot_live := c_slot_live s;
                       c_conns := c_conns s ++ [x]; c_used_conn := cupd (c_used_conn s) x false; c_nsrc := S (c_nsrc s); c_items := c_items s; c_term := c_term s; c_clogs := c_clogs s |}
      | _ => s
      end
  | DDisconnect x =>
      match kind with
      | CPublish =>
          if c_used_conn s x then s else
          if existsb (Nat.eqb x) (c_conns s) then
            {| c_reg := c_reg s; c_usedh := c_usedh s; c_alive := c_alive s; c_unsub := c_unsub s; c_slotc := c_slotc s; c_slot_live := c_slot_live s;
               c_conns := remove_one x (c_conns s); c_used_conn := cupd (c_used_conn s) x true; c_nsrc := c_nsrc s - 1;
               c_items := c_items s; c_term := c_term s; c_clogs := c_clogs s |}
          else s
      | _ => s
      end
  | DEmit _ e =>
      (* the source subject calls each of the observers it holds for this connectable; a terminal makes it forget them *)
      let n := c_nsrc s in
      let s1 := if is_term e then
                  {| c_reg := c_reg s; c_usedh := c_usedh s; c_alive := c_alive s; c_unsub := c_unsub s;
                     c_slotc := match kind with CRefCount => false | _ => c_slotc s end; c_slot_live := false;
                     c_conns := []; c_used_conn := c_used_conn s; c_nsrc := 0; c_items := c_items s; c_term := c_term s; c_clogs := c_clogs s |}
                else s in
      fold_left (fun acc _ => ck_feed kind acc e) (seq 0 n) s1
  | DPush _ _ => s
  end.

Definition ck_run (kind : ckind) (script : list action) : list ck :=      (* the state after every action *)
  tl (fold_left (fun acc a => acc ++ [ck_step kind (last acc ck0) a]) script [ck0]).

Definition conn_history (script : list action) : bool :=
  forallb (fun a => match a with
                    | DSub _ (PConn 0) [] => true
                    | DEmit h _ => Nat.eqb h 0
                    | DUnsub _ | DConnect 0 _ | DDisconnect _ => true
                    | _ => false
                    end) script.
