(* C15 / C16: the loop that `interval(d)` posts to its scheduler (src/observables/interval.rs), as the single task of a
   new-thread scheduler's worker (Model/ConcQueue.v):
       loop { sleep(d); if !s.is_subscribed() { break }; s.next(n); n += 1 }  ;  scheduler.abort()
   with a virtual clock that only the sleep advances (callbacks take no time), and `timer(d)` (sleep; next; complete;
   abort).  Steps of the worker thread:
       IWake   the sleep is over (clock += d)          ICheck  is_subscribed?
       IEmit   s.next(n) (delivered iff still open)    IAbort  scheduler.abort()
       IReturn the task returns (QDone)                IWorker the worker's next check (QCheck): exits after the abort
   and of the environment:  IClose - the subscription ends (unsubscribe, or take/first/... completes downstream).
   Definitions only. *)
From Coq Require Import List Bool Arith.
From RX Require Import ConcQueue.
Import ListNotations.

Inductive ipc := ISleeping | IWoken | IEmitting | IAborting | IReturning | IFinished.
Record icfg := { i_d : nat; i_once : bool;          (* period; timer(d) instead of interval(d) *)
                 i_open : bool; i_pc : ipc; i_n : nat; i_clock : nat;
                 i_closed_at : option nat;          (* clock value when the subscription ended *)
                 i_log : list (nat * nat);          (* (tick, clock) delivered; for timer the complete is implicit *)
                 i_q : qst }.
Inductive iact := IWake | ICheck | IEmit | IAbort | IReturn | IWorker | IClose.

Definition upd (c : icfg) (open : bool) (pc : ipc) (n clock : nat) (ca : option nat) (log : list (nat * nat)) (q : qst) : icfg :=
  {| i_d := i_d c; i_once := i_once c; i_open := open; i_pc := pc; i_n := n; i_clock := clock; i_closed_at := ca; i_log := log; i_q := q |}.

Definition istep (c : icfg) (a : iact) : icfg :=
  match a, i_pc c with
  | IWake, ISleeping => upd c (i_open c) IWoken (i_n c) (i_clock c + i_d c) (i_closed_at c) (i_log c) (i_q c)
  | ICheck, IWoken =>
      (* timer(d) does not look at is_subscribed: it emits (into a possibly closed observer), completes and aborts *)
      upd c (i_open c) (if i_once c then IEmitting else if i_open c then IEmitting else IAborting) (i_n c) (i_clock c) (i_closed_at c) (i_log c) (i_q c)
  | IEmit, IEmitting =>
      upd c (if i_once c then false else i_open c) (if i_once c then IAborting else ISleeping) (S (i_n c)) (i_clock c)
          (if i_once c then (match i_closed_at c with Some t => Some t | None => Some (i_clock c) end) else i_closed_at c)
          (if i_open c then i_log c ++ [(i_n c, i_clock c)] else i_log c) (i_q c)
  | IAbort, IAborting => upd c (i_open c) IReturning (i_n c) (i_clock c) (i_closed_at c) (i_log c) (qstep (i_q c) QStop)
  | IReturn, IReturning => upd c (i_open c) IFinished (i_n c) (i_clock c) (i_closed_at c) (i_log c) (qstep (i_q c) QDone)
  | IWorker, IFinished => upd c (i_open c) IFinished (i_n c) (i_clock c) (i_closed_at c) (i_log c) (qstep (i_q c) QCheck)
  | IClose, _ => if i_open c then upd c false (i_pc c) (i_n c) (i_clock c) (Some (i_clock c)) (i_log c) (i_q c) else c
  | _, _ => c
  end.
Definition irun (acts : list iact) (c : icfg) : icfg := fold_left istep acts c.
(* the loop has been posted and the worker has taken it from the queue *)
Definition iinit (d : nat) (once : bool) : icfg :=
  {| i_d := d; i_once := once; i_open := true; i_pc := ISleeping; i_n := 0; i_clock := 0; i_closed_at := None; i_log := [];
     i_q := qstep (qstep q0 (QPost 0)) QCheck |}.
(* the worker thread's next own step *)
Definition own (c : icfg) : iact :=
  match i_pc c with ISleeping => IWake | IWoken => ICheck | IEmitting => IEmit | IAborting => IAbort | IReturning => IReturn | IFinished => IWorker end.
Fixpoint run_own (k : nat) (c : icfg) : icfg := match k with 0 => c | S k => run_own k (istep c (own c)) end.
