(* C09: observe_on(new-thread scheduler) = the source's observer POSTS one task per event to the scheduler queue
   (src/operators/observe_on.rs: execute) + the queue/worker of Model/ConcQueue.v + the task body, which sinks the event
   into the subscriber and, for a terminal or a subscriber that has left, finalizes: finalize aborts the scheduler
   (set_on_finalize).  Events are numbered 0..n-1 in the source's emission order; o_term says that the last one is
   the terminal (a contract-conform source, C01).  Steps:
     OEmit     the emitting thread posts its next event                       (QPost)
     OWorker   a worker step of the queue: QCheck / QWake
     ODeliver  the running task sinks its event: delivered iff the subscriber is still open; a terminal closes it
     OAfter    the running task finalizes after a terminal or a closed subscriber (QStop) and returns (QDone)
     OUnsub    another thread unsubscribes: closes the subscriber and finalizes (QStop) - at most once
   Definitions only. *)
From Coq Require Import List Bool Arith.
From RX Require Import ConcQueue.
Import ListNotations.

Inductive otpc := OStart | ODelivered.
Record ocfg := { o_n : nat; o_term : bool;
                 o_q : qst; o_next : nat; o_open : bool; o_unsub : bool; o_tpc : otpc;
                 o_log : list nat }.
Inductive oact := OEmit | OWorker (w : qop) | ODeliver | OAfter | OUnsub.

Definition is_term (c : ocfg) (t : nat) : bool := o_term c && Nat.eqb (S t) (o_n c).
Definition set_q (c : ocfg) (q : qst) : ocfg :=
  {| o_n := o_n c; o_term := o_term c; o_q := q; o_next := o_next c; o_open := o_open c; o_unsub := o_unsub c; o_tpc := o_tpc c; o_log := o_log c |}.

Definition ostep (c : ocfg) (a : oact) : ocfg :=
  match a with
  | OEmit => if Nat.ltb (o_next c) (o_n c)
             then {| o_n := o_n c; o_term := o_term c; o_q := qstep (o_q c) (QPost (o_next c)); o_next := S (o_next c);
                     o_open := o_open c; o_unsub := o_unsub c; o_tpc := o_tpc c; o_log := o_log c |}
             else c
  | OWorker QCheck => set_q c (qstep (o_q c) QCheck)
  | OWorker QWake => set_q c (qstep (o_q c) QWake)
  | OWorker _ => c
  | ODeliver =>
      match q_worker (o_q c), o_tpc c with
      | WRunning t, OStart =>
          {| o_n := o_n c; o_term := o_term c; o_q := o_q c; o_next := o_next c;
             o_open := if o_open c then negb (is_term c t) else false;
             o_unsub := o_unsub c; o_tpc := ODelivered;
             o_log := if o_open c then o_log c ++ [t] else o_log c |}
      | _, _ => c
      end
  | OAfter =>
      match q_worker (o_q c), o_tpc c with
      | WRunning t, ODelivered =>
          {| o_n := o_n c; o_term := o_term c;
             o_q := qstep (if o_open c then o_q c else qstep (o_q c) QStop) QDone;
             o_next := o_next c; o_open := o_open c; o_unsub := o_unsub c; o_tpc := OStart; o_log := o_log c |}
      | _, _ => c
      end
  | OUnsub => if o_unsub c then c else
              {| o_n := o_n c; o_term := o_term c; o_q := qstep (o_q c) QStop; o_next := o_next c;
                 o_open := false; o_unsub := true; o_tpc := o_tpc c; o_log := o_log c |}
  end.
Definition orun (acts : list oact) (c : ocfg) : ocfg := fold_left ostep acts c.
Definition oinit (n : nat) (term : bool) : ocfg :=
  {| o_n := n; o_term := term; o_q := q0; o_next := 0; o_open := true; o_unsub := false; o_tpc := OStart; o_log := [] |}.
