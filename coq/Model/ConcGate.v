(* C19 / C05(T3): the Observer gate under ANY number of threads and ANY interleaving.
   Model of src/observer.rs + src/internals/function_wrapper.rs at the granularity of one lock-protected
   critical section per step (Appendix B of DESIGN.md, after the `fix:` commit ff106d0):

     next x      : R(fn_next) clone-or-None                         ; if Some: invoke
     error e     : W(fn_error) take ; if Some: W(fn_next) clear ; W(fn_complete) clear ; invoke
     complete    : W(fn_error) take ; if Some: W(fn_next) clear ; W(fn_complete) take ; if Some: invoke
     unsubscribe : W(fn_next) clear ; W(fn_error) clear ; W(fn_complete) clear      (raw observer: no teardown)

   A callback invocation is two steps (start, return) so that "started after the terminal callback
   returned" is expressible.  Threads are a total function nat -> thread: any number of threads, each with
   any list of calls.  Definitions only. *)
From Coq Require Import List Bool Arith.
Import ListNotations.

Inductive gcall := GNext (v : nat) | GError | GComplete | GUnsub.
Inductive gev := GN (v : nat) | GE | GC.
Definition gterm (e : gev) : bool := match e with GN _ => false | _ => true end.

Inductive gpc :=
| PIdle
| PNextFetched (v : nat)                 (* holds a clone of fn_next *)
| PErr1 | PErr2 | PErr3                  (* took fn_error ; cleared fn_next ; cleared fn_complete *)
| PComp1 | PComp2 | PComp3               (* took fn_error ; cleared fn_next ; took fn_complete *)
| PInCb (e : gev)                        (* the user's callback is running *)
| PUnsub1 | PUnsub2.                     (* cleared fn_next ; cleared fn_error *)

Record gthread := { g_prog : list gcall; g_pc : gpc; g_late : bool }.
   (* g_late: the call in progress began after a terminal callback, or an unsubscribe call, had returned *)

Inductive gevent :=
| EvBegin (t : nat) (c : gcall)
| EvCbStart (t : nat) (e : gev) (late : bool)
| EvCbRet (t : nat) (e : gev).

Record gcfg := { g_n : bool; g_e : bool; g_c : bool;          (* slots present? *)
                 g_termret : bool;                            (* a terminal callback, or an unsubscribe call, has returned *)
                 g_thr : nat -> gthread;
                 g_trace : list gevent }.

Definition gupd (f : nat -> gthread) (t : nat) (x : gthread) : nat -> gthread := fun i => if Nat.eqb i t then x else f i.
Definition set_pc (th : gthread) (p : gpc) : gthread := {| g_prog := g_prog th; g_pc := p; g_late := g_late th |}.

Definition gstep (c : gcfg) (t : nat) : gcfg :=
  let th := g_thr c t in
  let put (n e cc : bool) (tr : bool) (th' : gthread) (evs : list gevent) :=
    {| g_n := n; g_e := e; g_c := cc; g_termret := tr; g_thr := gupd (g_thr c) t th'; g_trace := g_trace c ++ evs |} in
  match g_pc th with
  | PIdle =>
      match g_prog th with
      | [] => c
      | call :: rest =>
          let th0 := {| g_prog := rest; g_pc := PIdle; g_late := g_termret c |} in
          match call with
          | GNext v => put (g_n c) (g_e c) (g_c c) (g_termret c) (set_pc th0 (if g_n c then PNextFetched v else PIdle)) [EvBegin t call]
          | GError => if g_e c then put (g_n c) false (g_c c) (g_termret c) (set_pc th0 PErr1) [EvBegin t call]
                      else put (g_n c) (g_e c) (g_c c) (g_termret c) th0 [EvBegin t call]
          | GComplete => if g_e c then put (g_n c) false (g_c c) (g_termret c) (set_pc th0 PComp1) [EvBegin t call]
                         else put (g_n c) (g_e c) (g_c c) (g_termret c) th0 [EvBegin t call]
          | GUnsub => put false (g_e c) (g_c c) (g_termret c) (set_pc th0 PUnsub1) [EvBegin t call]
          end
      end
  | PNextFetched v => put (g_n c) (g_e c) (g_c c) (g_termret c) (set_pc th (PInCb (GN v))) [EvCbStart t (GN v) (g_late th)]
  | PErr1 => put false (g_e c) (g_c c) (g_termret c) (set_pc th PErr2) []
  | PErr2 => put (g_n c) (g_e c) false (g_termret c) (set_pc th PErr3) []
  | PErr3 => put (g_n c) (g_e c) (g_c c) (g_termret c) (set_pc th (PInCb GE)) [EvCbStart t GE (g_late th)]
  | PComp1 => put false (g_e c) (g_c c) (g_termret c) (set_pc th PComp2) []
  | PComp2 => if g_c c then put (g_n c) (g_e c) false (g_termret c) (set_pc th PComp3) []
              else put (g_n c) (g_e c) (g_c c) (g_termret c) (set_pc th PIdle) []
  | PComp3 => put (g_n c) (g_e c) (g_c c) (g_termret c) (set_pc th (PInCb GC)) [EvCbStart t GC (g_late th)]
  | PInCb e => put (g_n c) (g_e c) (g_c c) (g_termret c || gterm e) (set_pc th PIdle) [EvCbRet t e]
  | PUnsub1 => put (g_n c) false (g_c c) (g_termret c) (set_pc th PUnsub2) []
  | PUnsub2 => put (g_n c) (g_e c) false true (set_pc th PIdle) []          (* unsubscribe returns *)
  end.

Definition grun (sched : list nat) (c : gcfg) : gcfg := fold_left gstep sched c.

Definition ginit (progs : nat -> list gcall) : gcfg :=
  {| g_n := true; g_e := true; g_c := true; g_termret := false;
     g_thr := fun t => {| g_prog := progs t; g_pc := PIdle; g_late := false |}; g_trace := [] |}.

(* ---- what the property says about a trace ---- *)
Definition is_term_start (e : gevent) : bool := match e with EvCbStart _ ev _ => gterm ev | _ => false end.
Definition n_term_starts (tr : list gevent) : nat := length (filter is_term_start tr).
Definition is_late_start (e : gevent) : bool := match e with EvCbStart _ _ late => late | _ => false end.

(* executable oracle over the callbacks observed on the implementation: starts / returns in log order
   with the index of the `call` record each belongs to.  (cb kind, position of its call's begin, position of
   the start, position of the return) *)
Definition gate_oracle (cbs : list (gev * nat * nat * nat)) : bool :=
  (Nat.leb (length (filter (fun x => gterm (fst (fst (fst x)))) cbs)) 1) &&
  forallb (fun x : gev * nat * nat * nat =>
             let '(_, begin_x, _, _) := x in
             forallb (fun y : gev * nat * nat * nat =>
                        let '(ey, _, _, ret_y) := y in
                        negb (gterm ey && Nat.ltb ret_y begin_x)) cbs) cbs.
