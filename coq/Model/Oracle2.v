(* Executable oracles for C05, C06, C10, C13 (sequential parts): the statement of each property as
   a boolean function of the driver script and of the harness's observation.  Definitions only. *)
From Coq Require Import List ZArith Bool Arith.
From RX Require Import Val Syntax World Step Spec Oracle.
Import ListNotations.

(* ------------------------------------------------------------------ reading the driver script *)
Fixpoint index_from {A} (i : nat) (l : list A) : list (nat * A) :=
  match l with [] => [] | x :: r => (i, x) :: index_from (S i) r end.
Definition actions (sc : scenario) : list (nat * action) := index_from 1 (sc_script sc).   (* `cur` is 1-based *)

Definition first_some {A} (l : list (option A)) : option A :=
  fold_right (fun o acc => match o with Some x => Some x | None => acc end) None l.

Definition sub_at (sc : scenario) (k : nat) : option nat :=
  first_some (map (fun ia => match snd ia with DSub k' _ _ => if Nat.eqb k k' then Some (fst ia) else None | _ => None end) (actions sc)).
Definition unsub_at (sc : scenario) (k : nat) : option nat :=
  match sub_at sc k with
  | Some s => first_some (map (fun ia => match snd ia with
                                         | DUnsub k' => if Nat.eqb k k' && Nat.ltb s (fst ia) then Some (fst ia) else None
                                         | _ => None
                                         end) (actions sc))
  | None => None
  end.
Definition reactions_of (sc : scenario) (k : nat) : list (nat * reaction) :=
  flat_map (fun a => match a with DSub k' _ rs => if Nat.eqb k k' then rs else [] | _ => [] end) (sc_script sc).
Definition pipe_of (sc : scenario) (k : nat) : option pipe :=
  first_some (map (fun a => match a with DSub k' p _ => if Nat.eqb k k' then Some p else None | _ => None end) (sc_script sc)).

(* reactions that make the simple oracles inapplicable: cross-handle unsubscription and nested subscription *)
Definition simple_reactions (sc : scenario) : bool :=
  forallb (fun a => match a with
                    | DSub _ _ rs => forallb (fun ir => match snd ir with RUnsub _ | RSub _ _ => false | _ => true end) rs
                    | _ => true
                    end) (sc_script sc).

(* the entries of one subscriber, with the driver action index and the position in the global log *)
Definition uentries (u : nat) (l : list (nat * nat * ev)) : list (nat * nat * ev) :=      (* (position, action index, event) *)
  flat_map (fun pe : nat * (nat * nat * ev) =>
              let '(pos, (u', c, e)) := pe in if Nat.eqb u' u then [(pos, c, e)] else []) (index_from 0 l).

Definition term_entry (es : list (nat * nat * ev)) : option (nat * nat) :=      (* (position, action index) of the first terminal *)
  first_some (map (fun pce : nat * nat * ev => let '(p, c, e) := pce in if is_term e then Some (p, c) else None) es).

(* the callback (0-based) at which handle k unsubscribes itself, if its Subscription existed by then *)
Definition self_unsub_entry (sc : scenario) (k : nat) (es : list (nat * nat * ev)) : option (nat * nat) :=
  match sub_at sc k with
  | Some s =>
      first_some (map (fun ir : nat * reaction =>
                         match snd ir with
                         | RUnsubSelf => match nth_error es (fst ir) with
                                         | Some (p, c, _) => if Nat.ltb s c then Some (p, c) else None
                                         | None => None
                                         end
                         | _ => None
                         end) (reactions_of sc k))
  | None => None
  end.

(* ------------------------------------------------------------------ C05 *)
(* no callback after unsubscribe returned; is_subscribed true exactly from subscribe to the first
   terminal / unsubscribe *)
Definition c05_handle (sc : scenario) (o : observation) (k : nat) : bool :=
  let es := uentries (uenc (UTop k)) (ob_log o) in
  let ua := unsub_at sc k in
  let su := self_unsub_entry sc k es in
  let te := term_entry es in
  (* (1) nothing at or after the driver's unsubscribe action *)
  (match ua with Some a => forallb (fun pce : nat * nat * ev => Nat.ltb (snd (fst pce)) a) es | None => true end) &&
  (* (2) nothing after the callback that unsubscribed itself *)
  (match su with Some (p, _) => forallb (fun pce : nat * nat * ev => Nat.leb (fst (fst pce)) p) es | None => true end) &&
  (* (3) the flag after every driver action *)
  forallb (fun snap : nat * list bool * list nat =>
             let '(j, flags, _) := snap in
             let expected :=
               match sub_at sc k with
               | Some s => Nat.leb s j &&
                           negb (match ua with Some a => Nat.leb a j | None => false end) &&
                           negb (match su with Some (_, c) => Nat.leb c j | None => false end) &&
                           negb (match te with Some (_, c) => Nat.leb c j | None => false end)
               | None => false
               end in
             Bool.eqb (nth k flags false) expected) (ob_snaps o).

Definition c05_oracle (sc : scenario) (o : observation) : option bool :=
  if negb (Nat.eqb (ob_out o) 0) then None
  else if negb (simple_reactions sc) then None
  else Some (forallb (c05_handle sc o) (seq 0 (sc_handles sc))).

(* ------------------------------------------------------------------ C06 *)
(* After the end of the subscription (handle 0, the only one whose pipe reaches cold sources) every
   emission attempt of every cold source finds its observer unsubscribed, and once every handle has
   ended no driver-visible subject holds an observer. *)
Fixpoint colds_in (p : pipe) : bool :=
  match p with
  | PCold _ => true
  | PDefer q => colds_in q
  | POp _ src others => colds_in src || (fix any (l : list pipe) : bool := match l with [] => false | q :: r => colds_in q || any r end) others
  | _ => false
  end.

Definition end_marks (sc : scenario) (o : observation) (k : nat) : option nat * option nat :=
  (* (log position after which the subscription has ended, driver action from which it has ended) *)
  let es := uentries (uenc (UTop k)) (ob_log o) in
  let by_term := match term_entry es with Some (p, _) => Some p | None => None end in
  let by_self := match self_unsub_entry sc k es with Some (p, _) => Some p | None => None end in
  (match by_term, by_self with
   | Some a, Some b => Some (Nat.min a b)
   | Some a, None => Some a
   | None, b => b
   end, unsub_at sc k).

Definition c06_oracle (sc : scenario) (o : observation) : option bool :=
  if negb (Nat.eqb (ob_out o) 0) then None
  else if negb (simple_reactions sc) then None
  else
    (* cold sources only below handle 0, and none below connectables *)
    let others_cold := existsb (fun k => match pipe_of sc k with Some p => colds_in p | None => false end) (seq 1 (sc_handles sc - 1)) in
    (* a cold source below ref_count / replay is stopped when the only subscriber leaves; below publish it belongs to the connection *)
    let conns_cold := existsb (fun kp : ckind * pipe => colds_in (snd kp) &&
                                 match fst kp with CPublish => true | _ => negb (Nat.eqb (sc_handles sc) 1) end) (sc_conns sc) in
    if others_cold || conns_cold then None
    else
      let '(pos_end, act_end) := end_marks sc o 0 in
      (* a hand-driven source (id >= 1000) pushed from INSIDE the subscriber's terminal callback (a push reaction on that very
         callback): the terminal's delivery has not returned yet, the teardown follows it - such a probe is not constrained *)
      let es0 := uentries (uenc (UTop 0)) (ob_log o) in
      let in_term_cb (s loglen c : nat) :=
        match term_entry es0 with
        | Some (p, ct) =>
            Nat.leb 1000 s && Nat.eqb loglen (S p) && Nat.eqb c ct &&
            existsb (fun ir : nat * reaction =>
                       Nat.eqb (fst ir) (length (filter (fun pce : nat * nat * ev => Nat.ltb (fst (fst pce)) p) es0)) &&
                       match snd ir with RPush _ _ => true | _ => false end) (reactions_of sc 0)
        | None => false
        end in
      let probes_ok :=
        forallb (fun pr : nat * nat * nat * bool * nat * nat =>
                   let '(s, _, _, alive, loglen, c) := pr in
                   let after_pos := match pos_end with Some p => Nat.ltb p loglen | None => false end in
                   let after_act := match act_end with Some a => Nat.leb a c | None => false end in
                   if (after_pos || after_act) && negb (in_term_cb s loglen c) then negb alive else true) (ob_probes o) in
      let all_ended (flags : list bool) := forallb negb flags in
      let counts_ok :=
        match rev (ob_snaps o) with
        | (_, flags, counts) :: _ =>
            (* a publish connection is a subscription of its own: it legitimately keeps the source's observer *)
            if all_ended flags && negb (existsb (fun a => match a with DConnect _ _ => true | _ => false end) (sc_script sc))
            then forallb (fun n => Nat.eqb n 0) counts else true
        | [] => true
        end in
      Some (probes_ok && counts_ok).

(* ------------------------------------------------------------------ C10: reference machines of the four subjects *)
Record sref := { r_reg : list nat;            (* handles currently registered *)
                 r_items : list val;          (* every item pushed so far *)
                 r_term : option ev;          (* stored terminal *)
                 r_logs : nat -> list ev;     (* what each handle must have seen *)
                 r_joined_at : nat -> nat }.  (* number of items pushed when the handle joined (AsyncSubject) *)
Definition r_add_log (r : sref) (k : nat) (es : list ev) : sref :=
  {| r_reg := r_reg r; r_items := r_items r; r_term := r_term r;
     r_logs := fun x => if Nat.eqb x k then r_logs r x ++ es else r_logs r x; r_joined_at := r_joined_at r |}.
Definition r_deliver (r : sref) (es : list ev) : sref := fold_left (fun acc k => r_add_log acc k es) (r_reg r) r.
Definition r_set_reg (r : sref) (l : list nat) : sref :=
  {| r_reg := l; r_items := r_items r; r_term := r_term r; r_logs := r_logs r; r_joined_at := r_joined_at r |}.
Definition r_push (r : sref) (v : val) : sref :=
  {| r_reg := r_reg r; r_items := r_items r ++ [v]; r_term := r_term r; r_logs := r_logs r; r_joined_at := r_joined_at r |}.
Definition r_set_term (r : sref) (t : ev) : sref :=
  {| r_reg := r_reg r; r_items := r_items r; r_term := Some t; r_logs := r_logs r; r_joined_at := r_joined_at r |}.
Definition r_join (r : sref) (k : nat) : sref :=
  {| r_reg := r_reg r ++ [k]; r_items := r_items r; r_term := r_term r; r_logs := r_logs r;
     r_joined_at := fun x => if Nat.eqb x k then length (r_items r) else r_joined_at r x |}.

Definition sref0 (init : option val) : sref :=
  {| r_reg := []; r_items := match init with Some v => [v] | None => [] end; r_term := None; r_logs := fun _ => []; r_joined_at := fun _ => 0 |}.

Definition sref_step (kind : skind) (r : sref) (a : action) : sref :=
  match a with
  | DSub k _ _ =>
      match kind with
      | KSubject | KAsync => r_join r k                        (* no memory of a terminal: a late joiner is registered and hears nothing *)
      | KBehavior =>
          match r_term r with
          | Some t => r_add_log r k [t]
          | None => r_join (r_add_log r k (match last (map Some (r_items r)) None with Some v => [Nx v] | None => [] end)) k
          end
      | KReplay =>
          let r1 := r_add_log r k (map Nx (r_items r)) in
          match r_term r with Some t => r_add_log r1 k [t] | None => r_join r1 k end
      end
  | DUnsub k => r_set_reg r (filter (fun x => negb (Nat.eqb x k)) (r_reg r))
  | DEmit _ (Nx v) =>
      match kind with
      | KAsync => r_push r v
      | _ => r_deliver (r_push r v) [Nx v]
      end
  | DEmit _ (Er e) => r_set_reg (r_deliver (r_set_term r (Er e)) [Er e]) []
  | DEmit _ Co =>
      match kind with
      | KAsync =>
          (* the last item, then complete: the crate gives a subscriber the last item pushed SINCE IT JOINED *)
          let r1 := fold_left (fun acc k =>
                                 r_add_log acc k (match last (map Some (skipn (r_joined_at r k) (r_items r))) None with
                                                  | Some v => [Nx v; Co]
                                                  | None => [Co]
                                                  end)) (r_reg r) r in
          r_set_reg (r_set_term r1 Co) []
      | _ => r_set_reg (r_deliver (r_set_term r Co) [Co]) []
      end
  | _ => r
  end.

(* is the subject used after its own terminal?  (outside the oracle for the history-keeping kinds) *)
Fixpoint emits_after_terminal (seen : bool) (l : list action) : bool :=
  match l with
  | [] => false
  | DEmit _ e :: r => if seen then true else emits_after_terminal (is_term e) r
  | _ :: r => emits_after_terminal seen r
  end.

Definition direct_or_id (p : pipe) : bool :=
  match p with
  | PHot 0 => true
  | POp (OMap FId) (PHot 0) [] => true
  | POp OMapToAny (PHot 0) [] => true
  | POp (OFilter PTrue) (PHot 0) [] => true
  | _ => false
  end.

Definition c10_oracle (sc : scenario) (o : observation) : option bool :=
  match sc_subjects sc, sc_conns sc with
  | [(kind, init)], [] =>
      if negb (Nat.eqb (ob_out o) 0) then None
      else if negb (forallb (fun a => match a with
                                     | DSub _ (PRef i) [] => direct_or_id (nth i (sc_defs sc) PNever)     (* one Observable value shared by several subscribers *)
                                     | DSub _ p [] => direct_or_id p
                                     | DSub _ _ _ => false
                                     | DEmit h _ => Nat.eqb h 0
                                     | DUnsub _ => true
                                     | _ => false
                                     end) (sc_script sc)) then None
      else if (match kind with KSubject => false | _ => true end) && emits_after_terminal false (sc_script sc) then None
      else
        let r := fold_left (sref_step kind) (sc_script sc) (sref0 (match kind with KBehavior => init | _ => None end)) in
        Some (forallb (fun k => evs_sim (ulog (uenc (UTop k)) (ob_log o)) (r_logs r k)) (seq 0 (sc_handles sc)) &&
              (* a plain Subject holds exactly the registered observers after every action *)
              match kind with
              | KSubject =>
                  let states := fold_left (fun acc a => acc ++ [sref_step kind (last acc (sref0 None)) a]) (sc_script sc) [sref0 None] in
                  forallb (fun js : nat * sref =>
                             match nth_error (ob_snaps o) (fst js) with
                             | Some (_, _, counts) => Nat.eqb (nth 0 counts 0) (length (r_reg (snd js)))
                             | None => true
                             end) (combine (seq 0 (length (sc_script sc))) (tl states))
              | _ => true
              end)
  | _, _ => None
  end.

(* ------------------------------------------------------------------ C13: reference machine of the connectables *)
Record cref := { q_reg : list nat; q_conn : bool; q_items : list val; q_term : option ev;
                 q_logs : nat -> list ev; q_attempts : nat; q_dbl : bool (* a second connect while connected: outside the oracle *);
                 q_live : option nat (* publish: the connection handle of the live connection *) }.
Definition q_add_log (r : cref) (k : nat) (es : list ev) : cref :=
  {| q_reg := q_reg r; q_conn := q_conn r; q_items := q_items r; q_term := q_term r;
     q_logs := fun x => if Nat.eqb x k then q_logs r x ++ es else q_logs r x; q_attempts := q_attempts r; q_dbl := q_dbl r; q_live := q_live r |}.
Definition q_upd (r : cref) (reg : list nat) (conn : bool) : cref :=
  {| q_reg := reg; q_conn := conn; q_items := q_items r; q_term := q_term r; q_logs := q_logs r; q_attempts := q_attempts r; q_dbl := q_dbl r; q_live := q_live r |}.
Definition q_set_live (r : cref) (l : option nat) : cref :=
  {| q_reg := q_reg r; q_conn := q_conn r; q_items := q_items r; q_term := q_term r; q_logs := q_logs r; q_attempts := q_attempts r; q_dbl := q_dbl r; q_live := l |}.
Definition q_deliver (r : cref) (es : list ev) : cref := fold_left (fun acc k => q_add_log acc k es) (q_reg r) r.

(* the source signals e while subscribed *)
Definition q_source_ev (kind : ckind) (r : cref) (e : ev) : cref :=
  if q_conn r then
    match e with
    | Nx v => let r1 := q_deliver r [Nx v] in
              {| q_reg := q_reg r1; q_conn := true; q_items := q_items r1 ++ [v]; q_term := q_term r1; q_logs := q_logs r1;
                 q_attempts := q_attempts r1; q_dbl := q_dbl r1; q_live := q_live r1 |}
    | t => let r1 := q_deliver r [t] in
           {| q_reg := []; q_conn := false; q_items := q_items r1; q_term := Some t; q_logs := q_logs r1;
              q_attempts := q_attempts r1; q_dbl := q_dbl r1; q_live := q_live r1 |}
    end
  else r.

(* the source gets subscribed: a cold source plays its (well-formed) script at once *)
Definition q_connect (kind : ckind) (cold : option (list ev)) (r : cref) : cref :=
  let r1 := {| q_reg := q_reg r; q_conn := true; q_items := q_items r; q_term := q_term r; q_logs := q_logs r;
               q_attempts := S (q_attempts r); q_dbl := q_dbl r || q_conn r; q_live := q_live r |} in
  match cold with
  | Some script => fold_left (q_source_ev kind) script r1
  | None => r1
  end.

Definition cref_step (kind : ckind) (cold : option (list ev)) (r : cref) (a : action) : cref :=
  match a with
  | DSub k _ _ =>
      match kind with
      | CPublish => q_upd r (q_reg r ++ [k]) (q_conn r)
      | CRefCount =>
          let r1 := q_upd r (q_reg r ++ [k]) (q_conn r) in
          if q_conn r then r1 else q_connect kind cold r1
      | CReplay =>
          (* everything the source emitted so far, then the stored terminal or the live stream *)
          let r0 := q_add_log r k (map Nx (q_items r)) in
          match q_term r with
          | Some t => q_add_log r0 k [t]
          | None => let r1 := q_upd r0 (q_reg r0 ++ [k]) (q_conn r0) in
                    if q_conn r then r1 else q_connect kind cold r1
          end
      end
  | DUnsub k =>
      let reg := filter (fun x => negb (Nat.eqb x k)) (q_reg r) in
      match kind with
      | CPublish => q_upd r reg (q_conn r)
      | _ => q_upd r reg (match reg with [] => false | _ => q_conn r end)      (* the last one leaving stops the source *)
      end
  | DConnect _ x => match kind with CPublish => q_set_live (q_connect kind cold r) (Some x) | _ => r end
  | DDisconnect x =>      (* only the handle of the live connection stops the source *)
      match kind with
      | CPublish => match q_live r with
                    | Some y => if Nat.eqb x y then q_set_live (q_upd r (q_reg r) false) None else r
                    | None => r
                    end
      | _ => r
      end
  | DEmit _ e => q_source_ev kind r e
  | DPush _ _ => r
  end.

Definition cref0 : cref := {| q_reg := []; q_conn := false; q_items := []; q_term := None; q_logs := fun _ => []; q_attempts := 0; q_dbl := false; q_live := None |}.

Definition c13_oracle (sc : scenario) (o : observation) : option bool :=
  match sc_conns sc with
  | [(kind, srcp)] =>
      let cold : option (option (list ev)) :=
        match srcp with
        | PHot 0 => match sc_subjects sc with [(KSubject, _)] => Some None | _ => None end
        | PCold 0 => match scripts_of sc 0 with
                     | l :: _ => match parse_script l with Some i => Some (Some (events i)) | None => None end
                     | [] => None
                     end
        | _ => None
        end in
      match cold with
      | None => None
      | Some cold =>
          if negb (Nat.eqb (ob_out o) 0) then None
          else if negb (forallb (fun a => match a with
                                         | DSub _ (PConn 0) [] => true
                                         | DSub _ _ _ => false
                                         | DEmit h _ => Nat.eqb h 0 && match cold with None => true | Some _ => false end
                                         | _ => true
                                         end) (sc_script sc)) then None
          else
            let states := fold_left (fun acc a => acc ++ [cref_step kind cold (last acc cref0) a]) (sc_script sc) [cref0] in
            let r := last states cref0 in
            if q_dbl r then None
            else
              Some (forallb (fun k => evs_sim (ulog (uenc (UTop k)) (ob_log o)) (q_logs r k)) (seq 0 (sc_handles sc)) &&
                    (* the number of live source subscriptions after every action (hot source: its observer count) *)
                    match cold with
                    | None =>
                        forallb (fun js : nat * cref =>
                                   match nth_error (ob_snaps o) (fst js) with
                                   | Some (_, _, counts) => Nat.eqb (nth 0 counts 0) (if q_conn (snd js) then 1 else 0)
                                   | None => true
                                   end) (combine (seq 0 (length (sc_script sc))) (tl states))
                    | Some _ =>
                        (* cold source: number of subscriptions made = probes' attempts *)
                        Nat.eqb (length (nodup Nat.eq_dec (map (fun pr : nat * nat * nat * bool * nat * nat =>
                                                                let '(_, att, _, _, _, _) := pr in att) (ob_probes o))))
                                (q_attempts r)
                    end)
      end
  | _ => None
  end.

(* ------------------------------------------------------------------ C06 on the model's final world: at quiescence every controller
   whose subscriber has ended has an empty upstream map, and every observer made by such a controller is unsubscribed *)
Definition closure_ok (w : world) : bool :=
  forallb (fun c => let ct := ctls w c in
                    if is_sub (obs w (c_sub ct)) then true else match c_uns ct with [] => true | _ => false end) (seq 0 (n_ctls w)) &&
  forallb (fun o => match o_tgt (obs w o) with
                    | THandler n _ _ => if Nat.ltb n (n_nodes w)
                                        then is_sub (obs w (c_sub (ctls w (n_ctl (nodes w n))))) || negb (is_sub (obs w o))
                                        else true
                    | _ => true
                    end) (seq 0 (n_obs w)).
