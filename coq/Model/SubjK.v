(* K-automata of the four subject kinds (src/subjects/*.rs), for histories in which observers are
   attached DIRECTLY and callbacks do not re-enter the library: every driver call then runs to
   completion, so one call is one function application.  Line-by-line mirror of
     Subject::{next,error,complete,observable}      (serial-keyed observer map, snapshot / clear / call,
                                                     teardown closure that removes its own serial)
     BehaviorSubject / ReplaySubject::{next,error,complete,observable}   (history cells; forwarding
                                                     observer registered in the inner Subject; sbsc cell;
                                                     replay gate `ready`)
     AsyncSubject::observable = subject.observable().take_last(1)
   Definitions only.  The sequential machine (Step.v) runs the same code paths for arbitrary pipelines;
   this specialisation exists so that the whole-history refinement theorem (Proofs/SubjKRef.v) is an
   induction over the call list.  ./vp compares implementation = Step = SubjK on every C10 history. *)
From Coq Require Import List ZArith Bool Arith.
From RX Require Import Val Syntax Step.
Import ListNotations.

Record sk := {
  sk_obs : list (nat * nat);     (* inner Subject.observers as (serial, handle whose observer it is) *)
  sk_serial : nat;               (* inner Subject.serial *)
  sk_last : option val;          (* BehaviorSubject.last_item *)
  sk_err : option err;           (* last_error / was_error *)
  sk_items : list val;           (* ReplaySubject.items *)
  sk_done : bool;                (* ReplaySubject.was_completed *)
  sk_used : nat -> bool;         (* the driver has subscribed handle k *)
  sk_ualive : nat -> bool;       (* handle k's own Observer still has its callback slots *)
  sk_falive : nat -> bool;       (* the observer made on k's behalf and registered in the inner Subject
                                    (forwarder of Behavior/Replay, take_last's upstream observer of Async) *)
  sk_ready : nat -> bool;        (* ReplaySubject: k's `ready` gate *)
  sk_ser : nat -> option nat;    (* the serial captured by the teardown closure of the registered observer *)
  sk_td : nat -> bool;           (* k's own Observer still has its teardown slot *)
  sk_unsub : nat -> bool;        (* k's Subscription.fn_unsubscribe not yet consumed *)
  sk_buf : nat -> list val;      (* AsyncSubject: take_last(1)'s buffer *)
  sk_logs : nat -> list ev }.

Definition updf {A} (f : nat -> A) (k : nat) (v : A) : nat -> A := fun x => if Nat.eqb x k then v else f x.

Definition sk0 (init : option val) : sk :=
  {| sk_obs := []; sk_serial := 0; sk_last := init; sk_err := None; sk_items := []; sk_done := false;
     sk_used := fun _ => false; sk_ualive := fun _ => false; sk_falive := fun _ => false; sk_ready := fun _ => false;
     sk_ser := fun _ => None; sk_td := fun _ => false; sk_unsub := fun _ => false; sk_buf := fun _ => []; sk_logs := fun _ => [] |}.

Definition s_obs s v := {| sk_obs := v; sk_serial := sk_serial s; sk_last := sk_last s; sk_err := sk_err s; sk_items := sk_items s; sk_done := sk_done s; sk_used := sk_used s; sk_ualive := sk_ualive s; sk_falive := sk_falive s; sk_ready := sk_ready s; sk_ser := sk_ser s; sk_td := sk_td s; sk_unsub := sk_unsub s; sk_buf := sk_buf s; sk_logs := sk_logs s |}.
Definition s_serial s v := {| sk_obs := sk_obs s; sk_serial := v; sk_last := sk_last s; sk_err := sk_err s; sk_items := sk_items s; sk_done := sk_done s; sk_used := sk_used s; sk_ualive := sk_ualive s; sk_falive := sk_falive s; sk_ready := sk_ready s; sk_ser := sk_ser s; sk_td := sk_td s; sk_unsub := sk_unsub s; sk_buf := sk_buf s; sk_logs := sk_logs s |}.
Definition s_last s v := {| sk_obs := sk_obs s; sk_serial := sk_serial s; sk_last := v; sk_err := sk_err s; sk_items := sk_items s; sk_done := sk_done s; sk_used := sk_used s; sk_ualive := sk_ualive s; sk_falive := sk_falive s; sk_ready := sk_ready s; sk_ser := sk_ser s; sk_td := sk_td s; sk_unsub := sk_unsub s; sk_buf := sk_buf s; sk_logs := sk_logs s |}.
Definition s_err s v := {| sk_obs := sk_obs s; sk_serial := sk_serial s; sk_last := sk_last s; sk_err := v; sk_items := sk_items s; sk_done := sk_done s; sk_used := sk_used s; sk_ualive := sk_ualive s; sk_falive := sk_falive s; sk_ready := sk_ready s; sk_ser := sk_ser s; sk_td := sk_td s; sk_unsub := sk_unsub s; sk_buf := sk_buf s; sk_logs := sk_logs s |}.
Definition s_items s v := {| sk_obs := sk_obs s; sk_serial := sk_serial s; sk_last := sk_last s; sk_err := sk_err s; sk_items := v; sk_done := sk_done s; sk_used := sk_used s; sk_ualive := sk_ualive s; sk_falive := sk_falive s; sk_ready := sk_ready s; sk_ser := sk_ser s; sk_td := sk_td s; sk_unsub := sk_unsub s; sk_buf := sk_buf s; sk_logs := sk_logs s |}.
Definition s_done s v := {| sk_obs := sk_obs s; sk_serial := sk_serial s; sk_last := sk_last s; sk_err := sk_err s; sk_items := sk_items s; sk_done := v; sk_used := sk_used s; sk_ualive := sk_ualive s; sk_falive := sk_falive s; sk_ready := sk_ready s; sk_ser := sk_ser s; sk_td := sk_td s; sk_unsub := sk_unsub s; sk_buf := sk_buf s; sk_logs := sk_logs s |}.
Definition s_used s v := {| sk_obs := sk_obs s; sk_serial := sk_serial s; sk_last := sk_last s; sk_err := sk_err s; sk_items := sk_items s; sk_done := sk_done s; sk_used := v; sk_ualive := sk_ualive s; sk_falive := sk_falive s; sk_ready := sk_ready s; sk_ser := sk_ser s; sk_td := sk_td s; sk_unsub := sk_unsub s; sk_buf := sk_buf s; sk_logs := sk_logs s |}.
Definition s_ualive s v := {| sk_obs := sk_obs s; sk_serial := sk_serial s; sk_last := sk_last s; sk_err := sk_err s; sk_items := sk_items s; sk_done := sk_done s; sk_used := sk_used s; sk_ualive := v; sk_falive := sk_falive s; sk_ready := sk_ready s; sk_ser := sk_ser s; sk_td := sk_td s; sk_unsub := sk_unsub s; sk_buf := sk_buf s; sk_logs := sk_logs s |}.
Definition s_falive s v := {| sk_obs := sk_obs s; sk_serial := sk_serial s; sk_last := sk_last s; sk_err := sk_err s; sk_items := sk_items s; sk_done := sk_done s; sk_used := sk_used s; sk_ualive := sk_ualive s; sk_falive := v; sk_ready := sk_ready s; sk_ser := sk_ser s; sk_td := sk_td s; sk_unsub := sk_unsub s; sk_buf := sk_buf s; sk_logs := sk_logs s |}.
Definition s_ready s v := {| sk_obs := sk_obs s; sk_serial := sk_serial s; sk_last := sk_last s; sk_err := sk_err s; sk_items := sk_items s; sk_done := sk_done s; sk_used := sk_used s; sk_ualive := sk_ualive s; sk_falive := sk_falive s; sk_ready := v; sk_ser := sk_ser s; sk_td := sk_td s; sk_unsub := sk_unsub s; sk_buf := sk_buf s; sk_logs := sk_logs s |}.
Definition s_ser s v := {| sk_obs := sk_obs s; sk_serial := sk_serial s; sk_last := sk_last s; sk_err := sk_err s; sk_items := sk_items s; sk_done := sk_done s; sk_used := sk_used s; sk_ualive := sk_ualive s; sk_falive := sk_falive s; sk_ready := sk_ready s; sk_ser := v; sk_td := sk_td s; sk_unsub := sk_unsub s; sk_buf := sk_buf s; sk_logs := sk_logs s |}.
Definition s_td s v := {| sk_obs := sk_obs s; sk_serial := sk_serial s; sk_last := sk_last s; sk_err := sk_err s; sk_items := sk_items s; sk_done := sk_done s; sk_used := sk_used s; sk_ualive := sk_ualive s; sk_falive := sk_falive s; sk_ready := sk_ready s; sk_ser := sk_ser s; sk_td := v; sk_unsub := sk_unsub s; sk_buf := sk_buf s; sk_logs := sk_logs s |}.
Definition s_unsub s v := {| sk_obs := sk_obs s; sk_serial := sk_serial s; sk_last := sk_last s; sk_err := sk_err s; sk_items := sk_items s; sk_done := sk_done s; sk_used := sk_used s; sk_ualive := sk_ualive s; sk_falive := sk_falive s; sk_ready := sk_ready s; sk_ser := sk_ser s; sk_td := sk_td s; sk_unsub := v; sk_buf := sk_buf s; sk_logs := sk_logs s |}.
Definition s_buf s v := {| sk_obs := sk_obs s; sk_serial := sk_serial s; sk_last := sk_last s; sk_err := sk_err s; sk_items := sk_items s; sk_done := sk_done s; sk_used := sk_used s; sk_ualive := sk_ualive s; sk_falive := sk_falive s; sk_ready := sk_ready s; sk_ser := sk_ser s; sk_td := sk_td s; sk_unsub := sk_unsub s; sk_buf := v; sk_logs := sk_logs s |}.
Definition s_logs s v := {| sk_obs := sk_obs s; sk_serial := sk_serial s; sk_last := sk_last s; sk_err := sk_err s; sk_items := sk_items s; sk_done := sk_done s; sk_used := sk_used s; sk_ualive := sk_ualive s; sk_falive := sk_falive s; sk_ready := sk_ready s; sk_ser := sk_ser s; sk_td := sk_td s; sk_unsub := sk_unsub s; sk_buf := sk_buf s; sk_logs := v |}.

(* ---- Observer::next/error/complete on handle k's own observer (observer.rs, with the terminal gate) ---- *)
Definition u_deliver (s : sk) (k : nat) (e : ev) : sk :=
  if sk_ualive s k then
    let s1 := s_logs s (updf (sk_logs s) k (sk_logs s k ++ [e])) in
    if is_term e then s_ualive s1 (updf (sk_ualive s1) k false) else s1
  else s.

(* ---- the teardown closure of the observer registered in the inner Subject: remove(serial) ---- *)
Definition inner_remove (s : sk) (k : nat) : sk :=
  match sk_ser s k with
  | Some ser => s_obs s (remove_ser ser (sk_obs s))
  | None => s
  end.

(* ---- Subject::observable()'s source closure for the observer made on behalf of k ---- *)
Definition inner_join (s : sk) (k : nat) : sk :=
  let ser := S (sk_serial s) in
  s_obs (s_ser (s_serial s ser) (updf (sk_ser s) k (Some ser))) (sk_obs s ++ [(ser, k)]).

(* ---- Observer::unsubscribe of the REGISTERED observer of k (forwarder / take_last upstream): slots, then teardown ---- *)
Definition f_unsubscribe (s : sk) (k : nat) : sk :=
  let s1 := s_falive s (updf (sk_falive s) k false) in
  let s2 := inner_remove s1 k in
  s_ser s2 (updf (sk_ser s2) k None).

(* ---- what the registered observer of k does with an event of the inner Subject ---- *)
Definition f_deliver (kind : skind) (s : sk) (k : nat) (e : ev) : sk :=
  match kind with
  | KSubject => u_deliver s k e                       (* the registered observer IS k's own observer *)
  | KBehavior =>
      if sk_falive s k then
        let s1 := if is_term e then s_falive s (updf (sk_falive s) k false) else s in
        u_deliver s1 k e
      else s
  | KReplay =>
      if sk_falive s k then
        let s1 := if is_term e then s_falive s (updf (sk_falive s) k false) else s in
        if sk_ready s k then u_deliver s1 k e else s1
      else s
  | KAsync =>
      (* take_last(1): the upstream observer's handlers (operators/take_last.rs) *)
      if sk_falive s k then
        match e with
        | Nx v => s_buf s (updf (sk_buf s) k (push_last_n 1 (sk_buf s k) v))
        | Er x =>
            let s1 := s_falive s (updf (sk_falive s) k false) in
            (* sink_error: subscriber alive? error; then finalize (the upstream map: unsubscribe what is left) *)
            f_unsubscribe (u_deliver s1 k (Er x)) k
        | Co =>
            let s1 := s_falive s (updf (sk_falive s) k false) in
            (* flush the buffer (is_subscribed polled before each item), sink_complete(serial), finalize *)
            let s2 := fold_left (fun acc v => u_deliver acc k (Nx v)) (sk_buf s1 k) s1 in
            f_unsubscribe (u_deliver s2 k Co) k
        end
      else s
  end.

(* ---- inner Subject::next / error / complete: snapshot, (clear,) call each ---- *)
Definition inner_broadcast (kind : skind) (s : sk) (e : ev) : sk :=
  let snapshot := map snd (sk_obs s) in
  let s1 := if is_term e then s_obs s [] else s in
  fold_left (fun acc k => f_deliver kind acc k e) snapshot s1.

(* ---- Observer::unsubscribe of k's own observer, called through its Subscription ---- *)
Definition u_unsubscribe (kind : skind) (s : sk) (k : nat) : sk :=
  let s1 := s_ualive s (updf (sk_ualive s) k false) in
  if sk_td s1 k then
    let s2 := match kind with
              | KSubject => inner_remove s1 k                (* its teardown IS remove(serial) *)
              | KBehavior | KReplay => if sk_falive s1 k then f_unsubscribe s1 k else s1     (* cell -> Subscription of the forwarder *)
              | KAsync => if sk_falive s1 k then f_unsubscribe s1 k else s1                  (* finalize -> upstream map *)
              end in
    s_td s2 (updf (sk_td s2) k false)
  else s1.

Definition sk_step (kind : skind) (s : sk) (a : action) : sk :=
  match a with
  | DSub k _ _ =>
      if sk_used s k then s else
      let s0 := s_unsub (s_td (s_ualive (s_used s (updf (sk_used s) k true)) (updf (sk_ualive s) k true)) (updf (sk_td s) k false))
                        (updf (sk_unsub s) k true) in
      match kind with
      | KSubject => inner_join (s_td s0 (updf (sk_td s0) k true)) k
      | KAsync =>
          let s1 := s_falive (s_td s0 (updf (sk_td s0) k true)) (updf (sk_falive s0) k true) in
          inner_join (s_buf s1 (updf (sk_buf s1) k [])) k
      | KBehavior =>
          match sk_err s0, sk_last s0 with
          | Some x, _ => u_deliver s0 k (Er x)
          | None, None => u_deliver s0 k Co
          | None, Some v =>
              let s1 := u_deliver s0 k (Nx v) in
              if sk_ualive s1 k then
                inner_join (s_falive (s_td s1 (updf (sk_td s1) k true)) (updf (sk_falive s1) k true)) k
              else s1
          end
      | KReplay =>
          let s1 := s_ready (s_falive (s_td s0 (updf (sk_td s0) k true)) (updf (sk_falive s0) k true)) (updf (sk_ready s0) k false) in
          let s2 := inner_join s1 k in
          let s3 := fold_left (fun acc v => u_deliver acc k (Nx v)) (sk_items s2) s2 in
          let s4 := match sk_err s3 with
                    | Some x => u_deliver s3 k (Er x)
                    | None => if sk_done s3 then u_deliver s3 k Co else s_ready s3 (updf (sk_ready s3) k true)
                    end in
          if sk_ualive s4 k then s4 else f_unsubscribe s4 k
      end
  | DUnsub k =>
      if sk_unsub s k then u_unsubscribe kind (s_unsub s (updf (sk_unsub s) k false)) k else s
  | DEmit _ e =>
      let s1 := match kind, e with
                | KBehavior, Nx v => s_last s (Some v)
                | KBehavior, Er x => s_err s (Some x)
                | KBehavior, Co => s_last s None
                | KReplay, Nx v => s_items s (sk_items s ++ [v])
                | KReplay, Er x => s_err s (Some x)
                | KReplay, Co => s_done s true
                | _, _ => s
                end in
      inner_broadcast kind s1 e
  | _ => s
  end.

Definition sk_run (kind : skind) (init : option val) (script : list action) : sk :=
  fold_left (sk_step kind) script (sk0 (match kind with KBehavior => init | _ => None end)).

(* histories the automaton (and the reference machine) speak about: plain subscriptions of fresh handles,
   emissions into subject 0, unsubscriptions *)
Definition plain_history (script : list action) : bool :=
  forallb (fun a => match a with
                    | DSub _ (PHot 0) [] => true
                    | DEmit h _ => Nat.eqb h 0
                    | DUnsub _ => true
                    | _ => false
                    end) script.
