(* C12 / C10: Subject::error / Subject::complete racing a subscriber (src/subjects/subject.rs), seen from ONE observer o.
   Atoms (one lock-protected critical section or one callback each):
     subscriber :  insert o into the observer map (W observers)                                      - once
     closer     :  take the observers out of the map, then notify those taken
                   - repaired code  (cl_atomic = true):  ONE section  W observers { snapshot := map; map := {} }
                   - pinned code    (cl_atomic = false): TWO sections R observers { snapshot := map }  then  W observers { map := {} }
     producer   :  snapshot of the map -> o receives what is pushed iff it is in the map (and has not been handed the terminal)
   Any interleaving.  Definitions only. *)
From Coq Require Import List Bool Arith.
Import ListNotations.

Record clcfg := {
  cl_atomic : bool;
  cl_inmap : bool;                (* o is in the observer map *)
  cl_joined : bool;               (* the subscriber has inserted o *)
  cl_snap : option bool;          (* the closer has taken its snapshot: was o in it? *)
  cl_cleared : bool;              (* the closer has emptied the map *)
  cl_notified : bool;             (* o has been handed the terminal *)
  cl_done : bool;                 (* the closer has gone through its snapshot *)
  cl_got : bool }.                (* o has received the item pushed afterwards *)

Inductive clact := ClJoin | ClSnap | ClClear | ClNotify | ClPush.

Definition clstep (c : clcfg) (a : clact) : clcfg :=
  match a with
  | ClJoin => if cl_joined c then c else
      {| cl_atomic := cl_atomic c; cl_inmap := true; cl_joined := true; cl_snap := cl_snap c; cl_cleared := cl_cleared c; cl_notified := cl_notified c; cl_done := cl_done c; cl_got := cl_got c |}
  | ClSnap => match cl_snap c with
      | Some _ => c
      | None => {| cl_atomic := cl_atomic c; cl_inmap := if cl_atomic c then false else cl_inmap c; cl_joined := cl_joined c;
                   cl_snap := Some (cl_inmap c); cl_cleared := cl_atomic c; cl_notified := cl_notified c; cl_done := cl_done c; cl_got := cl_got c |}
      end
  | ClClear => match cl_snap c with
      | Some _ => if cl_cleared c then c else
                  {| cl_atomic := cl_atomic c; cl_inmap := false; cl_joined := cl_joined c; cl_snap := cl_snap c; cl_cleared := true; cl_notified := cl_notified c; cl_done := cl_done c; cl_got := cl_got c |}
      | None => c
      end
  | ClNotify => match cl_snap c with
      | Some b => if cl_cleared c && negb (cl_done c) then
                    {| cl_atomic := cl_atomic c; cl_inmap := cl_inmap c; cl_joined := cl_joined c; cl_snap := cl_snap c; cl_cleared := true; cl_notified := b; cl_done := true; cl_got := cl_got c |}
                  else c
      | None => c
      end
  (* a producer's next(): snapshot of the map (R observers), then the call of o's next - delivered iff o was in the map and has not
     been handed a terminal (its slots are emptied by the terminal) *)
  | ClPush => {| cl_atomic := cl_atomic c; cl_inmap := cl_inmap c; cl_joined := cl_joined c; cl_snap := cl_snap c; cl_cleared := cl_cleared c;
                 cl_notified := cl_notified c; cl_done := cl_done c; cl_got := cl_got c || (cl_inmap c && negb (cl_notified c)) |}
  end.

Definition clrun (acts : list clact) (c : clcfg) : clcfg := fold_left clstep acts c.
Definition clinit (atomic : bool) : clcfg :=
  {| cl_atomic := atomic; cl_inmap := false; cl_joined := false; cl_snap := None; cl_cleared := false; cl_notified := false; cl_done := false; cl_got := false |}.
