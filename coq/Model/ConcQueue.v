(* C08: the scheduler queue (src/schedulers/async_function_queue.rs) as a transition system with one
   transition per critical section.  Every access to `abort` is made with the queue mutex held, so
     post f     : lock ; push_back f ; notify_one ; unlock
     stop       : lock ; clear ; abort := true ; notify_one ; unlock
     scheduling : loop { lock ; wait_while(!abort && empty) ; if abort { None } else { pop_front } ; unlock ; run / break }
   are atomic steps: QPost, QStop, and for the worker QCheck (evaluate the wait condition under the mutex:
   exit on abort, go to sleep on empty - releasing the mutex atomically -, otherwise pop the front), QWake
   (a notified or spuriously woken waiter is runnable again and will re-evaluate), QDone (the task returns).
   Any client - including the running task - may issue QPost / QStop at any time.  Definitions only. *)
From Coq Require Import List Bool Arith.
Import ListNotations.

Inductive wstate := WIdle | WWaiting | WRunning (t : nat) | WExited.
Record qst := { q_queue : list nat; q_abort : bool; q_worker : wstate;
                q_posted : list nat; q_started : list nat; q_finished : list nat; q_discarded : list nat }.
Inductive qop := QPost (t : nat) | QStop | QCheck | QWake | QDone.

Definition q0 : qst := {| q_queue := []; q_abort := false; q_worker := WIdle; q_posted := []; q_started := []; q_finished := []; q_discarded := [] |}.

Definition notified (w : wstate) : wstate := match w with WWaiting => WIdle | x => x end.

Definition qstep (s : qst) (o : qop) : qst :=
  match o with
  | QPost t => {| q_queue := q_queue s ++ [t]; q_abort := q_abort s; q_worker := notified (q_worker s);
                  q_posted := q_posted s ++ [t]; q_started := q_started s; q_finished := q_finished s; q_discarded := q_discarded s |}
  | QStop => {| q_queue := []; q_abort := true; q_worker := notified (q_worker s);
                q_posted := q_posted s; q_started := q_started s; q_finished := q_finished s; q_discarded := q_discarded s ++ q_queue s |}
  | QCheck =>
      match q_worker s with
      | WIdle =>
          if q_abort s then {| q_queue := q_queue s; q_abort := q_abort s; q_worker := WExited; q_posted := q_posted s;
                               q_started := q_started s; q_finished := q_finished s; q_discarded := q_discarded s |}
          else match q_queue s with
               | [] => {| q_queue := []; q_abort := q_abort s; q_worker := WWaiting; q_posted := q_posted s;
                          q_started := q_started s; q_finished := q_finished s; q_discarded := q_discarded s |}
               | t :: r => {| q_queue := r; q_abort := q_abort s; q_worker := WRunning t; q_posted := q_posted s;
                              q_started := q_started s ++ [t]; q_finished := q_finished s; q_discarded := q_discarded s |}
               end
      | _ => s
      end
  | QWake => match q_worker s with
             | WWaiting => {| q_queue := q_queue s; q_abort := q_abort s; q_worker := WIdle; q_posted := q_posted s;
                              q_started := q_started s; q_finished := q_finished s; q_discarded := q_discarded s |}
             | _ => s
             end
  | QDone => match q_worker s with
             | WRunning t => {| q_queue := q_queue s; q_abort := q_abort s; q_worker := WIdle; q_posted := q_posted s;
                                q_started := q_started s; q_finished := q_finished s ++ [t]; q_discarded := q_discarded s |}
             | _ => s
             end
  end.

Definition qrun (ops : list qop) : qst := fold_left qstep ops q0.
Definition running (w : wstate) : list nat := match w with WRunning t => [t] | _ => [] end.
