(* step function of the sequential machine; see Syntax.v for the objects *)
From Coq Require Import List ZArith Bool Arith.
From RX Require Import Val Syntax World.
Import ListNotations.
Open Scope nat_scope.

Definition set_obs (w : world) (o : oid) (v : observer) := w_obs (upd (obs w) o v) w.
Definition set_ctl (w : world) (c : cid) (v : ctrl) := w_ctls (upd (ctls w) c v) w.
Definition set_node (w : world) (n : nid) (v : node) := w_nodes (upd (nodes w) n v) w.
Definition set_subj (w : world) (h : hid) (v : subj) := w_subjs (upd (subjs w) h v) w.
Definition set_nst (w : world) (n : nid) (s : ostate) :=
  let nd := nodes w n in
  set_node w n {| n_op := n_op nd; n_src := n_src nd; n_others := n_others nd; n_st := s; n_ctl := n_ctl nd |}.
Definition add_log (w : world) (u : nat) (e : ev) := w_log (log w ++ [(u, cur w, e)]) w.

(* allocation *)
Definition alloc_obs (w : world) (t : target) : oid * world :=
  (n_obs w, w_n_obs (S (n_obs w)) (set_obs w (n_obs w) (mk_obs t))).
Definition alloc_subj (w : world) (k : skind) (init : option val) : hid * world :=
  (n_subjs w, w_n_subjs (S (n_subjs w)) (set_subj w (n_subjs w) (mk_subj k init))).
Definition alloc_cell (w : world) : xid * world :=
  (n_cells w, w_n_cells (S (n_cells w)) (w_cells (upd (cells w) (n_cells w) None) w)).

(* ------------------------------------------------------------------ small list helpers *)
Fixpoint remove_ser (s : nat) (l : list (nat * oid)) : list (nat * oid) :=
  match l with [] => [] | (k, o) :: r => if Nat.eqb k s then remove_ser s r else (k, o) :: remove_ser s r end.
Fixpoint find_ser (s : nat) (l : list (nat * oid)) : option oid :=
  match l with [] => None | (k, o) :: r => if Nat.eqb k s then Some o else find_ser s r end.
Fixpoint find_key (k : Z) (l : list (Z * hid)) : option hid :=
  match l with [] => None | (x, h) :: r => if Z.eqb x k then Some h else find_key k r end.
Definition push_last_n (n : nat) (l : list val) (x : val) : list val :=   (* push_back; pop_front if len > n *)
  let l' := l ++ [x] in if Nat.ltb n (length l') then tl l' else l'.
Fixpoint upd_nth {A} (i : nat) (f : A -> A) (l : list A) : list A :=
  match l, i with [], _ => [] | x :: r, 0 => f x :: r | x :: r, S j => x :: upd_nth j f r end.
Definition all_nonempty (qs : list (list val)) : bool := forallb (fun q => negb (Nat.eqb (length q) 0)) qs.
Definition heads (qs : list (list val)) : list val := flat_map (fun q => match q with x :: _ => [x] | [] => [] end) qs.
Definition tails (qs : list (list val)) : list (list val) := map (@tl val) qs.
Definition all_eq_head (l : list val) : bool :=
  match l with [] => true | x :: r => forallb (val_eqb x) r end.

(* ------------------------------------------------------------------ the handler table
   handler op others st port ser fresh ev = (st', actions): the body of the next / error / complete
   closure of the observer made for `port`, with serial `ser`; `fresh` = id the next Subject::new()
   will get.  Transcribed from src/operators/<op>.rs, one match arm per closure. *)
Definition dflt_err (e : err) : list act := [SinkError e].
Definition dflt_comp (ser : nat) : list act := [SinkComplete ser].
Definition fwd (st : ostate) (ser : nat) (e : ev) : ostate * list act :=
  (st, match e with Nx v => [SinkNext v] | Er x => dflt_err x | Co => dflt_comp ser end).
Definition fold_acc (f : val -> val -> val) (st : ostate) (x : val) : ostate :=
  st_set_acc st (Some match st_acc st with Some a => f a x | None => x end).
Definition emit_acc_then_complete (st : ostate) (ser : nat) : list act :=
  match st_acc st with Some a => [SinkNext a] | None => [] end ++ [SinkComplete ser].

Definition fm_pipe (f : fmsel) (others : list pipe) (x : val) : pipe :=
  match f with
  | SelJust => PJust x
  | SelPair k => PFromIter [x; VInt (as_int x + k)]
  | SelMod => nth (Z.to_nat (Z.modulo (as_int x) (Z.of_nat (Nat.max 1 (length others))))) others PEmpty
  end.
Definition resume_pipe (others : list pipe) (e : err) : pipe :=
  nth (Nat.modulo e (Nat.max 1 (length others))) others PEmpty.

Definition handler (op : opk) (src : pipe) (others : list pipe) (st : ostate) (port ser : nat) (fresh : hid) (e : ev)
  : ostate * list act :=
  match op with
  | OMap f => match e with Nx x => (st, [SinkNext (app1 f x)]) | _ => fwd st ser e end
  | OFilter p => match e with Nx x => (st, if appp p x then [SinkNext x] else []) | _ => fwd st ser e end
  | OTake n =>
      match e with
      | Nx x => let c := st_cnt st in
                (st_set_cnt st (S c),
                 (if Nat.ltb c n then [SinkNext x] else []) ++
                 (if Nat.leb n (S c) then [UpAbort ser; SinkComplete ser; Finalize] else []))
      | _ => fwd st ser e
      end
  | OTakeWhile p =>
      match e with
      | Nx x => (st, if appp p x then [SinkNext x] else [UpAbort ser; SinkComplete ser])
      | _ => fwd st ser e
      end
  | OTakeLast n =>
      match e with
      | Nx x => (st_set_buf st (push_last_n n (st_buf st) x), [])
      | Er x => (st, dflt_err x)
      | Co => (st, [AWith MR [AFlush (st_buf st)]; SinkComplete ser])
      end
  | OSkip n =>
      match e with
      | Nx x => let c := st_cnt st in (st_set_cnt st (S c), if Nat.leb n c then [SinkNext x] else [])
      | _ => fwd st ser e
      end
  | OSkipLast n =>
      match e with
      | Nx x => let l := st_buf st ++ [x] in
                if Nat.ltb n (length l) then (st_set_buf st (tl l), match l with y :: _ => [SinkNext y] | [] => [] end)
                else (st_set_buf st l, [])
      | _ => fwd st ser e
      end
  | OSkipWhile p =>
      match e with
      | Nx x => if st_flag st then (st, [SinkNext x])
                else if appp p x then (st, []) else (st, [SinkNext x; ASetFlag true])
      | _ => fwd st ser e
      end
  | ODistinct =>
      match e with
      | Nx x => match st_acc st with
                | Some l => if val_eqb l x then (st, []) else (st_set_acc st (Some x), [SinkNext x])
                | None => (st_set_acc st (Some x), [SinkNext x])
                end
      | _ => fwd st ser e
      end
  | OScan f =>
      match e with
      | Nx x => let st' := fold_acc (app2 f) st x in
                (* the accumulator is updated under its write lock; then its read lock is held across the sink
                   (scan.rs: `if let Some(x) = &*result.read()`) *)
                (st', match st_acc st' with Some a => [AWith MW []; AWith MR [SinkNext a]] | None => [AWith MW []] end)
      | _ => fwd st ser e
      end
  | OReduce f =>
      match e with
      | Nx x => (fold_acc (app2 f) st x, [])
      | Er x => (st, dflt_err x)
      | Co => (st, emit_acc_then_complete st ser)
      end
  | OSum =>
      match e with
      | Nx x => (fold_acc val_add st x, [])
      | Er x => (st, dflt_err x)
      | Co => (st, emit_acc_then_complete st ser)
      end
  | OMin =>
      match e with
      | Nx x => (fold_acc (fun a x => if val_ltb x a then x else a) st x, [])
      | Er x => (st, dflt_err x)
      | Co => (st, emit_acc_then_complete st ser)
      end
  | OMax =>
      match e with
      | Nx x => (fold_acc (fun a x => if val_ltb a x then x else a) st x, [])
      | Er x => (st, dflt_err x)
      | Co => (st, emit_acc_then_complete st ser)
      end
  | OCount =>
      match e with
      | Nx _ => (st_set_cnt st (S (st_cnt st)), [])
      | Er x => (st, dflt_err x)
      | Co => (st, [SinkNext (VInt (Z.of_nat (st_cnt st))); SinkComplete ser])
      end
  | OSumAndCount =>
      match e with
      | Nx x => (st_set_cnt (fold_acc val_add st x) (S (st_cnt st)), [])
      | Er x => (st, dflt_err x)
      | Co => (st, match st_acc st with Some a => [SinkNext (VList [a; VInt (Z.of_nat (st_cnt st))])] | None => [] end
                   ++ [SinkComplete ser])
      end
  | OAll _ =>           (* node over filter(!p).take(1) *)
      match e with
      | Nx _ => (st, [UpAbort ser; SinkNext (VBool false); SinkComplete ser])
      | Er x => (st, dflt_err x)
      | Co => (st, [SinkNext (VBool true); SinkComplete ser])
      end
  | OContains t =>
      match e with
      | Nx x => (st, if val_eqb x t then [SinkNext (VBool true); UpAbort ser; SinkComplete ser] else [])
      | Er _ => (st, [SinkNext (VBool false); SinkComplete ser])
      | Co => (st, [SinkNext (VBool false); SinkComplete ser])
      end
  | ODefaultIfEmpty d =>
      match e with
      | Nx x => (st_set_flag st true, [SinkNext x])
      | Er x => (st, dflt_err x)
      | Co => (st, (if st_flag st then [] else [SinkNext d]) ++ [SinkComplete ser])
      end
  | OIgnore => match e with Nx _ => (st, []) | _ => fwd st ser e end
  | OStartWith _ | OFwd | OFirst | OLast | OElementAt _ | OMapToAny => fwd st ser e
  | OBuffer n =>
      match e with
      | Nx x => let l := st_buf st ++ [x] in
                if Nat.eqb (length l) n then (st_set_buf st [], [SinkNext (VList l)]) else (st_set_buf st l, [])
      | Er x => (st, dflt_err x)
      | Co => (st, match st_buf st with [] => [] | l => [SinkNext (VList l)] end ++ [SinkComplete ser])
      end
  | OWindow n =>
      match e with
      | Nx x => let c := st_cnt st in
                let full := Nat.eqb (S c) n in
                (st_set_cnt st (if full then 0 else S c),
                 [AWith MW ((if Nat.eqb c 0 then [SinkNext (VObs (st_subj st))] else []) ++
                            [ASubjCall (st_subj st) (Nx x)] ++
                            (if full then [ASubjCall (st_subj st) Co; ASubjNew KSubject] else []))])
      | Er x => (st, [ASubjCall (st_subj st) (Er x); SinkError x])
      | Co => (st, [ASubjCall (st_subj st) Co; SinkComplete ser])
      end
  | OGroupBy k =>
      match e with
      | Nx x => let key := key_of k x in
                match find_key key (st_groups st) with
                | Some h => (st, [AWith MW []; ASubjCall h (Nx x)])      (* the map's write lock is taken to look the group up *)
                | None => (st_set_groups st (st_groups st ++ [(key, fresh)]),
                           [ASubjNew KSubject; AWith MW [SinkNext (VObs fresh)]; ASubjCall fresh (Nx x)])
                end
      | Er x => (st, [AWith MR (map (fun g => ASubjCall (snd g) (Er x)) (st_groups st)); SinkError x])      (* map read lock held across the groups' terminals *)
      | Co => (st, [AWith MR (map (fun g => ASubjCall (snd g) Co) (st_groups st)); SinkComplete ser])
      end
  | OMaterialize =>
      match e with
      | Nx x => (st, [SinkNext (VMatN x)])
      | Er x => (st, [SinkNext (VMatE x); SinkComplete ser])
      | Co => (st, [SinkNext VMatC; SinkComplete ser])
      end
  | ODematerialize =>
      match e with
      | Nx (VMatN x) => (st, [SinkNext x])
      | Nx (VMatE x) => (st, [SinkError x])
      | Nx VMatC => (st, [UpAbort ser; SinkComplete ser])
      | _ => fwd st ser e         (* harness convention: a non-material item counts as Material::Next *)
      end
  | OTap _ =>
      match e with
      | Nx x => (st, [ADeliver (st_aux st) (Nx x); SinkNext x])
      | Er x => (st, [ADeliver (st_aux st) (Er x); SinkError x])
      | Co => (st, [ADeliver (st_aux st) Co; SinkComplete ser])
      end
  | OMerge => fwd st ser e
  | OFlatMap f =>
      match port, e with
      | 0, Nx x => (st, [ASubscribe (fm_pipe f others x) 1])
      | _, _ => fwd st ser e
      end
  | OConcat =>
      match e with
      | Nx x => (st, [SinkNext x])
      | Er x => (st, dflt_err x)
      | Co => let i := st_cnt st in
              if Nat.leb (length others) i then (st, [SinkCompleteForce])
              else (st_set_cnt st (S i), [ASubscribe (nth i others PEmpty) 0])
      end
  | OZip =>
      match e with
      | Nx x => (st_set_qs st (upd_nth port (fun q => q ++ [x]) (st_qs st)), [AZipDrain])
      | _ => fwd st ser e
      end
  | OCombineLatest f =>       (* node over zip *)
      match e with
      | Nx (VList l) => (st, [SinkNext (appc f l)])
      | Nx _ => (st, [])
      | _ => fwd st ser e
      end
  | OAmb =>
      let '(win, st') := match st_win st with
                         | Some w => (Nat.eqb ser w, st)
                         | None => (true, st_set_win st (Some ser))
                         end in
      (st', if win then match e with Nx x => [SinkNext x] | Er x => [SinkError x] | Co => [SinkCompleteForce] end
            else [UpAbort ser])
  | OTakeUntil =>
      match port, e with
      | 0, Nx _ => (st, [SinkCompleteForce])
      | 0, _ => (st, [])
      | _, Nx x => (st, [SinkNext x])
      | _, Er x => (st, dflt_err x)
      | _, Co => (st, [SinkCompleteForce])
      end
  | OSkipUntil =>
      match port, e with
      | 0, Nx _ => (st_set_flag st true, [UpAbort ser])
      | 0, _ => (st, [])
      | _, Nx x => (st, if st_flag st then [SinkNext x] else [])
      | _, Er x => (st, dflt_err x)
      | _, Co => (st, [SinkCompleteForce])
      end
  | OSample =>
      match port, e with
      | 0, Nx _ => (st_set_acc st None, match st_acc st with Some v => [SinkNext v] | None => [] end)
      | 0, _ => (st, [])
      | _, Nx x => (st_set_acc st (Some x), [])
      | _, Er x => (st, dflt_err x)
      | _, Co => (st, [SinkCompleteForce])
      end
  | OSwitchOnNext =>
      match port, e with
      | 0, Nx x => (st, if st_flag st then [UpAbort ser] else [SinkNext x])
      | 0, _ => fwd st ser e
      | _, Nx x => (st_set_flag st true, [SinkNext x])
      | _, Er x => (st, dflt_err x)
      | _, Co => (st, [SinkCompleteForce])
      end
  | OSequenceEqual =>        (* node over zip *)
      match e with
      | Nx (VList l) => (st, if all_eq_head l then [] else [UpAbort ser; SinkNext (VBool false); SinkComplete ser])
      | Nx _ => (st, [])
      | Er x => (st, dflt_err x)
      | Co => (st, [SinkNext (VBool true); SinkComplete ser])
      end
  | ORetry n =>
      match e with
      | Er x => let k := st_cnt st in     (* attempt number, starts at 1 *)
                if Nat.eqb n 0 || Nat.ltb k n then (st_set_cnt st (S k), [UpAbort ser; ASubscribe src 0])
                else (st, [SinkError x])
      | _ => fwd st ser e
      end
  | ORetryWhen p =>
      match e with
      | Er x => if appe p x then (st, [UpAbort ser; ASubscribe src 0]) else (st, [SinkError x])
      | _ => fwd st ser e
      end
  | OResume =>
      match port, e with
      | 0, Er x => (st, [UpAbort ser; ASubscribe (resume_pipe others x) 1])
      | _, _ => fwd st ser e
      end
  end.

Definition init_state (op : opk) (others : list pipe) : ostate :=
  match op with
  | OZip => st_set_qs st0 (map (fun _ => []) (seq 0 (S (length others))))
  | ORetry _ => st_set_cnt st0 1
  | _ => st0
  end.

(* ------------------------------------------------------------------ locks *)
Definition conflicts (hd : list (lockid * mode)) (l : lockid) (m : mode) : bool :=
  existsb (fun p => lockid_eqb (fst p) l && match m, snd p with MR, MR => false | _, _ => true end) hd.
Fixpoint release (hd : list (lockid * mode)) (l : lockid) (m : mode) : list (lockid * mode) :=
  match hd with
  | [] => []
  | (l', m') :: r => if lockid_eqb l' l && match m, m' with MR, MR | MW, MW => true | _, _ => false end
                     then r else (l', m') :: release r l m
  end.


(* ------------------------------------------------------------------ step *)
Definition script_of (w : world) (s att : nat) : list ev :=
  let l := fst (scripts w s) in nth (Nat.min att (length l - 1)) l [].

Definition neg_pred (p : pred) : pred :=
  match p with
  | PLt k => PGe k | PGe k => PLt k | PEven => POdd | POdd => PEven
  | PTrue => PFalse | PFalse => PTrue | PEqK k => PNeK k | PNeK k => PEqK k
  end.

(* What `execute`'s source closure does before anything flows: the upstream observers it makes
   (serial = position in the list, with the port whose handlers they get) and the order in which it
   subscribes them (as serials). *)
Definition plan (op : opk) (src : pipe) (others : list pipe) : list (nat * pipe) * list nat :=
  let k := length others in
  match op with
  | OMerge | OAmb =>          (* sbs.pop(): the LAST observer goes to `source`, then downwards *)
      (map (fun p => (0, p)) (rev others ++ [src]), rev (seq 0 (S k)))
  | OZip =>                   (* pop_front: source is id 0 *)
      (combine (seq 0 (S k)) (src :: others), seq 0 (S k))
  | OTakeUntil | OSkipUntil | OSample =>   (* trigger observer made first, subscribed first *)
      ([(0, nth 0 others PNever); (1, src)], [0; 1])
  | OSwitchOnNext => ([], [])             (* new_observer + subscribe for the source, THEN for the target: see init_acts *)
  | OFirst => ([(0, POp (OTake 1) src [])], [0])
  | OLast => ([(0, POp (OTakeLast 1) src [])], [0])
  | OElementAt n => ([(0, POp (OSkip (n - 1)) (POp (OTake n) src []) [])], [0])
  | OAll p => ([(0, POp (OTake 1) (POp (OFilter (neg_pred p)) src []) [])], [0])
  | OCombineLatest _ | OSequenceEqual => ([(0, POp OZip src others)], [0])
  | _ => ([(0, src)], [0])
  end.

(* subscriptions the source closure makes one after the other (new_observer immediately followed by subscribe) *)
Definition init_acts (op : opk) (src : pipe) (others : list pipe) : list act :=
  match op with
  | OSwitchOnNext => [ASubscribe src 0; ASubscribe (nth 0 others PNever) 1]
  | _ => []
  end.

Definition hist_replay (sj : subj) (o : oid) : list req :=
  map (fun v => Deliver o (Nx v)) (sj_items sj) ++
  match sj_err sj with
  | Some e => [Deliver o (Er e)]
  | None => if sj_done sj then [Deliver o Co] else []
  end.

Definition handle_sub (w : world) (k : nat) : list req :=
  match handles w k with Some (_, Some s) => [SubUnsub s] | _ => [] end.

(* a hand-driven source pushes one event to every observer it was handed: like a one-event script per observer, with
   the instrumentation of the scripted sources - is_subscribed of that observer is recorded before and after the
   delivery, under the source id 1000+s and the observer's index in place of the attempt *)
Definition push_reqs (s : nat) (e : ev) (l : list oid) : list req :=
  map (fun jo : nat * oid => Src (1000 + s) (fst jo) (snd jo) [e] 0) (combine (seq 0 (length l)) l).

Definition step (r : req) (w : world) : list req * world :=
  match r with
  (* ---- Observer::next / error / complete (observer.rs) ---- *)
  | Deliver o e =>
      let ob := obs w o in
      let fire := match e with Nx _ => o_n ob | Er _ => o_e ob | Co => o_e ob && o_c ob end in
      let w1 := match e with
                | Nx _ => w
                | _ => if o_e ob then set_obs w o (set_slots ob false false false) else w
                end in
      if fire then
        match o_tgt ob with
        | TUser u =>
            let w2 := add_log w1 u e in
            let '(creqs, w3) :=
              match e with
              | Nx (VObs h) =>
                  let j := n_child w2 in
                  let '(o', w') := alloc_obs (w_n_child (S j) w2) (TUser (uenc (UChild j))) in
                  ([SubscribePipe (PHot h) o'], w')
              | _ => ([], w2)
              end in
            match udec u with
            | UTop k => let i := ncalls w3 k in
                        (creqs ++ [React k i], w_ncalls (upd (ncalls w3) k (S i)) w3)
            | UChild _ => (creqs, w3)
            end
        | THandler n port ser =>
            let nd := nodes w1 n in
            let '(st', acts) := handler (n_op nd) (n_src nd) (n_others nd) (n_st nd) port ser (n_subjs w1) e in
            (map (Act n) acts, set_nst w1 n st')
        | TForward o' => ([Deliver o' e], w1)
        | TGated _ => ([], w1)
        | TFeed h => ([SubjCall h e], w1)
        | TFeedK k =>
            let cn := conns w1 k in
            ([SubjCall (k_subj cn) e],
             match e, k_kind cn with
             | Nx _, _ => w1
             | _, CReplay => w1                     (* replay keeps a terminated connection: no reconnect *)
             | _, _ => w_conns (upd (conns w1) k {| k_kind := k_kind cn; k_src := k_src cn; k_subj := k_subj cn; k_slot := None |}) w1
             end)
        | TTapLog t => ([], w_taplog (taplog w1 ++ [(t, e)]) w1)
        | TJunk => ([], w1)
        end
      else ([], w1)
  (* ---- Observer::unsubscribe ---- *)
  | Unsub o =>
      ([AcqL (LTd o) MR; RunTd o; RelL (LTd o) MR; ClearTd o], set_obs w o (set_slots (obs w o) false false false))
  | RunTd o =>
      match o_td (obs w o) with
      | Some (TdFin c) => ([Fin c], w)
      | Some (TdSubjRemove h ser) =>
          let l := remove_ser ser (sj_obs (subjs w h)) in
          ([AcqL (LHookUnsub h) MR; HookUnsub h (length l); RelL (LHookUnsub h) MR],
           set_subj w h (sj_set_obs (subjs w h) l))
      | Some (TdCell x) => ([AcqL (LCell x) MR; CellUnsub x; RelL (LCell x) MR], w)
      | None => ([], w)
      end
  | ClearTd o => ([], set_obs w o (set_td (obs w o) None))
  | SetTdCell o x => ([], set_obs w o (set_td (obs w o) (Some (TdCell x))))
  (* ---- StreamController (stream_controller.rs) ---- *)
  | Act n a =>
      let nd := nodes w n in
      let c := n_ctl nd in
      let ct := ctls w c in
      let sub := c_sub ct in
      let alive := is_sub (obs w sub) in
      match a with
      | SinkNext v => if alive then ([Deliver sub (Nx v)], w) else ([Fin c], w)
      | SinkError e => if alive then ([Deliver sub (Er e); Fin c], w) else ([Fin c], w)
      | SinkComplete ser =>
          if alive then
            let uns' := remove_ser ser (c_uns ct) in
            let w1 := set_ctl w c {| c_sub := sub; c_uns := uns'; c_serial := c_serial ct |} in
            match uns' with [] => ([Deliver sub Co; Fin c], w1) | _ => ([], w1) end
          else ([Fin c], w)
      | SinkCompleteForce => if alive then ([Deliver sub Co; Fin c], w) else ([Fin c], w)
      | UpAbort ser => ([AcqL (LUns c) MW; UnsubEntry c ser; RelL (LUns c) MW], w)
      | Finalize => ([Fin c], w)
      | IfSub yes no => (map (Act n) (if alive then yes else no), w)
      | AFlush l => match l with
                    | [] => ([], w)
                    | x :: rest => if alive then ([Act n (SinkNext x); Act n (AFlush rest)], w) else ([], w)
                    end
      | AWith m body => ([AcqL (LSt n) m] ++ map (Act n) body ++ [RelL (LSt n) m], w)
      | ASetFlag b => ([], set_nst w n (st_set_flag (n_st nd) b))
      | ASubscribe p port =>
          let ser := c_serial ct in
          let '(o', w1) := alloc_obs w (THandler n port ser) in
          if alive then
            let w2 := set_ctl w1 c {| c_sub := sub; c_uns := c_uns ct ++ [(ser, o')]; c_serial := S ser |} in
            ([SubscribePipe p o'], w2)
          else
            (* new_observer after the end: an observer that is already unsubscribed, not registered *)
            let w2 := set_ctl w1 c {| c_sub := sub; c_uns := c_uns ct; c_serial := S ser |} in
            ([SubscribePipe p o'], set_obs w2 o' (set_slots (obs w2 o') false false false))
      | ASubjNew k =>
          let '(h, w1) := alloc_subj w k None in
          ([], match n_op nd with OWindow _ => set_nst w1 n (st_set_subj (n_st (nodes w1 n)) h) | _ => w1 end)
      | ASubjCall h e => ([SubjCall h e], w)
      | ADeliver o e => ([Deliver o e], w)
      | AZipDrain =>
          let qs := st_qs (n_st nd) in
          if all_nonempty qs then
            let w1 := set_nst w n (st_set_qs (n_st nd) (tails qs)) in
            if alive then ([Act n (SinkNext (VList (heads qs))); Act n AZipDrain], w1) else ([], w1)
          else ([], w)
      end
  | UnsubEntry c ser =>
      let ct := ctls w c in
      match find_ser ser (c_uns ct) with
      | Some o => ([Unsub o], set_ctl w c {| c_sub := c_sub ct; c_uns := remove_ser ser (c_uns ct); c_serial := c_serial ct |})
      | None => ([], w)
      end
  | Fin c =>
      ([AcqL (LUns c) MR] ++ map (fun p => Unsub (snd p)) (c_uns (ctls w c)) ++ [RelL (LUns c) MR; FinSub c], w)
  | FinSub c =>
      let ct := ctls w c in
      let w1 := set_ctl w c {| c_sub := c_sub ct; c_uns := []; c_serial := c_serial ct |} in
      if is_sub (obs w (c_sub ct)) then ([Unsub (c_sub ct)], w1) else ([], w1)
  (* ---- sources (observables/*.rs and the harness's scripted cold source) ---- *)
  | Src s att o script idx =>
      let alive := is_sub (obs w o) in
      let w1 := w_probes (probes w ++ [(s, att, idx, alive, length (log w), cur w)]) w in
      match script with
      | [] => ([], w1)
      | e :: rest => if snd (scripts w s) && negb alive then ([], w1)
                     else ([Deliver o e; Src s att o rest (S idx)], w1)
      end
  | FromIter o l =>
      match l with
      | [] => (if is_sub (obs w o) then [Deliver o Co] else [], w)
      | x :: rest => if is_sub (obs w o) then ([Deliver o (Nx x); FromIter o rest], w) else ([], w)
      end
  | Range o a n =>
      match n with
      | 0 => ([Deliver o Co], w)
      | S k => if is_sub (obs w o) then ([Deliver o (Nx (VInt a)); Range o (a + 1)%Z k], w) else ([Deliver o Co], w)
      end
  | Repeat o v => if is_sub (obs w o) then ([Deliver o (Nx v); Repeat o v], w) else ([], w)
  | StartWith o l src =>
      match l with
      | x :: rest => if is_sub (obs w o) then ([Deliver o (Nx x); StartWith o rest src], w)
                     else ([], w)
      | [] => if is_sub (obs w o) then ([SubscribePipe (POp OFwd src []) o], w) else ([], w)
      end
  (* ---- Observable::inner_subscribe: run the source closure ---- *)
  | SubscribePipe p o =>
      if negb (is_sub (obs w o)) then ([], w) else        (* a subscription that has already ended subscribes nothing *)
      match p with
      | PCold s => let att := attempts w s in
                   ([Src s att o (script_of w s att) 0], w_attempts (upd (attempts w) s (S att)) w)
      | PJust v => ([Deliver o (Nx v); Deliver o Co], w)
      | PFromIter l => ([FromIter o l], w)
      | PRange a n => ([Range o a (Z.to_nat n)], w)
      | PEmpty => ([Deliver o Co], w)
      | PNever => ([], w)
      | PError e => ([Deliver o (Er e)], w)
      | PRepeat v => ([Repeat o v], w)
      | PDefer q => ([SubscribePipe q o], w)
      | PStart c => let k := counters w c in
                    ([Deliver o (Nx (VInt (Z.of_nat k))); Deliver o Co], w_counters (upd (counters w) c (S k)) w)
      | PFromResult (inl v) => ([Deliver o (Nx v); Deliver o Co], w)
      | PFromResult (inr e) => ([Deliver o (Er e)], w)
      | PConn k => ([SubscribePipe (PHot (k_subj (conns w k))) o], w)
      | PManual s => ([], w_manual (upd (manual w) s (manual w s ++ [o])) w)
      | PRef i => ([SubscribePipe (defs w i) o], w)
      | PInner h => ([SubjJoin h o], w)
      | PHot h =>
          let sj := subjs w h in
          match sj_kind sj with
          | KSubject => ([SubjJoin h o], w)
          | KAsync => ([SubscribePipe (POp (OTakeLast 1) (PInner h) []) o], w)
          | KBehavior =>
              (* hand over under the two history read locks, then join the inner subject *)
              match sj_err sj, sj_last sj with
              | Some e, _ => ([AcqL (LHist h) MR; Deliver o (Er e); RelL (LHist h) MR], w)
              | None, None => ([AcqL (LHist h) MR; Deliver o Co; RelL (LHist h) MR], w)
              | None, Some v =>
                  ([AcqL (LHist h) MR; Deliver o (Nx v); RelL (LHist h) MR; BehaviorJoin h o], w)
              end
          | KReplay =>
              (* cell + teardown; join the live subject through closures that drop everything until the
                 history has been replayed; replay; record the subscription; leave again if the subscriber left *)
              let '(x, w1) := alloc_cell w in
              let '(o', w2) := alloc_obs w1 (TGated o) in
              ([SetTdCell o x; SubjJoin h o'; AcqL (LHist h) MR; Replay h o; ReplayDone h o'; RelL (LHist h) MR;
                MkSub o' (DCell x); CellCheck o x], w2)
          end
      | POp op src others =>
          match op with
          | OStartWith l => ([StartWith o l src], w)
          | _ =>
              (* let sctl = StreamController::new(s); one new_observer per upstream; then subscribe them *)
              let c := n_ctls w in
              let n := n_nodes w in
              let '(ups, order) := plan op src others in
              let w1 := w_n_ctls (S c) (w_n_nodes (S n) w) in
              let w2 := set_obs w1 o (set_td (obs w1 o) (Some (TdFin c))) in
              let '(entries, w3) :=
                fold_left (fun (acc : list (nat * oid) * world) (pp : nat * pipe) =>
                             let '(es, wa) := acc in
                             let ser := length es in
                             let '(o', wb) := alloc_obs wa (THandler n (fst pp) ser) in
                             (es ++ [(ser, o')], wb)) ups ([], w2) in
              let w4 := set_ctl w3 c {| c_sub := o; c_uns := entries; c_serial := length entries |} in
              let st := init_state op others in
              let '(st1, w5) := match op with
                                | OTap t => let '(ot, wt) := alloc_obs w4 (TTapLog t) in (st_set_aux st ot, wt)
                                | OWindow _ => let '(h, wt) := alloc_subj w4 KSubject None in (st_set_subj st h, wt)
                                | _ => (st, w4)
                                end in
              let w6 := set_node w5 n {| n_op := op; n_src := src; n_others := others; n_st := st1; n_ctl := c |} in
              (flat_map (fun i => match nth_error ups i, find_ser i entries with
                                  | Some pp, Some o' => [SubscribePipe (snd pp) o']
                                  | _, _ => []
                                  end) order ++ map (Act n) (init_acts op src others), w6)
          end
      end
  (* ---- subjects (subjects/*.rs) ---- *)
  | SubjCall h e =>
      let sj := subjs w h in
      (* the history cells are written under a statement-scoped write lock: a callback that is being
         replayed to (history read lock held) and pushes into the same subject blocks on itself *)
      if match sj_kind sj with KBehavior | KReplay => conflicts (held w) (LHist h) MW | _ => false end
      then ([], w_out (SelfDeadlock (LHist h)) w) else
      let sj' := match sj_kind sj, e with
                 | KBehavior, Nx v => sj_set_last sj (Some v)
                 | KBehavior, Er x => sj_set_err sj (Some x)
                 | KBehavior, Co => sj_set_last sj None
                 | KReplay, Nx v => sj_set_items sj (sj_items sj ++ [v])
                 | KReplay, Er x => sj_set_err sj (Some x)
                 | KReplay, Co => sj_set_done sj true
                 | _, _ => sj
                 end in
      ([Broadcast h e], set_subj w h sj')
  | Broadcast h e =>
      let sj := subjs w h in
      (map (fun p => Deliver (snd p) e) (sj_obs sj),
       match e with Nx _ => w | _ => set_subj w h (sj_set_obs sj []) end)
  | SubjJoin h o =>
      let sj := subjs w h in
      let ser := S (sj_serial sj) in
      let l := sj_obs sj ++ [(ser, o)] in
      let w1 := set_obs w o (set_td (obs w o) (Some (TdSubjRemove h ser))) in
      ([AcqL (LHookSub h) MR; HookSub h (length l); RelL (LHookSub h) MR],
       set_subj w1 h (sj_set_obs (sj_set_serial sj ser) l))
  | Replay h o => (hist_replay (subjs w h) o, w)
  | HookSub h len =>
      match sj_hook (subjs w h) with
      | Some k => if Nat.eqb len 1 then ([Connect k], w) else ([], w)
      | None => ([], w)
      end
  | HookUnsub h len =>
      match sj_hook (subjs w h) with
      | Some k => if Nat.eqb len 0 then ([SlotUnsub k], w) else ([], w)
      | None => ([], w)
      end
  (* ---- connectables (operators/ref_count.rs, replay.rs) ---- *)
  | Connect k =>
      let cn := conns w k in
      match k_slot cn with
      | Some _ => ([], w)
      | None => let '(o', w1) := alloc_obs w (TFeedK k) in
                ([MkSub o' (DSlot k); SubscribePipe (k_src cn) o'], w1)
      end
  | SlotUnsub k =>
      let cn := conns w k in
      match k_slot cn with
      | Some s =>
          (* replay: a connection whose source has terminated (Subscription::is_subscribed() = false) stays *)
          if match k_kind cn with CReplay => negb (is_sub (obs w (sb_obs (subs w s)))) | _ => false end then ([], w)
          else ([SubUnsub s],
                w_conns (upd (conns w) k {| k_kind := k_kind cn; k_src := k_src cn; k_subj := k_subj cn; k_slot := None |}) w)
      | None => ([], w)
      end
  | BehaviorJoin h o =>
      if is_sub (obs w o) then
        let '(x, w1) := alloc_cell w in
        let '(o', w2) := alloc_obs w1 (TForward o) in
        ([SetTdCell o x; SubjJoin h o'; MkSub o' (DCell x)], w2)
      else ([], w)
  | ReplayDone h o' =>
      let sj := subjs w h in
      match sj_err sj, sj_done sj with
      | None, false => ([], match o_tgt (obs w o') with
                            | TGated o => set_obs w o' {| o_n := o_n (obs w o'); o_e := o_e (obs w o'); o_c := o_c (obs w o');
                                                          o_td := o_td (obs w o'); o_tgt := TForward o |}
                            | _ => w
                            end)
      | _, _ => ([], w)
      end
  | CellCheck o x =>
      if is_sub (obs w o) then ([], w) else ([AcqL (LCell x) MR; CellUnsub x; RelL (LCell x) MR], w)
  (* ---- Subscription (subscription.rs) ---- *)
  | MkSub o d =>
      let s := n_subs w in
      let w1 := w_n_subs (S s) (w_subs (upd (subs w) s {| sb_obs := o; sb_live := true |}) w) in
      ([], match d with
           | DNone => w1
           | DHandle k => w_handles (upd (handles w1) k (Some (o, Some s))) w1
           | DCell x => w_cells (upd (cells w1) x (Some s)) w1
           | DSlot k => let cn := conns w1 k in
                        w_conns (upd (conns w1) k {| k_kind := k_kind cn; k_src := k_src cn; k_subj := k_subj cn; k_slot := Some s |}) w1
           | DConn x => w_chandles (upd (chandles w1) x (Some s)) w1
           end)
  | SubUnsub s =>
      let sb := subs w s in
      if sb_live sb then ([Unsub (sb_obs sb)], w_subs (upd (subs w) s {| sb_obs := sb_obs sb; sb_live := false |}) w)
      else ([], w)
  | CellUnsub x => (match cells w x with Some s => [SubUnsub s] | None => [] end, w)
  (* ---- locks held across call-outs ---- *)
  | AcqL l m => if conflicts (held w) l m then ([], w_out (SelfDeadlock l) w) else ([], w_held ((l, m) :: held w) w)
  | RelL l m => ([], w_held (release (held w) l m) w)
  (* ---- the harness's driver ---- *)
  | React k i =>
      (flat_map (fun ir : nat * reaction =>
                   if Nat.eqb (fst ir) i then
                     match snd ir with
                     | RUnsubSelf => handle_sub w k
                     | RUnsub k' => handle_sub w k'
                     | REmit h e => [SubjCall h e]
                     | RSub k' p => [DoSub k' p []]
                     | RPush s e => push_reqs s e (manual w s)
                     end
                   else []) (reacts w k), w)
  | DoSub k p rs =>
      match handles w k with
      | Some _ => ([], w)
      | None => let '(o, w1) := alloc_obs w (TUser (uenc (UTop k))) in
                ([SubscribePipe p o; MkSub o (DHandle k)],
                 w_reacts (upd (reacts w1) k rs) (w_handles (upd (handles w1) k (Some (o, None))) w1))
      end
  | Snap =>
      ([], w_snaps (snaps w ++ [(cur w,
                                 map (fun k => match handles w k with
                                               | Some (o, _) => is_sub (obs w o)
                                               | None => false
                                               end) (seq 0 (n_handles w)),
                                 map (fun h => length (sj_obs (subjs w h))) (seq 0 (n_hot w)))]) w)
  | Drv a =>
      let w1 := w_cur (S (cur w)) w in
      match a with
      | DSub k p rs => ([DoSub k p rs; Snap], w1)
      | DUnsub k => (handle_sub w1 k ++ [Snap], w1)
      | DEmit h e => ([SubjCall h e; Snap], w1)
      | DConnect k x =>
          let cn := conns w1 k in
          let '(o', w2) := alloc_obs w1 (TFeed (k_subj cn)) in
          ([SubscribePipe (k_src cn) o'; MkSub o' (DConn x); Snap], w2)
      | DDisconnect x => (match chandles w1 x with Some s => [SubUnsub s] | None => [] end ++ [Snap], w1)
      | DPush s e => (push_reqs s e (manual w1 s) ++ [Snap], w1)
      end
  end.

(* ------------------------------------------------------------------ run *)
Fixpoint run (fuel : nat) (stk : list req) (w : world) : list req * world :=
  match fuel with
  | 0 => (stk, w)
  | S f => match out w with
           | SelfDeadlock _ => (stk, w)
           | Running => match stk with
                        | [] => ([], w)
                        | r :: rs => let '(new, w') := step r w in run f (new ++ rs) w'
                        end
           end
  end.

(* ------------------------------------------------------------------ scenarios *)
Record scenario := {
  sc_scripts : list (list (list ev) * bool);          (* cold sources *)
  sc_subjects : list (skind * option val);            (* driver-visible subjects, ids 0.. *)
  sc_conns : list (ckind * pipe);                     (* connectables, ids 0..; each allocates its subject after the hot ones *)
  sc_defs : list pipe;                                (* Observable values built once, referred to by PRef *)
  sc_handles : nat;
  sc_script : list action }.

Definition dflt_node : node := {| n_op := OFwd; n_src := PNever; n_others := []; n_st := st0; n_ctl := 0 |}.
Definition dflt_conn : conn := {| k_kind := CPublish; k_src := PNever; k_subj := 0; k_slot := None |}.

Definition init_world (sc : scenario) : world :=
  let nh := length (sc_subjects sc) in
  let subj_tab : list subj :=
    map (fun ki => mk_subj (fst ki) (snd ki)) (sc_subjects sc) ++
    map (fun (ik : nat * (ckind * pipe)) =>
           let '(i, (k, _)) := ik in
           sj_set_hook (mk_subj (match k with CReplay => KReplay | _ => KSubject end) None)
                       (match k with CPublish => None | _ => Some i end))
        (combine (seq 0 (length (sc_conns sc))) (sc_conns sc)) in
  let conn_tab : list conn :=
    map (fun (ik : nat * (ckind * pipe)) =>
           let '(i, (k, p)) := ik in {| k_kind := k; k_src := p; k_subj := nh + i; k_slot := None |})
        (combine (seq 0 (length (sc_conns sc))) (sc_conns sc)) in
  {| obs := fun _ => dead_obs; n_obs := 0;
     ctls := fun _ => {| c_sub := 0; c_uns := []; c_serial := 0 |}; n_ctls := 0;
     nodes := fun _ => dflt_node; n_nodes := 0;
     subjs := fun h => nth h subj_tab (mk_subj KSubject None); n_subjs := length subj_tab;
     subs := fun _ => {| sb_obs := 0; sb_live := false |}; n_subs := 0;
     cells := fun _ => None; n_cells := 0;
     conns := fun k => nth k conn_tab dflt_conn;
     scripts := fun s => nth s (sc_scripts sc) ([], false);
     attempts := fun _ => 0; counters := fun _ => 0; manual := fun _ => []; defs := fun i => nth i (sc_defs sc) PNever;
     handles := fun _ => None; chandles := fun _ => None; reacts := fun _ => []; ncalls := fun _ => 0;
     n_child := 0; n_handles := sc_handles sc; n_hot := nh;
     log := []; taplog := []; probes := []; snaps := []; held := []; cur := 0; out := Running |}.

Definition run_scenario (fuel : nat) (sc : scenario) : list req * world :=
  run fuel (map Drv (sc_script sc)) (init_world sc).
