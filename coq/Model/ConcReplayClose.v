(* C12 / C10: ReplaySubject::complete / error racing a subscriber (src/subjects/replay_subject.rs), seen from ONE newcomer o.
   Atoms (one lock-protected critical section or one callback each):
     closer     :  RcFlag    store the terminal (was_completed / was_error)            W flag
                   RcDrain   take the observers out of the live subject (one section) W observers
                   RcNotify  hand the terminal to those taken: o's forwarder passes it on iff o's replay is over (marker set)
     subscriber :  RcJoin    register o's forwarder with the live subject               W observers
                   RcReplay  replay the history under the history lock, then: stored terminal present -> deliver it (the marker
                             stays unset), otherwise set the marker (o goes live)
   Any interleaving.  Definitions only. *)
From Coq Require Import List Bool Arith.
Import ListNotations.

Record rccfg := {
  rc_flag : bool; rc_snap : option bool; rc_notified : bool;
  rc_joined : bool; rc_replayed : bool; rc_marker : bool;
  rc_got_replay : bool; rc_got_live : bool }.

Inductive rcact := RcFlag | RcDrain | RcNotify | RcJoin | RcReplay.

Definition rcstep (c : rccfg) (a : rcact) : rccfg :=
  match a with
  | RcFlag => {| rc_flag := true; rc_snap := rc_snap c; rc_notified := rc_notified c; rc_joined := rc_joined c; rc_replayed := rc_replayed c;
                 rc_marker := rc_marker c; rc_got_replay := rc_got_replay c; rc_got_live := rc_got_live c |}
  | RcDrain => if rc_flag c then
                 match rc_snap c with
                 | Some _ => c
                 | None => {| rc_flag := rc_flag c; rc_snap := Some (rc_joined c); rc_notified := rc_notified c; rc_joined := rc_joined c;
                              rc_replayed := rc_replayed c; rc_marker := rc_marker c; rc_got_replay := rc_got_replay c; rc_got_live := rc_got_live c |}
                 end
               else c
  | RcNotify => match rc_snap c with
                | Some b => if rc_notified c then c else
                            {| rc_flag := rc_flag c; rc_snap := rc_snap c; rc_notified := true; rc_joined := rc_joined c; rc_replayed := rc_replayed c;
                               rc_marker := rc_marker c; rc_got_replay := rc_got_replay c; rc_got_live := rc_got_live c || (b && rc_marker c) |}
                | None => c
                end
  | RcJoin => {| rc_flag := rc_flag c; rc_snap := rc_snap c; rc_notified := rc_notified c; rc_joined := true; rc_replayed := rc_replayed c;
                 rc_marker := rc_marker c; rc_got_replay := rc_got_replay c; rc_got_live := rc_got_live c |}
  | RcReplay => if rc_joined c && negb (rc_replayed c) then
                  {| rc_flag := rc_flag c; rc_snap := rc_snap c; rc_notified := rc_notified c; rc_joined := rc_joined c; rc_replayed := true;
                     rc_marker := negb (rc_flag c); rc_got_replay := rc_flag c; rc_got_live := rc_got_live c |}
                else c
  end.

Definition rcrun (acts : list rcact) (c : rccfg) : rccfg := fold_left rcstep acts c.
Definition rcinit : rccfg :=
  {| rc_flag := false; rc_snap := None; rc_notified := false; rc_joined := false; rc_replayed := false; rc_marker := false;
     rc_got_replay := false; rc_got_live := false |}.
