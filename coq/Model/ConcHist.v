(* C12: ReplaySubject / BehaviorSubject (src/subjects/replay_subject.rs, behavior_subject.rs) used from several
   threads, seen from ONE subscriber j that subscribes while pushes are in progress.
   Atoms (one lock-protected critical section or one callback each):
     producer p : HAppend   W history: record the item, learn its position n        (blocked while j holds the read lock)
                  HSnap     R observers of the inner Subject: j is in the snapshot or not
                  HDeliver  j's live callback: forwarded iff j has a threshold k and k <= n
     subscriber : JStep     the next step of observable()'s subscribe closure:
        Replay   : 0 insert j into the inner Subject      1 take the read lock on the history (k := its length)
                   2 replay positions 0..k-1, threshold := k      3 release the lock
        Behavior : 0 take the read lock, hand over the latest value (position k-1, k := length), threshold := k
                   1 insert j into the inner Subject       2 release the lock
   (the BehaviorSubject's initial value is position 0 of the history, pushed by nobody: producer tag `init_tag`)
   Any number of producers with arbitrary scripts, any interleaving.  Definitions only. *)
From Coq Require Import List Bool Arith.
Import ListNotations.

Inductive hmode := HReplay | HBehavior.
Inductive hpos := HIdle | HApp (n : nat) | HPend (n : nat) (b : bool).
Record hprod := { hp_script : list nat; hp_k : nat; hp_pos : hpos }.

Record hcfg := {
  h_mode : hmode;
  h_hist : list (nat * nat);          (* (producer, value) by position *)
  h_in : bool;                        (* j is in the inner Subject's observer map *)
  h_lock : bool;                      (* j holds the read lock on the history *)
  h_k : nat;                          (* the history length j saw under the lock *)
  h_thr : option nat;                 (* j's threshold: live items at positions >= it are forwarded *)
  h_stage : nat;                      (* j's program counter *)
  h_prod : nat -> hprod;
  h_log : list (nat * nat * nat) }.   (* what j received: (producer, position, value) *)

Inductive hact := HAppend (p : nat) | HSnap (p : nat) | HDeliver (p : nat) | JStep.

Definition hupd (f : nat -> hprod) (p : nat) (x : hprod) : nat -> hprod := fun q => if Nat.eqb q p then x else f q.
Definition set_prod (c : hcfg) (f : nat -> hprod) : hcfg :=
  {| h_mode := h_mode c; h_hist := h_hist c; h_in := h_in c; h_lock := h_lock c; h_k := h_k c; h_thr := h_thr c;
     h_stage := h_stage c; h_prod := f; h_log := h_log c |}.
Definition entry (hist : list (nat * nat)) (n : nat) : nat * nat * nat :=
  (fst (nth n hist (0, 0)), n, snd (nth n hist (0, 0))).

Definition hstep (c : hcfg) (a : hact) : hcfg :=
  match a with
  | HAppend p =>
      let pr := h_prod c p in
      match hp_pos pr with
      | HIdle => if h_lock c then c else
                 if Nat.ltb (hp_k pr) (length (hp_script pr))
                 then {| h_mode := h_mode c; h_hist := h_hist c ++ [(p, nth (hp_k pr) (hp_script pr) 0)];
                         h_in := h_in c; h_lock := h_lock c; h_k := h_k c; h_thr := h_thr c; h_stage := h_stage c;
                         h_prod := hupd (h_prod c) p {| hp_script := hp_script pr; hp_k := S (hp_k pr); hp_pos := HApp (length (h_hist c)) |};
                         h_log := h_log c |}
                 else c
      | _ => c
      end
  | HSnap p =>
      let pr := h_prod c p in
      match hp_pos pr with
      | HApp n => set_prod c (hupd (h_prod c) p {| hp_script := hp_script pr; hp_k := hp_k pr; hp_pos := HPend n (h_in c) |})
      | _ => c
      end
  | HDeliver p =>
      let pr := h_prod c p in
      match hp_pos pr with
      | HPend n b =>
          {| h_mode := h_mode c; h_hist := h_hist c; h_in := h_in c; h_lock := h_lock c; h_k := h_k c; h_thr := h_thr c; h_stage := h_stage c;
             h_prod := hupd (h_prod c) p {| hp_script := hp_script pr; hp_k := hp_k pr; hp_pos := HIdle |};
             h_log := if b then match h_thr c with
                                | Some k => if Nat.leb k n then h_log c ++ [entry (h_hist c) n] else h_log c
                                | None => h_log c
                                end
                      else h_log c |}
      | _ => c
      end
  | JStep =>
      match h_mode c, h_stage c with
      | HReplay, 0 => {| h_mode := h_mode c; h_hist := h_hist c; h_in := true; h_lock := h_lock c; h_k := h_k c; h_thr := h_thr c; h_stage := 1;
                         h_prod := h_prod c; h_log := h_log c |}
      | HReplay, 1 => {| h_mode := h_mode c; h_hist := h_hist c; h_in := h_in c; h_lock := true; h_k := length (h_hist c); h_thr := h_thr c; h_stage := 2;
                         h_prod := h_prod c; h_log := h_log c |}
      | HReplay, 2 => {| h_mode := h_mode c; h_hist := h_hist c; h_in := h_in c; h_lock := h_lock c; h_k := h_k c; h_thr := Some (h_k c); h_stage := 3;
                         h_prod := h_prod c; h_log := h_log c ++ map (entry (h_hist c)) (seq 0 (h_k c)) |}
      | HReplay, 3 => {| h_mode := h_mode c; h_hist := h_hist c; h_in := h_in c; h_lock := false; h_k := h_k c; h_thr := h_thr c; h_stage := 4;
                         h_prod := h_prod c; h_log := h_log c |}
      | HBehavior, 0 => {| h_mode := h_mode c; h_hist := h_hist c; h_in := h_in c; h_lock := true; h_k := length (h_hist c);
                           h_thr := Some (length (h_hist c)); h_stage := 1;
                           h_prod := h_prod c; h_log := h_log c ++ [entry (h_hist c) (length (h_hist c) - 1)] |}
      | HBehavior, 1 => {| h_mode := h_mode c; h_hist := h_hist c; h_in := true; h_lock := h_lock c; h_k := h_k c; h_thr := h_thr c; h_stage := 2;
                           h_prod := h_prod c; h_log := h_log c |}
      | HBehavior, 2 => {| h_mode := h_mode c; h_hist := h_hist c; h_in := h_in c; h_lock := false; h_k := h_k c; h_thr := h_thr c; h_stage := 3;
                           h_prod := h_prod c; h_log := h_log c |}
      | _, _ => c
      end
  end.

Definition hrun (acts : list hact) (c : hcfg) : hcfg := fold_left hstep acts c.

Definition init_tag := 1000.
Definition hinit (m : hmode) (initial : nat) (scripts : nat -> list nat) : hcfg :=
  {| h_mode := m; h_hist := match m with HReplay => [] | HBehavior => [(init_tag, initial)] end;
     h_in := false; h_lock := false; h_k := 0; h_thr := None; h_stage := 0;
     h_prod := fun p => {| hp_script := scripts p; hp_k := 0; hp_pos := HIdle |}; h_log := [] |}.

(* the positions of producer p's items in the history, ascending *)
Definition posns (p : nat) (hist : list (nat * nat)) : list nat :=
  filter (fun n => Nat.eqb (fst (nth n hist (0, 0))) p) (seq 0 (length hist)).
(* the positions of producer p's items that j received, in the order received *)
Definition hgot (p : nat) (l : list (nat * nat * nat)) : list nat :=
  map (fun x => snd (fst x)) (filter (fun x : nat * nat * nat => Nat.eqb (fst (fst x)) p) l).
Definition j_done (c : hcfg) : bool :=
  match h_mode c with HReplay => Nat.eqb (h_stage c) 4 | HBehavior => Nat.eqb (h_stage c) 3 end.
Definition quiet (c : hcfg) (p : nat) : bool := match hp_pos (h_prod c p) with HIdle => true | _ => false end.
