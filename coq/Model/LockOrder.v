(* C07: lock-order discipline.  A state of the lock layer: every thread holds a set of lock instances and may be
   requesting one more.  `mu` assigns every lock INSTANCE a natural number (its place in the acquisition order);
   the discipline says that a thread only ever requests a lock whose place is above the places of all locks it holds.
   The executable checker `edges_ok` validates a candidate order - given as a level per lock CLASS (creation site),
   a direction per level and the creation number of the instance - against the nested acquisitions recorded by the
   scheduling runtime (one edge = a lock held by a thread at the moment it requests another one).  Definitions only. *)
From Coq Require Import List Bool Arith.
Import ListNotations.

Record lthread := { lt_held : list nat; lt_want : option nat }.

Definition disciplined (mu : nat -> nat) (t : lthread) : Prop :=
  match lt_want t with Some l => forall h, In h (lt_held t) -> mu h < mu l | None => True end.

(* a set D of threads (indices into ts), not empty, each requesting a lock held by a member of D *)
Definition deadlocked (ts : list lthread) (D : list nat) : Prop :=
  D <> [] /\
  forall i, In i D -> exists l, lt_want (nth i ts {| lt_held := []; lt_want := None |}) = Some l /\
                      exists j, In j D /\ In l (lt_held (nth j ts {| lt_held := []; lt_want := None |})).

(* ---- the order used by ./vp: level of the class first, creation number (up or down) within a level *)
Record edge := { e_hcls : nat; e_hid : nat; e_wcls : nat; e_wid : nat }.
Definition place (bound : nat) (level : nat -> nat) (up : nat -> bool) (cls id : nat) : nat :=
  level cls * bound + (if up (level cls) then id else bound - 1 - id).
Definition edge_ok (bound : nat) (level : nat -> nat) (up : nat -> bool) (e : edge) : bool :=
  Nat.ltb (e_hid e) bound && Nat.ltb (e_wid e) bound &&
  Nat.ltb (place bound level up (e_hcls e) (e_hid e)) (place bound level up (e_wcls e) (e_wid e)).
Definition edges_ok (bound : nat) (level : nat -> nat) (up : nat -> bool) (es : list edge) : bool :=
  forallb (edge_ok bound level up) es.
