(* C12: a plain Subject (src/subjects/subject.rs) used from several threads, seen from ONE observer o.
   Atoms (one lock-protected critical section or one callback each):
     producer p, item k :  snapshot of the observer map (R observers)  ->  o is in the snapshot or not
                           the call of o's next: delivered iff o still has its slots
                           (the deliveries to the other observers of the snapshot do not concern o)
     subscriber         :  insert o into the map (W observers)              - once
     unsubscriber       :  clear o's slots ; remove o from the map (W)      - in this order (Observer::unsubscribe)
   Any number of producers with arbitrary scripts, any interleaving.  Definitions only. *)
From Coq Require Import List Bool Arith.
Import ListNotations.

Inductive ppos := SIdle | SPending | SPast.       (* nothing in flight | o is in the snapshot, its call still to come | o dealt with for this item *)
Record sprod := { sp_script : list nat; sp_k : nat; sp_pos : ppos }.

Record scfg := {
  s_inmap : bool;               (* o is in the observer map *)
  s_alive : bool;               (* o still has its callback slots *)
  s_joined : bool;              (* the subscriber thread has inserted o *)
  s_leave : nat;                (* unsubscriber thread: 0 = not started, 1 = slots cleared, 2 = removed *)
  s_prod : nat -> sprod;
  s_log : list (nat * nat * nat) }.       (* what o received: (producer, index of the item in its script, value) *)

Inductive sact := SSnap (p : nat) | SDeliver (p : nat) | SFinish (p : nat) | SJoin | SClear | SRemove.

Definition supd (f : nat -> sprod) (p : nat) (x : sprod) : nat -> sprod := fun q => if Nat.eqb q p then x else f q.

Definition sstep (c : scfg) (a : sact) : scfg :=
  match a with
  | SSnap p =>
      let pr := s_prod c p in
      match sp_pos pr with
      | SIdle => if Nat.ltb (sp_k pr) (length (sp_script pr))
                 then {| s_inmap := s_inmap c; s_alive := s_alive c; s_joined := s_joined c; s_leave := s_leave c;
                         s_prod := supd (s_prod c) p {| sp_script := sp_script pr; sp_k := sp_k pr; sp_pos := if s_inmap c then SPending else SPast |};
                         s_log := s_log c |}
                 else c
      | _ => c
      end
  | SDeliver p =>
      let pr := s_prod c p in
      match sp_pos pr with
      | SPending => {| s_inmap := s_inmap c; s_alive := s_alive c; s_joined := s_joined c; s_leave := s_leave c;
                       s_prod := supd (s_prod c) p {| sp_script := sp_script pr; sp_k := sp_k pr; sp_pos := SPast |};
                       s_log := if s_alive c then s_log c ++ [(p, sp_k pr, nth (sp_k pr) (sp_script pr) 0)] else s_log c |}
      | _ => c
      end
  | SFinish p =>
      let pr := s_prod c p in
      match sp_pos pr with
      | SPast => {| s_inmap := s_inmap c; s_alive := s_alive c; s_joined := s_joined c; s_leave := s_leave c;
                    s_prod := supd (s_prod c) p {| sp_script := sp_script pr; sp_k := S (sp_k pr); sp_pos := SIdle |};
                    s_log := s_log c |}
      | _ => c
      end
  | SJoin => if s_joined c then c else
             {| s_inmap := true; s_alive := s_alive c; s_joined := true; s_leave := s_leave c; s_prod := s_prod c; s_log := s_log c |}
  | SClear => if Nat.eqb (s_leave c) 0 then
                {| s_inmap := s_inmap c; s_alive := false; s_joined := s_joined c; s_leave := 1; s_prod := s_prod c; s_log := s_log c |}
              else c
  | SRemove => if Nat.eqb (s_leave c) 1 then
                 {| s_inmap := false; s_alive := s_alive c; s_joined := s_joined c; s_leave := 2; s_prod := s_prod c; s_log := s_log c |}
               else c
  end.

Definition srun (acts : list sact) (c : scfg) : scfg := fold_left sstep acts c.
Definition sinit (scripts : nat -> list nat) : scfg :=
  {| s_inmap := false; s_alive := true; s_joined := false; s_leave := 0;
     s_prod := fun p => {| sp_script := scripts p; sp_k := 0; sp_pos := SIdle |}; s_log := [] |}.

(* the indices of producer p's items that o received, in the order it received them *)
Definition got (p : nat) (l : list (nat * nat * nat)) : list nat :=
  map (fun x => snd (fst x)) (filter (fun x : nat * nat * nat => Nat.eqb (fst (fst x)) p) l).

(* executable oracle on an observed per-producer index sequence: consecutive indices, each once *)
Fixpoint consecutive (l : list nat) : bool :=
  match l with
  | [] => true
  | x :: r => match r with [] => true | y :: _ => Nat.eqb y (S x) && consecutive r end
  end.
