(* Tie oracles between the implementation's observations and the K-automata (SubjK, ConnK ...):
   the implementation must behave as the automaton the refinement theorems are about.  Definitions only. *)
From Coq Require Import List ZArith Bool Arith.
From RX Require Import Val Syntax World Step Spec Oracle Oracle2 SubjK.
Import ListNotations.

Fixpoint nodupb (l : list nat) : bool :=
  match l with [] => true | x :: r => negb (existsb (Nat.eqb x) r) && nodupb r end.
Definition sub_handles_b (script : list action) : list nat :=
  flat_map (fun a => match a with DSub k _ _ => [k] | _ => [] end) script.

(* implementation = SubjK on plain histories: per-observer logs and the final number of observers the
   inner Subject holds *)
Definition c10k_oracle (sc : scenario) (o : observation) : option bool :=
  match sc_subjects sc, sc_conns sc with
  | [(kind, init)], [] =>
      if negb (Nat.eqb (ob_out o) 0) then None
      else if negb (plain_history (sc_script sc)) then None
      else if negb (nodupb (sub_handles_b (sc_script sc))) then None
      else
        let s := sk_run kind init (sc_script sc) in
        Some (forallb (fun k => evs_sim (ulog (uenc (UTop k)) (ob_log o)) (sk_logs s k)) (seq 0 (sc_handles sc)) &&
              match rev (ob_snaps o) with
              | (_, _, counts) :: _ => Nat.eqb (nth 0 counts 0) (length (sk_obs s))
              | [] => true
              end)
  | _, _ => None
  end.

(* implementation = ConnK on hot-source histories: per-subscriber logs, and after EVERY action the number of
   observers the source subject holds (= live source subscriptions of the connectable) *)
From RX Require Import ConnK.
Definition c13k_oracle (sc : scenario) (o : observation) : option bool :=
  match sc_conns sc, sc_subjects sc with
  | [(kind, PHot 0)], [(KSubject, _)] =>
      if negb (Nat.eqb (ob_out o) 0) then None
      else if negb (conn_history (sc_script sc)) then None
      else if negb (nodupb (sub_handles_b (sc_script sc))) then None
      else
        let states := ck_run kind (sc_script sc) in
        let final := last states ck0 in
        Some (forallb (fun k => evs_sim (ulog (uenc (UTop k)) (ob_log o)) (c_clogs final k)) (seq 0 (sc_handles sc)) &&
              forallb (fun js : nat * ck =>
                         match nth_error (ob_snaps o) (fst js) with
                         | Some (_, _, counts) => Nat.eqb (nth 0 counts 0) (c_nsrc (snd js))
                         | None => true
                         end) (combine (seq 0 (length states)) states))
  | _, _ => None
  end.

(* ------------------------------------------------------------------ C03: combining operators against Spec3 / MLoc *)
From RX Require Import Tear MLoc.

Definition all_hot (ps : list pipe) : bool :=
  forallb (fun ip : nat * pipe => match snd ip with PHot h => Nat.eqb h (fst ip) | _ => false end) (combine (seq 0 (length ps)) ps).
Definition all_cold (ps : list pipe) : bool :=
  forallb (fun ip : nat * pipe => match snd ip with PCold h => Nat.eqb h (fst ip) | _ => false end) (combine (seq 0 (length ps)) ps).

(* the sequential interleaving of the sources' events, as (source index, event) *)
Definition interleaving (sc : scenario) (op : opk) (ps : list pipe) : option (list (nat * ev)) :=
  match sc_script sc with
  | DSub 0 _ [] :: rest =>
      if all_hot ps && forallb (fun ki : skind * option val => match fst ki with KSubject => true | _ => false end) (sc_subjects sc) then
        if forallb (fun a => match a with DEmit _ _ => true | _ => false end) rest
        then Some (flat_map (fun a => match a with DEmit h e => if Nat.ltb h (length ps) then [(h, e)] else [] | _ => [] end) rest) else None
      else if all_cold ps then
        (* cold sources play their script when they are subscribed: the crate subscribes the trigger of take_until / skip_until /
           sample first, everything else in source order *)
        let order := match op with OTakeUntil | OSkipUntil | OSample => [1; 0] | _ => seq 0 (length ps) end in
        match rest, op with
        | _, OFlatMap _ => None        (* a cold inner source is subscribed once per outer item, inside the outer's emission: no fixed interleaving *)
        | [], _ => Some (flat_map (fun j => map (fun e => (j, e)) (match scripts_of sc j with l :: _ => l | [] => [] end)) order)
        | _, _ => None
        end
      else None
  | _ => None
  end.

Definition wf_scripts (sc : scenario) (n : nat) : bool :=
  forallb (fun j => match scripts_of sc j with l :: _ => match parse_script l with Some _ => true | None => false end | [] => true end) (seq 0 n).

(* (expected by the definition, what the local semantics of the handler table gives); sources are renamed to serials *)
Definition c03_expect (op : opk) (n : nat) (l : list (nat * ev)) : option (list ev) * option (list ev) :=
  let k := n - 1 in
  let flip2 := map (fun x : nat * ev => (1 - fst x, snd x)) l in          (* stream = source 0 = serial 1, trigger = source 1 = serial 0 *)
  let rev := map (fun x : nat * ev => (k - fst x, snd x)) l in           (* merge / amb: serial = k - source *)
  match op with
  | OMerge => (Some (spec_merge n [] l), Some (mrun OMerge k rev))
  | OAmb => (Some (spec_amb n None [] l), Some (mrun OAmb k rev))
  | OZip => (Some (spec_zip n [] (repeat [] n) l), Some (mrun OZip k l))
  | OTakeUntil => if Nat.eqb n 2 then (Some (spec_take_until [] flip2), Some (mrun OTakeUntil 1 flip2)) else (None, None)
  | OSkipUntil => if Nat.eqb n 2 then (Some (spec_skip_until false [] flip2), Some (mrun OSkipUntil 1 flip2)) else (None, None)
  | OSample => if Nat.eqb n 2 then (Some (spec_sample None [] flip2), Some (mrun OSample 1 flip2)) else (None, None)
  | OConcat => (Some (spec_concat n 0 l), Some (mrun_first OConcat k l))
  | OResume => if Nat.eqb n 2 then (Some (spec_resume 0 l), Some (mrun_first OResume 1 l)) else (None, None)
  | OCombineLatest f => (Some (spec_combine_latest f n [] (repeat None n) l), None)
  | OSequenceEqual => if Nat.eqb n 2 then (spec_sequence_equal2 l, None) else (None, None)
  | OFlatMap SelMod =>       (* inner = others[x mod (n-1)] = source 1 + x mod (n-1) *)
      if Nat.leb 2 n then (Some (spec_flat_map (fun x => S (Z.to_nat (Z.modulo (as_int x) (Z.of_nat (n - 1))))) true [] [] l), None) else (None, None)
  | _ => (None, None)
  end.

Definition c03_oracle (sc : scenario) (o : observation) : option bool :=
  match sc_script sc with
  | DSub 0 (POp op p0 ps) [] :: _ =>
      match interleaving sc op (p0 :: ps) with
      | Some l =>
          if negb (Nat.eqb (ob_out o) 0) then None
          else if all_cold (p0 :: ps) && negb (wf_scripts sc (S (length ps))) then None
          else match fst (c03_expect op (S (length ps)) l) with
               | Some exp => Some (evs_sim (ulog (uenc (UTop 0)) (ob_log o)) exp)
               | None => None
               end
      | None => None
      end
  | _ => None
  end.

(* tie: the implementation behaves as the local semantics of the handler table *)
Definition c03_mloc_oracle (sc : scenario) (o : observation) : option bool :=
  match sc_script sc with
  | DSub 0 (POp op p0 ps) [] :: _ =>
      match interleaving sc op (p0 :: ps) with
      | Some l =>
          if negb (Nat.eqb (ob_out o) 0) then None
          else if all_cold (p0 :: ps) && negb (wf_scripts sc (S (length ps))) then None
          else match snd (c03_expect op (S (length ps)) l) with
               | Some exp => Some (evs_sim (ulog (uenc (UTop 0)) (ob_log o)) exp)
               | None => None
               end
      | None => None
      end
  | _ => None
  end.

(* ------------------------------------------------------------------ C04: recovery operators against RetryLoc's specification *)
From RX Require Import RetryLoc Loc.

Fixpoint split_recovery (ops : list opk) : option (list opk * opk * list opk) :=
  match ops with
  | [] => None
  | op :: r => match op with
               | ORetry _ | ORetryWhen _ => Some ([], op, r)
               | _ => match split_recovery r with Some (pre, x, post) => Some (op :: pre, x, post) | None => None end
               end
  end.

Definition extend_attempts (atts : list (list ev)) (n : nat) : list (list ev) :=
  atts ++ repeat (last atts []) (n - length atts).

Definition c04_oracle (sc : scenario) (o : observation) : option bool :=
  match sc_script sc with
  | [DSub 0 p []] =>
      match p with
      | POp OResume inner others =>
          (* items before the error, then the observable the function returns for that error *)
          match spec_pipe (scripts_of sc) inner, chain_of inner with
          | Some (xs, en), Some (_, iops) =>
              if negb (forallb loc_supported iops) then None else
              let exp := match en with
                         | Fails e => match spec_pipe (scripts_of sc) (resume_pipe others e) with
                                      | Some r => Some (map Nx xs ++ events r)
                                      | None => None
                                      end
                         | _ => Some (events (xs, en))
                         end in
              match exp with
              | Some ex => Some (Nat.eqb (ob_out o) 0 && evs_sim (ulog (uenc (UTop 0)) (ob_log o)) ex)
              | None => None
              end
          | _, _ => None
          end
      | _ =>
          match chain_of p with
          | Some (PCold 0, ops) =>
              match split_recovery ops with
              | Some (pre, rop, post) =>
                  if negb (forallb loc_supported pre && forallb loc_supported post) then None else
                  let atts := extend_attempts (scripts_of sc 0) 8 in
                  if negb (forallb (fun l => match parse_script l with Some _ => true | None => false end) atts) then None else
                  let inner := map (fun l => parse_script (loc_chain pre l)) atts in
                  if negb (forallb (fun x => match x with Some _ => true | None => false end) inner) then None else
                  let souts := flat_map (fun x => match x with Some s => [s] | None => [] end) inner in
                  let '(exp, m) := match rop with
                                   | ORetry n => spec_retry n souts
                                   | ORetryWhen pd => spec_retry_when pd souts
                                   | _ => ([], 0)
                                   end in
                  if Nat.leb 8 m then None            (* the budget was not exhausted within the attempts the scenario describes *)
                  else
                    let final := loc_chain post exp in
                    let made := length (nodup Nat.eq_dec (map (fun pr : nat * nat * nat * bool * nat * nat => let '(_, att, _, _, _, _) := pr in att) (ob_probes o))) in
                    (* an operator downstream that has all it needs ends the subscription before later attempts are made *)
                    let ends_early := existsb (fun x => match x with OTake _ | OTakeWhile _ | OFirst | OElementAt _ | OContains _ | OAll _ | ODematerialize => true | _ => false end) post in
                    Some (Nat.eqb (ob_out o) 0 && evs_sim (ulog (uenc (UTop 0)) (ob_log o)) final &&
                          (if ends_early then Nat.leb made m else Nat.eqb made m))
              | None => None
              end
          | _ => None
          end
      end
  | _ => None
  end.
