(* Tie oracles between the implementation's observations and the K-automata (SubjK, ConnK ...):
   the implementation must behave as the automaton the refinement theorems are about.  Definitions only. *)
From Coq Require Import List ZArith Bool Arith.
From RX Require Import Val Syntax World Step Spec Oracle Oracle2 SubjK.
Import ListNotations.

Fixpoint nodupb (l : list nat) : bool :=
  match l with [] => true | x :: r => negb (existsb (Nat.eqb x) r) && nodupb r end.
Definition sub_handles_b (script : list action) : list nat :=
  flat_map (fun a => match a with DSub k _ _ => [k] | _ => [] end) script.

(* implementation = SubjK on plain histories: per-observer logs and the final number of observers the
   inner Subject holds *)
Definition c10k_oracle (sc : scenario) (o : observation) : option bool :=
  match sc_subjects sc, sc_conns sc with
  | [(kind, init)], [] =>
      if negb (Nat.eqb (ob_out o) 0) then None
      else if negb (plain_history (sc_script sc)) then None
      else if negb (nodupb (sub_handles_b (sc_script sc))) then None
      else
        let s := sk_run kind init (sc_script sc) in
        Some (forallb (fun k => evs_sim (ulog (uenc (UTop k)) (ob_log o)) (sk_logs s k)) (seq 0 (sc_handles sc)) &&
              match rev (ob_snaps o) with
              | (_, _, counts) :: _ => Nat.eqb (nth 0 counts 0) (length (sk_obs s))
              | [] => true
              end)
  | _, _ => None
  end.

(* implementation = ConnK on hot-source histories: per-subscriber logs, and after EVERY action the number of
   observers the source subject holds (= live source subscriptions of the connectable) *)
From RX Require Import ConnK.
Definition c13k_oracle (sc : scenario) (o : observation) : option bool :=
  match sc_conns sc, sc_subjects sc with
  | [(kind, PHot 0)], [(KSubject, _)] =>
      if negb (Nat.eqb (ob_out o) 0) then None
      else if negb (conn_history (sc_script sc)) then None
      else if negb (nodupb (sub_handles_b (sc_script sc))) then None
      else
        let states := ck_run kind (sc_script sc) in
        let final := last states ck0 in
        Some (forallb (fun k => evs_sim (ulog (uenc (UTop k)) (ob_log o)) (c_clogs final k)) (seq 0 (sc_handles sc)) &&
              forallb (fun js : nat * ck =>
                         match nth_error (ob_snaps o) (fst js) with
                         | Some (_, _, counts) => Nat.eqb (nth 0 counts 0) (c_nsrc (snd js))
                         | None => true
                         end) (combine (seq 0 (length states)) states))
  | _, _ => None
  end.
