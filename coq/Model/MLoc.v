(* MLoc: the local semantics of one MULTI-source operator node (the handler table of Step.v, the
   StreamController bookkeeping as in Tear.v) fed an arbitrary sequential interleaving of events, each
   addressed to one upstream observer (by its serial), with a subscriber that never leaves.  This is the
   form in which the combining operators are proved against Spec3.  Definitions only. *)
From Coq Require Import List ZArith Bool Arith.
From RX Require Import Val Syntax Step Tear.
Import ListNotations.

Record mst := { m_st : ostate; m_es : list (nat * (bool * bool)); m_alive : bool }.

Definition m_finalize (s : mst) : mst :=
  {| m_st := m_st s; m_es := map (fun x : nat * (bool * bool) => let '(k, (r, u)) := x in (k, (false, if r then false else u))) (m_es s); m_alive := false |}.
Definition m_set_es s es := {| m_st := m_st s; m_es := es; m_alive := m_alive s |}.
Definition m_set_st s st := {| m_st := st; m_es := m_es s; m_alive := m_alive s |}.

(* zip's drain loop: while every queue has an item, emit the tuple of heads (guarded by is_subscribed) *)
Fixpoint zip_drain (fuel : nat) (qs : list (list val)) : list (list val) * list ev :=
  match fuel with
  | 0 => (qs, [])
  | S f => if all_nonempty qs then let '(qs', out) := zip_drain f (tails qs) in (qs', Nx (VList (heads qs)) :: out) else (qs, [])
  end.

Fixpoint mact (a : act) (s : mst) {struct a} : mst * list ev :=
  match a with
  | SinkNext v => if m_alive s then (s, [Nx v]) else (m_finalize s, [])
  | SinkError e => if m_alive s then (m_finalize s, [Er e]) else (m_finalize s, [])
  | SinkComplete k =>
      if m_alive s then
        let es' := unreg k (m_es s) in
        if no_reg es' then (m_finalize (m_set_es s es'), [Co]) else (m_set_es s es', [])
      else (m_finalize s, [])
  | SinkCompleteForce => if m_alive s then (m_finalize s, [Co]) else (m_finalize s, [])
  | UpAbort k => (m_set_es s (abort k (m_es s)), [])
  | Finalize => (m_finalize s, [])
  | IfSub yes no =>
      (fix go (l : list act) (s : mst) {struct l} : mst * list ev :=
         match l with [] => (s, []) | a :: r => let '(s1, o1) := mact a s in let '(s2, o2) := go r s1 in (s2, o1 ++ o2) end)
        (if m_alive s then yes else no) s
  | AFlush l => if m_alive s then (s, map Nx l) else (s, [])
  | AWith _ body =>
      (fix go (l : list act) (s : mst) {struct l} : mst * list ev :=
         match l with [] => (s, []) | a :: r => let '(s1, o1) := mact a s in let '(s2, o2) := go r s1 in (s2, o1 ++ o2) end) body s
  | ASetFlag b => (m_set_st s (st_set_flag (m_st s) b), [])
  | AZipDrain =>
      if m_alive s then
        let qs := st_qs (m_st s) in
        let '(qs', out) := zip_drain (S (length (hd [] qs))) qs in
        (m_set_st s (st_set_qs (m_st s) qs'), out)
      else (s, [])
  | ASubscribe _ _ =>
      (* new_observer: the next serial (= number of observers made so far) is registered - already unsubscribed if the
         subscriber has left - and the source named by the action is subscribed with it: from now on the feed may address it *)
      (m_set_es s (m_es s ++ [(length (m_es s), (m_alive s, m_alive s))]), [])
  | ASubjNew _ | ASubjCall _ _ | ADeliver _ _ => (s, [])      (* outside MLoc's catalogue *)
  end.

Fixpoint macts (l : list act) (s : mst) : mst * list ev :=
  match l with [] => (s, []) | a :: r => let '(s1, o1) := mact a s in let '(s2, o2) := macts r s1 in (s2, o1 ++ o2) end.

(* which handlers (port) the observer with serial `ser` got from `execute` (Step.plan) *)
Definition port_of (op : opk) (ser : nat) : nat :=
  match op with
  | OZip => ser
  | OTakeUntil | OSkipUntil | OSample => ser        (* 0 = trigger, 1 = source *)
  | OResume => ser                                  (* 0 = source, 1 = the observable the resume function returned (ASubscribe .. 1) *)
  | OFlatMap _ => if Nat.eqb ser 0 then 0 else 1    (* 0 = source, 1 = every inner observable (ASubscribe .. 1) *)
  | _ => 0
  end.

Definition up_of (ser : nat) (es : list (nat * (bool * bool))) : bool :=
  existsb (fun x : nat * (bool * bool) => Nat.eqb (fst x) ser && snd (snd x)) es.
Definition close_obs (ser : nat) (es : list (nat * (bool * bool))) :=
  map (fun x : nat * (bool * bool) => let '(k, (r, u)) := x in if Nat.eqb k ser then (k, (r, false)) else x) es.

(* one event arrives at the upstream observer `ser`: the observer's gate, then the handler *)
Definition mstep (op : opk) (nothers : nat) (s : mst) (se : nat * ev) : mst * list ev :=
  let '(ser, e) := se in
  if up_of ser (m_es s) then
    let s0 := if is_term e then m_set_es s (close_obs ser (m_es s)) else s in
    let '(st', acts) := handler op PNever (repeat PNever nothers) (m_st s0) (port_of op ser) ser 0 e in
    macts acts (m_set_st s0 st')
  else (s, []).

Fixpoint mfeed (op : opk) (nothers : nat) (s : mst) (l : list (nat * ev)) : mst * list ev :=
  match l with
  | [] => (s, [])
  | x :: r => let '(s1, o1) := mstep op nothers s x in let '(s2, o2) := mfeed op nothers s1 r in (s2, o1 ++ o2)
  end.

Definition mst0 (op : opk) (nothers : nat) : mst :=
  {| m_st := init_state op (repeat PNever nothers);
     m_es := map (fun i => (i, (true, true))) (seq 0 (S nothers));
     m_alive := true |}.

Definition mrun (op : opk) (nothers : nat) (l : list (nat * ev)) : list ev := snd (mfeed op nothers (mst0 op nothers) l).

(* concat / on_error_resume_next subscribe their further sources later: initially only serial 0 exists *)
Definition mst0_first (op : opk) (nothers : nat) : mst :=
  {| m_st := init_state op (repeat PNever nothers); m_es := [(0, (true, true))]; m_alive := true |}.
Definition mrun_first (op : opk) (nothers : nat) (l : list (nat * ev)) : list ev := snd (mfeed op nothers (mst0_first op nothers) l).

(* ------------------------------------------------------------------ specifications (Spec3): what the ReactiveX definition assigns
   to a sequential interleaving `l` of (source, event) among n sources.  `closed` = the sources that have
   signalled their terminal (or were dropped): whatever they "emit" afterwards does not exist. *)
Definition memb (x : nat) (l : list nat) : bool := existsb (Nat.eqb x) l.
Definition all_in (n : nat) (closed : list nat) : bool := forallb (fun i => memb i closed) (seq 0 n).
Definition here (n : nat) (closed : list nat) (j : nat) : bool := Nat.ltb j n && negb (memb j closed).

(* concat of n sources: source `cur` is the only one subscribed; its items pass, its error ends everything, its complete
   moves on to the next source (or completes after the last); what the other sources emit meanwhile is not heard *)
Fixpoint spec_concat (n : nat) (cur : nat) (l : list (nat * ev)) : list ev :=
  match l with
  | [] => []
  | (j, e) :: r =>
      if Nat.eqb j cur then
        match e with
        | Nx v => Nx v :: spec_concat n cur r
        | Er x => [Er x]
        | Co => if Nat.leb n (S cur) then [Co] else spec_concat n (S cur) r
        end
      else spec_concat n cur r
  end.

(* on_error_resume_next with one resume source (serial 1, subscribed when source 0 fails): the source's items, then - if it
   failed - the resume source's items and terminal; an error of the resume source is final *)
Fixpoint spec_resume (cur : nat) (l : list (nat * ev)) : list ev :=
  match l with
  | [] => []
  | (j, e) :: r =>
      if Nat.eqb j cur then
        match e with
        | Nx v => Nx v :: spec_resume cur r
        | Co => [Co]
        | Er x => if Nat.eqb cur 0 then spec_resume 1 r else [Er x]
        end
      else spec_resume cur r
  end.

(* flat_map: source 0 is subscribed at the start; its k-th item subscribes inner observable number k (serial k, counted
   from 1), so `n` - the number of sources subscribed so far - grows; the items of every inner observable pass in arrival
   order, the first error of anyone ends it, complete when the source and every inner observable subscribed so far have
   completed.  What an inner observable "emits" before it was subscribed does not exist (serial >= n: not heard). *)
Fixpoint spec_flat_map_ser (n : nat) (closed : list nat) (l : list (nat * ev)) : list ev :=
  match l with
  | [] => []
  | (j, e) :: r =>
      if here n closed j then
        match j, e with
        | 0, Nx _ => spec_flat_map_ser (S n) closed r
        | _, Nx v => Nx v :: spec_flat_map_ser n closed r
        | _, Er x => [Er x]
        | _, Co => if all_in n (j :: closed) then [Co] else spec_flat_map_ser n (j :: closed) r
        end
      else spec_flat_map_ser n closed r
  end.

(* merge of n sources: every item in arrival order; the first error ends it; complete when all n have completed *)
Fixpoint spec_merge (n : nat) (closed : list nat) (l : list (nat * ev)) : list ev :=
  match l with
  | [] => []
  | (j, e) :: r =>
      if here n closed j then
        match e with
        | Nx v => Nx v :: spec_merge n closed r
        | Er x => [Er x]
        | Co => if all_in n (j :: closed) then [Co] else spec_merge n (j :: closed) r
        end
      else spec_merge n closed r
  end.

(* amb of n sources: mirror the first source that signals anything (item or terminal); `win` = the winner so far *)
Fixpoint spec_amb (n : nat) (win : option nat) (closed : list nat) (l : list (nat * ev)) : list ev :=
  match l with
  | [] => []
  | (j, e) :: r =>
      if here n closed j then
        let w := match win with Some w => w | None => j end in
        if Nat.eqb j w then
          match e with Nx v => Nx v :: spec_amb n (Some w) closed r | Er x => [Er x] | Co => [Co] end
        else spec_amb n (Some w) (j :: closed) r          (* a loser: dropped at its first signal *)
      else spec_amb n win closed r
  end.

(* take_until: source 0 = trigger, source 1 = the stream.  Items of the stream until the trigger emits an item;
   the trigger's own terminal does not end the stream. *)
Fixpoint spec_take_until (closed : list nat) (l : list (nat * ev)) : list ev :=
  match l with
  | [] => []
  | (j, e) :: r =>
      if here 2 closed j then
        match j, e with
        | 0, Nx _ => [Co]
        | 0, _ => spec_take_until (0 :: closed) r
        | _, Nx v => Nx v :: spec_take_until closed r
        | _, Er x => [Er x]
        | _, Co => [Co]
        end
      else spec_take_until closed r
  end.

(* skip_until: items of the stream once the trigger has emitted an item (the trigger is dropped then) *)
Fixpoint spec_skip_until (open : bool) (closed : list nat) (l : list (nat * ev)) : list ev :=
  match l with
  | [] => []
  | (j, e) :: r =>
      if here 2 closed j then
        match j, e with
        | 0, Nx _ => spec_skip_until true (0 :: closed) r
        | 0, _ => spec_skip_until open (0 :: closed) r
        | _, Nx v => if open then Nx v :: spec_skip_until open closed r else spec_skip_until open closed r
        | _, Er x => [Er x]
        | _, Co => [Co]
        end
      else spec_skip_until open closed r
  end.

(* sample: each trigger item hands on the latest stream item not yet handed on *)
Fixpoint spec_sample (latest : option val) (closed : list nat) (l : list (nat * ev)) : list ev :=
  match l with
  | [] => []
  | (j, e) :: r =>
      if here 2 closed j then
        match j, e with
        | 0, Nx _ => match latest with Some v => Nx v :: spec_sample None closed r | None => spec_sample None closed r end
        | 0, _ => spec_sample latest (0 :: closed) r
        | _, Nx v => spec_sample (Some v) closed r
        | _, Er x => [Er x]
        | _, Co => [Co]
        end
      else spec_sample latest closed r
  end.

(* zip of n sources: the i-th output is the list of the i-th items; the first error ends it; complete when all
   n have completed (the crate's convention, DESIGN 1.2) *)
Fixpoint spec_zip (n : nat) (closed : list nat) (qs : list (list val)) (l : list (nat * ev)) : list ev :=
  match l with
  | [] => []
  | (j, e) :: r =>
      if here n closed j then
        match e with
        | Nx v =>
            let qs1 := upd_nth j (fun q => q ++ [v]) qs in
            let '(qs2, out) := zip_drain (S (length (hd [] qs1))) qs1 in
            out ++ spec_zip n closed qs2 r
        | Er x => [Er x]
        | Co => if all_in n (j :: closed) then [Co] else spec_zip n (j :: closed) qs r
        end
      else spec_zip n closed qs r
  end.

(* combine_latest (ReactiveX): on each item the latest of every source, once all have emitted *)
Fixpoint spec_combine_latest (f : combf) (n : nat) (closed : list nat) (latest : list (option val)) (l : list (nat * ev)) : list ev :=
  match l with
  | [] => []
  | (j, e) :: r =>
      if here n closed j then
        match e with
        | Nx v =>
            let latest1 := upd_nth j (fun _ => Some v) latest in
            (if forallb (fun o => match o with Some _ => true | None => false end) latest1
             then [Nx (appc f (flat_map (fun o => match o with Some x => [x] | None => [] end) latest1))] else [])
            ++ spec_combine_latest f n closed latest1 r
        | Er x => [Er x]
        | Co => if all_in n (j :: closed) then [Co] else spec_combine_latest f n (j :: closed) latest r
        end
      else spec_combine_latest f n closed latest r
  end.

(* sequence_equal of two sources (ReactiveX): true iff they emitted the same item sequence *)
Definition items_of (l : list (nat * ev)) (ser : nat) : list val :=
  flat_map (fun x : nat * ev => match x with (k, Nx v) => if Nat.eqb k ser then [v] else [] | _ => [] end) l.
Fixpoint lists_eqb (a b : list val) : bool :=
  match a, b with [], [] => true | x :: r, y :: s => val_eqb x y && lists_eqb r s | _, _ => false end.
Fixpoint mismatch (a b : list val) : bool :=       (* two items at the same position differ *)
  match a, b with x :: r, y :: s => negb (val_eqb x y) || mismatch r s | _, _ => false end.
Fixpoint until_terminals (closed : list nat) (l : list (nat * ev)) : list (nat * ev) * bool * bool :=   (* (well-formed part, errored?, all completed?) *)
  match l with
  | [] => ([], false, all_in 2 closed)
  | (j, e) :: r =>
      if here 2 closed j then
        match e with
        | Nx _ => let '(w, er, ac) := until_terminals closed r in ((j, e) :: w, er, ac)
        | Er _ => ([], true, false)
        | Co => until_terminals (j :: closed) r
        end
      else until_terminals closed r
  end.
Definition spec_sequence_equal2 (l : list (nat * ev)) : option (list ev) :=     (* None = not determined by the definition alone *)
  let '(w, er, ac) := until_terminals [] l in
  let a := items_of w 0 in let b := items_of w 1 in
  if er then None
  else if mismatch a b then Some [Nx (VBool false); Co]
  else if ac then Some [Nx (VBool (lists_eqb a b)); Co]
  else None.

(* flat_map over hot sources (specification only; decided by the oracle, no operator theorem): source 0 is the outer stream,
   an outer item x subscribes the inner source sel x (one of the sources 1..n-1) from that moment on; every inner subscription
   forwards the items of its source; complete when the outer and every inner subscription have completed; first error wins. *)
Fixpoint spec_flat_map (sel : val -> nat) (outer_live : bool) (inner : list nat) (closed : list nat) (l : list (nat * ev)) : list ev :=
  match l with
  | [] => []
  | (j, e) :: r =>
      match j, e with
      | 0, Nx x => if outer_live then spec_flat_map sel outer_live (inner ++ [sel x]) closed r else spec_flat_map sel outer_live inner closed r
      | 0, Er x => if outer_live then [Er x] else spec_flat_map sel outer_live inner closed r
      | 0, Co => if outer_live then (match inner with [] => [Co] | _ => spec_flat_map sel false inner closed r end)
                 else spec_flat_map sel outer_live inner closed r
      | _, Nx v => map (fun _ => Nx v) (filter (Nat.eqb j) inner) ++ spec_flat_map sel outer_live inner closed r
      | _, Er x => if memb j inner then [Er x] else spec_flat_map sel outer_live inner closed r     (* a plain Subject forgets its terminal: later subscribers are served again *)
      | _, Co => let inner' := filter (fun i => negb (Nat.eqb i j)) inner in
                 if memb j inner && negb outer_live && match inner' with [] => true | _ => false end then [Co]
                 else spec_flat_map sel outer_live inner' closed r
      end
  end.
