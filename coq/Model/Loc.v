(* Loc: the LOCAL semantics of one single-source operator node (the very `handler` table the
   sequential machine runs) wired to a subscriber that never leaves.  This is the form in which the
   operator definitions are proved against Spec.  Definitions only. *)
From Coq Require Import List ZArith Bool Arith.
From RX Require Import Val Syntax Step Spec.
Import ListNotations.

Record lst := { l_st : ostate;
                l_done : bool;      (* the downstream subscriber has received its terminal (or was unsubscribed by finalize) *)
                l_up : bool }.      (* the node's upstream observer is still subscribed *)
Definition lst0 (op : opk) : lst := {| l_st := init_state op []; l_done := false; l_up := true |}.
Definition l_set_st s v := {| l_st := v; l_done := l_done s; l_up := l_up s |}.
Definition l_end s := {| l_st := l_st s; l_done := true; l_up := false |}.
Definition l_abort s := {| l_st := l_st s; l_done := l_done s; l_up := false |}.

(* one StreamController primitive, for a controller with ONE upstream and a live-until-terminal subscriber
   (compare Step.step, case Act): *)
Fixpoint loc_act (a : act) (s : lst) {struct a} : lst * list ev :=
  match a with
  | SinkNext v => if l_done s then (s, []) else (s, [Nx v])
  | SinkError e => if l_done s then (l_abort s, []) else (l_end s, [Er e])
  | SinkComplete _ => if l_done s then (l_abort s, []) else (l_end s, [Co])     (* the only upstream entry goes: the map is empty *)
  | SinkCompleteForce => if l_done s then (l_abort s, []) else (l_end s, [Co])
  | UpAbort _ => (l_abort s, [])
  | Finalize => (l_end s, [])
  | IfSub yes no =>
      (fix go (l : list act) (s : lst) {struct l} : lst * list ev :=
         match l with
         | [] => (s, [])
         | a :: r => let '(s1, o1) := loc_act a s in let '(s2, o2) := go r s1 in (s2, o1 ++ o2)
         end) (if l_done s then no else yes) s
  | AFlush l => if l_done s then (s, []) else (s, map Nx l)
  | AWith _ body =>
      (fix go (l : list act) (s : lst) {struct l} : lst * list ev :=
         match l with
         | [] => (s, [])
         | a :: r => let '(s1, o1) := loc_act a s in let '(s2, o2) := go r s1 in (s2, o1 ++ o2)
         end) body s
  | ASetFlag b => (l_set_st s (st_set_flag (l_st s) b), [])
  | ADeliver _ _ => (s, [])                       (* tap: a side effect, nothing downstream *)
  | ASubscribe _ _ | ASubjNew _ | ASubjCall _ _ | AZipDrain => (s, [])    (* outside Loc's catalogue *)
  end.

Fixpoint loc_acts (l : list act) (s : lst) : lst * list ev :=
  match l with
  | [] => (s, [])
  | a :: r => let '(s1, o1) := loc_act a s in let '(s2, o2) := loc_acts r s1 in (s2, o1 ++ o2)
  end.

(* one event arriving at the node's upstream observer (the observer's gate, then the handler) *)
Definition loc_step (op : opk) (s : lst) (e : ev) : lst * list ev :=
  if l_up s then
    let '(st', acts) := handler op PNever [] (l_st s) 0 0 0 e in
    let s1 := l_set_st s st' in
    let s2 := if is_term e then l_abort s1 else s1 in       (* a terminal closes the upstream observer before the handler runs *)
    loc_acts acts s2
  else (s, []).

Fixpoint loc_feed (op : opk) (s : lst) (l : list ev) : lst * list ev :=
  match l with
  | [] => (s, [])
  | e :: r => let '(s1, o1) := loc_step op s e in let '(s2, o2) := loc_feed op s1 r in (s2, o1 ++ o2)
  end.

Definition loc_run (op : opk) (l : list ev) : list ev := snd (loc_feed op (lst0 op) l).

(* The derived operators are built by `execute` from other operators (Step.plan); start_with first
   emits its items itself.  `expand` lists the nodes from the source outwards. *)
Definition expand (op : opk) : list opk :=
  match op with
  | OFirst => [OTake 1; OFwd]
  | OLast => [OTakeLast 1; OFwd]
  | OElementAt n => [OTake n; OSkip (n - 1); OFwd]
  | OAll p => [OFilter (neg_pred p); OTake 1; OAll p]
  | OStartWith _ => [OFwd]
  | _ => [op]
  end.
Definition prefix_of (op : opk) : list ev := match op with OStartWith l => map Nx l | _ => [] end.

Definition loc_op (op : opk) (l : list ev) : list ev :=
  prefix_of op ++ fold_left (fun acc o => loc_run o acc) (expand op) l.

(* a linear chain of operators, source side first *)
Definition loc_chain (ops : list opk) (l : list ev) : list ev := fold_left (fun acc o => loc_op o acc) ops l.
Definition spec_chain (ops : list opk) (i : sout) : sout := fold_left (fun acc o => spec_op o acc) ops i.

(* the operators whose node-level theorem `loc_run = spec` is stated (single node, no dynamic subscription) *)
Definition loc_node_op (op : opk) : bool :=
  match op with
  | OMap _ | OFilter _ | OTake _ | OTakeWhile _ | OTakeLast _ | OSkip _ | OSkipLast _ | OSkipWhile _
  | ODistinct | OScan _ | OReduce _ | OSum | OMin | OMax | OCount | OSumAndCount | OContains _
  | ODefaultIfEmpty _ | OIgnore | OMaterialize | ODematerialize | OTap _ | OMapToAny | OFwd
  | OWindow (S _) | OBuffer (S _) | OGroupBy _ => true
  | _ => false
  end.
(* ... and the ones covered through `expand` *)
Definition loc_derived_op (op : opk) : bool :=
  match op with OFirst | OLast | OElementAt _ | OAll _ | OStartWith _ => true | _ => false end.
