(* Deliberately naive specifications: what each single-source operator and creation function
   delivers for a source that emits a finite item list and then completes, errors or stays silent
   (DESIGN Appendix A).  Definitions only. *)
From Coq Require Import List ZArith Bool Arith.
From RX Require Import Val Syntax.
Import ListNotations.

Inductive ending := Completes | Fails (e : err) | Silent.
Definition sout := (list val * ending)%type.

Definition events (o : sout) : list ev :=
  map Nx (fst o) ++ match snd o with Completes => [Co] | Fails e => [Er e] | Silent => [] end.

(* a script is well-formed when nothing follows its first terminal; then it denotes an sout *)
Fixpoint parse_script (l : list ev) : option sout :=
  match l with
  | [] => Some ([], Silent)
  | Nx v :: r => match parse_script r with Some (xs, en) => Some (v :: xs, en) | None => None end
  | Er e :: r => match r with [] => Some ([], Fails e) | _ => None end
  | Co :: r => match r with [] => Some ([], Completes) | _ => None end
  end.

Fixpoint takewhile {A} (p : A -> bool) (l : list A) : list A :=
  match l with [] => [] | x :: r => if p x then x :: takewhile p r else [] end.
Fixpoint dropwhile {A} (p : A -> bool) (l : list A) : list A :=
  match l with [] => [] | x :: r => if p x then dropwhile p r else x :: r end.
Definition lastn {A} (n : nat) (l : list A) : list A := skipn (length l - n) l.
Fixpoint dedup (prev : option val) (l : list val) : list val :=
  match l with
  | [] => []
  | x :: r => match prev with
              | Some p => if val_eqb p x then dedup prev r else x :: dedup (Some x) r
              | None => x :: dedup (Some x) r
              end
  end.
Fixpoint scanl (f : val -> val -> val) (acc : option val) (l : list val) : list val :=
  match l with
  | [] => []
  | x :: r => let a := match acc with Some a => f a x | None => x end in a :: scanl f (Some a) r
  end.
Definition fold1 (f : val -> val -> val) (l : list val) : option val :=
  match l with [] => None | x :: r => Some (fold_left f r x) end.
Fixpoint chunks (fuel n : nat) (l : list val) : list (list val) :=      (* n >= 1 *)
  match fuel with
  | 0 => []
  | S k => match l with [] => [] | _ => firstn n l :: chunks k n (skipn n l) end
  end.
Definition when_complete (en : ending) (ys : list val) : sout :=
  match en with Completes => (ys, Completes) | _ => ([], en) end.
Definition opt_list (o : option val) : list val := match o with Some v => [v] | None => [] end.

Definition min_f (a x : val) : val := if val_ltb x a then x else a.
Definition max_f (a x : val) : val := if val_ltb a x then x else a.

Fixpoint demat (l : list val) (en : ending) : sout :=
  match l with
  | [] => ([], en)
  | VMatN x :: r => let '(ys, e') := demat r en in (x :: ys, e')
  | VMatE e :: _ => ([], Fails e)
  | VMatC :: _ => ([], Completes)
  | x :: r => let '(ys, e') := demat r en in (x :: ys, e')
  end.

(* keys of group_by in order of first appearance *)
Fixpoint keys_of (k : Z) (seen : list Z) (l : list val) : list Z :=
  match l with
  | [] => []
  | x :: r => let key := key_of k x in
              if existsb (Z.eqb key) seen then keys_of k seen r else key :: keys_of k (key :: seen) r
  end.

(* the stream a subscriber of `op` sees, given what the source does *)
Definition spec_op (op : opk) (i : sout) : sout :=
  let '(xs, en) := i in
  match op with
  | OMap f => (map (app1 f) xs, en)
  | OFilter p => (filter (appp p) xs, en)
  | OTake n => (firstn n xs, if Nat.leb (Nat.max n 1) (length xs) then Completes else en)
  | OFirst => (firstn 1 xs, if Nat.leb 1 (length xs) then Completes else en)
  | OTakeWhile p => (takewhile (appp p) xs, if forallb (appp p) xs then en else Completes)
  | OTakeLast n => when_complete en (lastn n xs)
  | OLast => when_complete en (lastn 1 xs)
  | OSkip n => (skipn n xs, en)
  | OSkipLast n => (firstn (length xs - n) xs, en)
  | OSkipWhile p => (dropwhile (appp p) xs, en)
  | OElementAt n =>            (* 1-based; n = 0 behaves as take 0 *)
      (match n with 0 => [] | S m => match nth_error xs m with Some v => [v] | None => [] end end,
       if Nat.leb (Nat.max n 1) (length xs) then Completes else en)
  | ODistinct => (dedup None xs, en)
  | OScan f => (scanl (app2 f) None xs, en)
  | OReduce f => when_complete en (opt_list (fold1 (app2 f) xs))
  | OSum => when_complete en (opt_list (fold1 val_add xs))
  | OMin => when_complete en (opt_list (fold1 min_f xs))
  | OMax => when_complete en (opt_list (fold1 max_f xs))
  | OCount => when_complete en [VInt (Z.of_nat (length xs))]
  | OSumAndCount => when_complete en (match fold1 val_add xs with
                                      | Some s => [VList [s; VInt (Z.of_nat (length xs))]]
                                      | None => []
                                      end)
  | OAll p => if forallb (appp p) xs then when_complete en [VBool true] else ([VBool false], Completes)
  | OContains t => if existsb (fun x => val_eqb x t) xs then ([VBool true], Completes)
                   else match en with Silent => ([], Silent) | _ => ([VBool false], Completes) end   (* error => false: pinned by the crate's test *)
  | ODefaultIfEmpty d => match xs, en with [], Completes => ([d], Completes) | _, _ => (xs, en) end
  | OIgnore => ([], en)
  | OStartWith ys => (ys ++ xs, en)
  | OBuffer n => let cs := chunks (S (length xs)) n xs in
                 (map VList (match en with
                             | Completes => cs
                             | _ => filter (fun c => Nat.eqb (length c) n) cs
                             end), en)
  | OWindow n => (map (fun _ => VObs 0) (chunks (S (length xs)) n xs), en)       (* one window per chunk; content: spec_children *)
  | OGroupBy k => (map (fun _ => VObs 0) (keys_of k [] xs), en)
  | OMaterialize => match en with
                    | Completes => (map VMatN xs ++ [VMatC], Completes)
                    | Fails e => (map VMatN xs ++ [VMatE e], Completes)
                    | Silent => (map VMatN xs, Silent)
                    end
  | ODematerialize => demat xs en
  | OTap _ | OMapToAny | OFwd => (xs, en)
  | _ => (xs, en)               (* multi-source / recovery operators: not in C02's catalogue *)
  end.

(* what the recorders subscribed to the windows / groups see, in order of creation *)
Definition spec_children (op : opk) (i : sout) : list sout :=
  let '(xs, en) := i in
  match op with
  | OWindow n =>
      let cs := chunks (S (length xs)) n xs in
      map (fun c => (c, if Nat.eqb (length c) n then Completes else en)) cs
  | OGroupBy k =>
      map (fun key => (filter (fun x => Z.eqb (key_of k x) key) xs, en)) (keys_of k [] xs)
  | _ => []
  end.

Definition in_c02 (op : opk) : bool :=
  match op with
  | OMerge | OFlatMap _ | OConcat | OZip | OCombineLatest _ | OAmb | OTakeUntil | OSkipUntil | OSample
  | OSwitchOnNext | OSequenceEqual | ORetry _ | ORetryWhen _ | OResume => false
  | OBuffer 0 => false          (* panics by the crate's own assert *)
  | OWindow 0 => false
  | _ => true
  end.

Definition repeat_bound := 40.

(* creation functions and single-source chains; None = outside C02's catalogue *)
Fixpoint spec_pipe (scripts : nat -> list (list ev)) (p : pipe) : option sout :=
  match p with
  | PCold s => match scripts s with l :: _ => parse_script l | [] => Some ([], Silent) end
  | PJust v => Some ([v], Completes)
  | PFromIter l => Some (l, Completes)
  | PRange a n => Some (map VInt (seqZ a (Z.to_nat n)), Completes)
  | PEmpty => Some ([], Completes)
  | PNever => Some ([], Silent)
  | PError e => Some ([], Fails e)
  | PRepeat v => Some (repeat v repeat_bound, Silent)
  | PDefer q => spec_pipe scripts q
  | PStart c => Some ([VInt 0], Completes)           (* first call of counter c; the oracle uses it once per counter *)
  | PFromResult (inl v) => Some ([v], Completes)
  | PFromResult (inr e) => Some ([], Fails e)
  | POp op src [] => if in_c02 op then match spec_pipe scripts src with Some i => Some (spec_op op i) | None => None end else None
  | _ => None
  end.

(* the children of the OUTERMOST window/group operator of a chain (inner ones are consumed by operators) *)
Definition spec_pipe_children (scripts : nat -> list (list ev)) (p : pipe) : list sout :=
  match p with
  | POp op src [] => match spec_pipe scripts src with Some i => spec_children op i | None => [] end
  | _ => []
  end.

(* does the pipe contain an unbounded producer? then the expected stream must have been cut (Completes) *)
Fixpoint has_repeat (p : pipe) : bool :=
  match p with
  | PRepeat _ => true
  | PDefer q => has_repeat q
  | POp _ src _ => has_repeat src
  | _ => false
  end.
