(* Values, events and the fixed families of user functions.
   Definitions only (no proofs): the model must still run when a proof breaks. *)
From Coq Require Import List ZArith Bool.
Import ListNotations.
Open Scope Z_scope.

(* One item type for everything that flows through a pipeline.  The Rust harness
   uses the enum `V` with the same constructors (harness/seq/src/val.rs). *)
Inductive val :=
| VInt (z : Z)
| VBool (b : bool)
| VUnit
| VList (l : list val)
| VMatN (v : val)          (* Material::Next v   *)
| VMatE (e : nat)          (* Material::Error e  *)
| VMatC                    (* Material::Complete *)
| VObs (s : nat).          (* observable of the (window / group) subject s *)

Definition err := nat.      (* RxError payloads are opaque ids; clones alias *)

Inductive ev := Nx (v : val) | Er (e : err) | Co.

Definition is_term (e : ev) : bool := match e with Nx _ => false | _ => true end.

Fixpoint val_eqb (a b : val) {struct a} : bool :=
  match a, b with
  | VInt x, VInt y => Z.eqb x y
  | VBool x, VBool y => Bool.eqb x y
  | VUnit, VUnit => true
  | VList l1, VList l2 =>
      (fix go (l1 l2 : list val) {struct l1} : bool :=
         match l1, l2 with
         | [], [] => true
         | x :: r, y :: s => val_eqb x y && go r s
         | _, _ => false
         end) l1 l2
  | VMatN x, VMatN y => val_eqb x y
  | VMatE x, VMatE y => Nat.eqb x y
  | VMatC, VMatC => true
  | VObs x, VObs y => Nat.eqb x y
  | _, _ => false
  end.

Definition as_int (v : val) : Z := match v with VInt z => z | VBool true => 1 | _ => 0 end.

(* unary functions passed to `map` *)
Inductive fn1 := FAdd (k : Z) | FMul (k : Z) | FConst (k : Z) | FId | FModK (k : Z).
Definition app1 (f : fn1) (v : val) : val :=
  match f with
  | FAdd k => VInt (as_int v + k)
  | FMul k => VInt (as_int v * k)
  | FConst k => VInt k
  | FId => v
  | FModK k => VInt (Z.modulo (as_int v) k)      (* Rust side uses rem_euclid, k > 0 *)
  end.

(* predicates passed to filter / take_while / skip_while / all *)
Inductive pred := PLt (k : Z) | PGe (k : Z) | PEven | POdd | PTrue | PFalse | PEqK (k : Z) | PNeK (k : Z).
Definition appp (p : pred) (v : val) : bool :=
  match p with
  | PLt k => Z.ltb (as_int v) k
  | PGe k => Z.leb k (as_int v)
  | PEven => Z.eqb (Z.modulo (as_int v) 2) 0
  | POdd => negb (Z.eqb (Z.modulo (as_int v) 2) 0)
  | PTrue => true
  | PFalse => false
  | PEqK k => Z.eqb (as_int v) k
  | PNeK k => negb (Z.eqb (as_int v) k)
  end.

(* binary functions passed to scan / reduce; argument order (accumulator, item) *)
Inductive fn2 := F2Add | F2Max | F2Min | F2Fst | F2Snd | F2SubMul.
Definition app2 (f : fn2) (a x : val) : val :=
  match f with
  | F2Add => VInt (as_int a + as_int x)
  | F2Max => VInt (Z.max (as_int a) (as_int x))
  | F2Min => VInt (Z.min (as_int a) (as_int x))
  | F2Fst => a
  | F2Snd => x
  | F2SubMul => VInt (2 * as_int a - as_int x)       (* not associative, not commutative *)
  end.

(* key function of group_by: x mod k *)
Definition key_of (k : Z) (v : val) : Z := Z.modulo (as_int v) k.

(* predicates on errors, for retry_when *)
Inductive epred := EPAlways | EPNever | EPEq (e : err) | EPLt (e : err).
Definition appe (p : epred) (e : err) : bool :=
  match p with
  | EPAlways => true
  | EPNever => false
  | EPEq k => Nat.eqb e k
  | EPLt k => Nat.ltb e k
  end.

(* Vec<Item> -> Out, for combine_latest *)
Inductive combf := CList | CSum.
Definition appc (f : combf) (l : list val) : val :=
  match f with
  | CList => VList l
  | CSum => VInt (fold_left (fun a x => a + as_int x) l 0)
  end.

(* Ordering used by min / max (PartialOrd on ints). *)
Definition val_ltb (a b : val) : bool := Z.ltb (as_int a) (as_int b).

(* Sum (Add on ints). *)
Definition val_add (a b : val) : val := VInt (as_int a + as_int b).

Fixpoint seqZ (a : Z) (n : nat) : list Z := match n with O => [] | S k => a :: seqZ (a + 1)%Z k end.
