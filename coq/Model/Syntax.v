(* Syntax of the sequential machine `Seq`: an executable mirror of another-rxrust's
   Observer / Subscription / StreamController / Subject / connectable kernel and of
   every operator's three handlers, as a WORKLIST machine with a NON-RECURSIVE
   step function.  Pushing the expansion of a request in front of the rest of the
   stack is the code's synchronous re-entrancy.

   Definitions only; proofs are in ../Proofs.  Each definition names the Rust
   item it mirrors.  The model follows the code of /repo as it is NOW (including the
   `fix:` commits recorded in /verif/known_findings.json). *)
From Coq Require Import List ZArith Bool Arith.
From RX Require Import Val.
Import ListNotations.
Open Scope nat_scope.

(* ------------------------------------------------------------------ ids *)
Definition oid := nat.   (* Observer *)
Definition cid := nat.   (* StreamController *)
Definition nid := nat.   (* operator node: the per-subscription state of one `execute` closure *)
Definition hid := nat.   (* Subject (any of the four kinds, or a window/group subject) *)
Definition kid := nat.   (* connectable (publish / ref_count / replay) *)
Definition sid := nat.   (* Subscription object *)
Definition xid := nat.   (* `sbsc` cell of Behavior/ReplaySubject::observable *)

Definition upd {A} (f : nat -> A) (k : nat) (v : A) : nat -> A :=
  fun x => if Nat.eqb x k then v else f x.

(* ------------------------------------------------------------------ pipelines *)
Inductive fmsel := SelJust | SelPair (k : Z) | SelMod.      (* flat_map function family *)

Inductive opk :=
| OMap (f : fn1) | OFilter (p : pred) | OTake (n : nat) | OTakeWhile (p : pred) | OTakeLast (n : nat)
| OSkip (n : nat) | OSkipLast (n : nat) | OSkipWhile (p : pred) | OFirst | OLast | OElementAt (n : nat)
| ODistinct | OScan (f : fn2) | OReduce (f : fn2) | OCount | OSum | OSumAndCount | OMin | OMax
| OAll (p : pred) | OContains (v : val) | ODefaultIfEmpty (v : val) | OIgnore | OStartWith (l : list val)
| OBuffer (n : nat) | OWindow (n : nat) | OGroupBy (k : Z) | OMaterialize | ODematerialize | OTap (t : nat) | OMapToAny
| OMerge | OFlatMap (f : fmsel) | OConcat | OZip | OCombineLatest (f : combf) | OAmb
| OTakeUntil | OSkipUntil | OSample | OSwitchOnNext | OSequenceEqual
| ORetry (n : nat) | ORetryWhen (p : epred) | OResume
| OFwd.              (* internal: the forwarding node of first / last / element_at / start_with *)

Inductive pipe :=
| PCold (s : nat)                      (* scripted cold source s *)
| PJust (v : val) | PFromIter (l : list val) | PRange (a n : Z) | PEmpty | PNever | PError (e : err)
| PRepeat (v : val) | PDefer (p : pipe) | PStart (c : nat) | PFromResult (r : val + err)
| PHot (h : hid)                       (* subject h `.observable()` (any of the four kinds) *)
| PInner (h : hid)                     (* the inner plain Subject of h `.observable()` *)
| PConn (k : kid)                      (* connectable k `.observable()` *)
| PManual (s : nat)                    (* hand-driven source s: Observable::create(|o| store o); the driver emits on the stored observers *)
| PRef (i : nat)                       (* the Observable VALUE i built once at the start of the scenario *)
| POp (o : opk) (src : pipe) (others : list pipe).

(* ------------------------------------------------------------------ kernel objects *)
Inductive target :=
| TUser (u : nat)                         (* the three user callbacks of subscriber u *)
| THandler (n : nid) (port ser : nat)     (* closures made by StreamController::new_observer *)
| TForward (o : oid)                      (* Behavior/ReplaySubject: s_next.next(x) ... *)
| TGated (o : oid)                        (* ReplaySubject: the same closures while `ready` is still false: they drop the event *)
| TFeed (h : hid)                         (* publish connection: sbj.next(x) ... *)
| TFeedK (k : kid)                        (* ref_count/replay connection: the same; a terminal empties the connection slot first *)
| TTapLog (t : nat)                       (* the Observer built by `tap` *)
| TJunk.                                  (* junk callbacks *)

Inductive teardown :=
| TdFin (c : cid)                         (* StreamController::new: finalize() *)
| TdSubjRemove (h : hid) (ser : nat)      (* Subject::observable: remove + on_unsubscribe(len) *)
| TdCell (x : xid).                       (* Behavior/ReplaySubject::observable: sbsc cell *)

(* Observer: three callback slots and the teardown slot (observer.rs) *)
Record observer := { o_n : bool; o_e : bool; o_c : bool; o_td : option teardown; o_tgt : target }.
Definition is_sub (o : observer) : bool := o_n o && o_e o && o_c o.
Definition mk_obs (t : target) : observer := {| o_n := true; o_e := true; o_c := true; o_td := None; o_tgt := t |}.
Definition dead_obs : observer := {| o_n := false; o_e := false; o_c := false; o_td := None; o_tgt := TJunk |}.
Definition set_slots (o : observer) (n e c : bool) : observer :=
  {| o_n := n; o_e := e; o_c := c; o_td := o_td o; o_tgt := o_tgt o |}.
Definition set_td (o : observer) (t : option teardown) : observer :=
  {| o_n := o_n o; o_e := o_e o; o_c := o_c o; o_td := t; o_tgt := o_tgt o |}.

(* StreamController (internals/stream_controller.rs) *)
Record ctrl := { c_sub : oid; c_uns : list (nat * oid); c_serial : nat }.

(* per-subscription operator state: one record fits every operator *)
Record ostate := { st_cnt : nat; st_flag : bool; st_acc : option val; st_buf : list val;
                   st_qs : list (list val); st_subj : hid; st_groups : list (Z * hid);
                   st_win : option nat; st_aux : oid }.
Definition st0 : ostate := {| st_cnt := 0; st_flag := false; st_acc := None; st_buf := []; st_qs := [];
                              st_subj := 0; st_groups := []; st_win := None; st_aux := 0 |}.
Definition st_set_cnt s v := {| st_cnt := v; st_flag := st_flag s; st_acc := st_acc s; st_buf := st_buf s; st_qs := st_qs s; st_subj := st_subj s; st_groups := st_groups s; st_win := st_win s; st_aux := st_aux s |}.
Definition st_set_flag s v := {| st_cnt := st_cnt s; st_flag := v; st_acc := st_acc s; st_buf := st_buf s; st_qs := st_qs s; st_subj := st_subj s; st_groups := st_groups s; st_win := st_win s; st_aux := st_aux s |}.
Definition st_set_acc s v := {| st_cnt := st_cnt s; st_flag := st_flag s; st_acc := v; st_buf := st_buf s; st_qs := st_qs s; st_subj := st_subj s; st_groups := st_groups s; st_win := st_win s; st_aux := st_aux s |}.
Definition st_set_buf s v := {| st_cnt := st_cnt s; st_flag := st_flag s; st_acc := st_acc s; st_buf := v; st_qs := st_qs s; st_subj := st_subj s; st_groups := st_groups s; st_win := st_win s; st_aux := st_aux s |}.
Definition st_set_qs s v := {| st_cnt := st_cnt s; st_flag := st_flag s; st_acc := st_acc s; st_buf := st_buf s; st_qs := v; st_subj := st_subj s; st_groups := st_groups s; st_win := st_win s; st_aux := st_aux s |}.
Definition st_set_subj s v := {| st_cnt := st_cnt s; st_flag := st_flag s; st_acc := st_acc s; st_buf := st_buf s; st_qs := st_qs s; st_subj := v; st_groups := st_groups s; st_win := st_win s; st_aux := st_aux s |}.
Definition st_set_groups s v := {| st_cnt := st_cnt s; st_flag := st_flag s; st_acc := st_acc s; st_buf := st_buf s; st_qs := st_qs s; st_subj := st_subj s; st_groups := v; st_win := st_win s; st_aux := st_aux s |}.
Definition st_set_win s v := {| st_cnt := st_cnt s; st_flag := st_flag s; st_acc := st_acc s; st_buf := st_buf s; st_qs := st_qs s; st_subj := st_subj s; st_groups := st_groups s; st_win := v; st_aux := st_aux s |}.
Definition st_set_aux s v := {| st_cnt := st_cnt s; st_flag := st_flag s; st_acc := st_acc s; st_buf := st_buf s; st_qs := st_qs s; st_subj := st_subj s; st_groups := st_groups s; st_win := st_win s; st_aux := v |}.

Record node := { n_op : opk; n_src : pipe; n_others : list pipe; n_st : ostate; n_ctl : cid }.

(* Subjects (subjects/*.rs) *)
Inductive skind := KSubject | KBehavior | KReplay | KAsync.
Record subj := { sj_kind : skind;
                 sj_obs : list (nat * oid);     (* inner Subject.observers *)
                 sj_serial : nat;               (* inner Subject.serial *)
                 sj_hook : option kid;          (* on_subscribe / on_unsubscribe installed by ref_count / replay *)
                 sj_last : option val;          (* BehaviorSubject.last_item *)
                 sj_err : option err;           (* last_error / was_error *)
                 sj_items : list val;           (* ReplaySubject.items *)
                 sj_done : bool }.              (* ReplaySubject.was_completed *)
Definition mk_subj (k : skind) (init : option val) : subj :=
  {| sj_kind := k; sj_obs := []; sj_serial := 0; sj_hook := None; sj_last := init; sj_err := None; sj_items := []; sj_done := false |}.
Definition sj_set_obs s v := {| sj_kind := sj_kind s; sj_obs := v; sj_serial := sj_serial s; sj_hook := sj_hook s; sj_last := sj_last s; sj_err := sj_err s; sj_items := sj_items s; sj_done := sj_done s |}.
Definition sj_set_serial s v := {| sj_kind := sj_kind s; sj_obs := sj_obs s; sj_serial := v; sj_hook := sj_hook s; sj_last := sj_last s; sj_err := sj_err s; sj_items := sj_items s; sj_done := sj_done s |}.
Definition sj_set_hook s v := {| sj_kind := sj_kind s; sj_obs := sj_obs s; sj_serial := sj_serial s; sj_hook := v; sj_last := sj_last s; sj_err := sj_err s; sj_items := sj_items s; sj_done := sj_done s |}.
Definition sj_set_last s v := {| sj_kind := sj_kind s; sj_obs := sj_obs s; sj_serial := sj_serial s; sj_hook := sj_hook s; sj_last := v; sj_err := sj_err s; sj_items := sj_items s; sj_done := sj_done s |}.
Definition sj_set_err s v := {| sj_kind := sj_kind s; sj_obs := sj_obs s; sj_serial := sj_serial s; sj_hook := sj_hook s; sj_last := sj_last s; sj_err := v; sj_items := sj_items s; sj_done := sj_done s |}.
Definition sj_set_items s v := {| sj_kind := sj_kind s; sj_obs := sj_obs s; sj_serial := sj_serial s; sj_hook := sj_hook s; sj_last := sj_last s; sj_err := sj_err s; sj_items := v; sj_done := sj_done s |}.
Definition sj_set_done s v := {| sj_kind := sj_kind s; sj_obs := sj_obs s; sj_serial := sj_serial s; sj_hook := sj_hook s; sj_last := sj_last s; sj_err := sj_err s; sj_items := sj_items s; sj_done := v |}.

(* Subscription (subscription.rs): fn_unsubscribe is call-and-clear; fn_is_subscribed is never cleared *)
Record subscription := { sb_obs : oid; sb_live : bool }.

(* connectables (operators/publish.rs, ref_count.rs, replay.rs) *)
Inductive ckind := CPublish | CRefCount | CReplay.
Record conn := { k_kind : ckind; k_src : pipe; k_subj : hid; k_slot : option sid }.

(* locks that the code holds ACROSS a call-out (DESIGN 1.1); the only ones that can self-deadlock *)
Inductive lockid :=
| LTd (o : oid)            (* Observer.fn_on_unsubscribe *)
| LUns (c : cid)           (* StreamController.unscribers *)
| LSt (n : nid)            (* operator state of node n *)
| LCell (x : xid)          (* sbsc cell *)
| LHookSub (h : hid) | LHookUnsub (h : hid)   (* Subject.on_subscribe / on_unsubscribe *)
| LSlot (k : kid)          (* RefCount/Replay.subscription: no longer held across a call-out (kept for numbering) *)
| LHist (h : hid).         (* Behavior/Replay history cells (taken together) *)
Inductive mode := MR | MW.
Definition lockid_eqb (a b : lockid) : bool :=
  match a, b with
  | LTd x, LTd y | LUns x, LUns y | LSt x, LSt y | LCell x, LCell y
  | LHookSub x, LHookSub y | LHookUnsub x, LHookUnsub y | LSlot x, LSlot y | LHist x, LHist y => Nat.eqb x y
  | _, _ => false
  end.

(* ------------------------------------------------------------------ actions of operator handlers *)
Inductive act :=
| SinkNext (v : val) | SinkError (e : err) | SinkComplete (ser : nat) | SinkCompleteForce
| UpAbort (ser : nat) | Finalize
| IfSub (yes no : list act)                 (* sctl.is_subscribed() *)
| AFlush (l : list val)                     (* for x in l { if !is_subscribed {break}; sink_next(x) } *)
| AWith (m : mode) (body : list act)        (* node state lock held across body *)
| ASetFlag (b : bool)                       (* state write that happens AFTER earlier actions of the list *)
| ASubscribe (p : pipe) (port : nat)        (* p.inner_subscribe(sctl.new_observer(handlers of port)) *)
| ASubjNew (k : skind)                      (* Subject::new() *)
| ASubjCall (h : hid) (e : ev)              (* window / group subject .next/.error/.complete *)
| ADeliver (o : oid) (e : ev)               (* tap observer *)
| AZipDrain.                                (* zip: while let Some(items) = get() { ... } *)

(* ------------------------------------------------------------------ driver scripts *)
Inductive reaction :=
| RUnsubSelf                       (* Subscription::unsubscribe on the subscriber's own handle (if it exists yet) *)
| RUnsub (k : nat)                 (* ... on another handle *)
| REmit (h : hid) (e : ev)         (* subject.next/error/complete from inside the callback *)
| RSub (k : nat) (p : pipe)        (* subscribe handle k from inside the callback *)
| RPush (s : nat) (e : ev).        (* the hand-driven source s emits e (re-entrantly, from inside the callback) *)

Inductive action :=
| DSub (k : nat) (p : pipe) (rs : list (nat * reaction))   (* subscribe handle k; reaction on the i-th callback *)
| DUnsub (k : nat)
| DEmit (h : hid) (e : ev)
| DConnect (k : kid) (x : nat)      (* publish(k).connect() -> connection handle x *)
| DDisconnect (x : nat)
| DPush (s : nat) (e : ev).         (* the hand-driven source s calls next/error/complete on every observer it was ever given *)

(* uid of a user subscriber: a driver handle or a dynamically created window/group recorder *)
Inductive uid := UTop (k : nat) | UChild (j : nat).
Definition uid_eqb (a b : uid) : bool :=
  match a, b with UTop x, UTop y | UChild x, UChild y => Nat.eqb x y | _, _ => false end.
Definition uenc (u : uid) : nat := match u with UTop k => 2 * k | UChild j => 2 * j + 1 end.
Definition udec (n : nat) : uid := if Nat.even n then UTop (Nat.div2 n) else UChild (Nat.div2 n).

(* ------------------------------------------------------------------ requests *)
(* where MkSub stores the new Subscription *)
Inductive dest := DNone | DHandle (k : nat) | DCell (x : xid) | DSlot (k : kid) | DConn (x : nat).

Inductive req :=
| Deliver (o : oid) (e : ev)              (* Observer::next / error / complete *)
| Unsub (o : oid)                         (* Observer::unsubscribe *)
| RunTd (o : oid)                         (* ... the call of the teardown, slot lock held *)
| ClearTd (o : oid)                       (* ... *fn_on_unsubscribe = None *)
| Act (n : nid) (a : act)
| Fin (c : cid)                           (* StreamController::finalize, first half: upstream unsubscribes *)
| FinSub (c : cid)                        (* second half: clear, subscriber.unsubscribe *)
| UnsubEntry (c : cid) (ser : nat)        (* upstream_abort_observe body: remove + unsubscribe, map lock held *)
| Src (s att : nat) (o : oid) (script : list ev) (idx : nat)    (* scripted cold source loop *)
| FromIter (o : oid) (l : list val)
| Range (o : oid) (a : Z) (n : nat)
| Repeat (o : oid) (v : val)
| StartWith (o : oid) (l : list val) (src : pipe)
| SubscribePipe (p : pipe) (o : oid)      (* Observable::inner_subscribe *)
| SubjCall (h : hid) (e : ev)             (* <kind>Subject::next/error/complete *)
| Broadcast (h : hid) (e : ev)            (* inner Subject::next/error/complete *)
| SubjJoin (h : hid) (o : oid)            (* inner Subject::observable() source closure *)
| Replay (h : hid) (o : oid)              (* ReplaySubject: the replay closure of ready_set_go *)
| SetTdCell (o : oid) (x : xid)           (* s.set_on_unsubscribe(cell closure) *)
| HookSub (h : hid) (len : nat)           (* on_subscribe(len), slot lock held *)
| HookUnsub (h : hid) (len : nat)
| Connect (k : kid)                       (* ref_count/replay on_subscribe(1): record the connection, then subscribe the source *)
| SlotUnsub (k : kid)                     (* on_unsubscribe(0): take the connection out of the slot and unsubscribe it *)
| BehaviorJoin (h : hid) (o : oid)        (* BehaviorSubject::observable after the hand-over: join unless the subscriber left *)
| ReplayDone (h : hid) (o' : oid)         (* ReplaySubject::observable: `ready = true` unless a stored terminal was replayed *)
| CellCheck (o : oid) (x : xid)           (* ... if !s.is_subscribed() { cell.unsubscribe() } *)
| MkSub (o : oid) (d : dest)              (* Subscription::new, stored where d says *)
| SubUnsub (s : sid)                      (* Subscription::unsubscribe *)
| CellUnsub (x : xid)                     (* if let Some(sbsc) = cell { sbsc.unsubscribe() } *)
| AcqL (l : lockid) (m : mode)
| RelL (l : lockid) (m : mode)
| React (k : nat) (i : nat)               (* reactions of handle k for its i-th callback *)
| DoSub (k : nat) (p : pipe) (rs : list (nat * reaction))
| Snap                                    (* harness: record is_subscribed / observer counts *)
| Drv (a : action).

