(* Executable oracles: the boolean form of each property's statement, applied by ./vp to every
   observation of the IMPLEMENTATION (and of the model).  Definitions only. *)
From Coq Require Import List ZArith Bool Arith.
From RX Require Import Val Syntax World Step.
Import ListNotations.

(* What the harness records for one scenario, on either side. *)
Record observation := {
  ob_out : nat;                                   (* 0 = ok, 1 = hang (deadlock or spin), 2 = panic *)
  ob_log : list (nat * nat * ev);                 (* (encoded uid, driver action index, event) *)
  ob_tap : list (nat * ev);
  ob_probes : list (nat * nat * nat * bool);
  ob_snaps : list (nat * list bool * list nat) }.

Definition obs_of_run (r : list req * world) : observation :=
  let '(stk, w) := r in
  {| ob_out := match out w with SelfDeadlock _ => 1 | Running => match stk with [] => 0 | _ => 1 end end;
     ob_log := log w; ob_tap := taplog w; ob_probes := probes w; ob_snaps := snaps w |}.

(* the events one subscriber saw, in order *)
Definition ulog (u : nat) (l : list (nat * nat * ev)) : list ev :=
  map snd (filter (fun p => Nat.eqb (fst (fst p)) u) l).
Definition users (l : list (nat * nat * ev)) : list nat := nodup Nat.eq_dec (map (fun p => fst (fst p)) l).

(* C01: zero or more items, then at most one terminal, then nothing *)
Fixpoint contract_ok (l : list ev) : bool :=
  match l with
  | [] => true
  | e :: r => if is_term e then match r with [] => true | _ => false end else contract_ok r
  end.
Definition has_term (l : list ev) : bool := existsb is_term l.

Definition c01_oracle (o : observation) : bool :=
  forallb (fun u => contract_ok (ulog u (ob_log o))) (users (ob_log o)).
