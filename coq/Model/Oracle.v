(* Executable oracles: the boolean form of each property's statement, applied by ./vp to every
   observation of the IMPLEMENTATION (and of the model).  Definitions only. *)
From Coq Require Import List ZArith Bool Arith.
From RX Require Import Val Syntax World Step.
Import ListNotations.

(* What the harness records for one scenario, on either side. *)
Record observation := {
  ob_out : nat;                                   (* 0 = ok, 1 = hang (deadlock or spin), 2 = panic *)
  ob_log : list (nat * nat * ev);                 (* (encoded uid, driver action index, event) *)
  ob_tap : list (nat * ev);
  ob_probes : list (nat * nat * nat * bool * nat * nat);
  ob_snaps : list (nat * list bool * list nat) }.

Definition obs_of_run (r : list req * world) : observation :=
  let '(stk, w) := r in
  {| ob_out := match out w with SelfDeadlock _ => 1 | Running => match stk with [] => 0 | _ => 1 end end;
     ob_log := log w; ob_tap := taplog w; ob_probes := probes w; ob_snaps := snaps w |}.

(* the events one subscriber saw, in order *)
Definition ulog (u : nat) (l : list (nat * nat * ev)) : list ev :=
  map snd (filter (fun p => Nat.eqb (fst (fst p)) u) l).
Definition users (l : list (nat * nat * ev)) : list nat := nodup Nat.eq_dec (map (fun p => fst (fst p)) l).

(* C01: zero or more items, then at most one terminal, then nothing *)
Fixpoint contract_ok (l : list ev) : bool :=
  match l with
  | [] => true
  | e :: r => if is_term e then match r with [] => true | _ => false end else contract_ok r
  end.
Definition has_term (l : list ev) : bool := existsb is_term l.

Definition c01_oracle (o : observation) : bool :=
  forallb (fun u => contract_ok (ulog u (ob_log o))) (users (ob_log o)).

(* ------------------------------------------------------------------ C02 *)
From RX Require Import Spec.

(* equality of observed values: the identity of a window observable is not observable *)
Fixpoint val_sim (a b : val) {struct a} : bool :=
  match a, b with
  | VObs _, VObs _ => true
  | VList l1, VList l2 =>
      (fix go (l1 l2 : list val) {struct l1} : bool :=
         match l1, l2 with
         | [], [] => true
         | x :: r, y :: s => val_sim x y && go r s
         | _, _ => false
         end) l1 l2
  | VMatN x, VMatN y => val_sim x y
  | _, _ => val_eqb a b
  end.
Definition ev_sim (a b : ev) : bool :=
  match a, b with
  | Nx x, Nx y => val_sim x y
  | Er x, Er y => Nat.eqb x y
  | Co, Co => true
  | _, _ => false
  end.
Fixpoint evs_sim (a b : list ev) : bool :=
  match a, b with
  | [], [] => true
  | x :: r, y :: s => ev_sim x y && evs_sim r s
  | _, _ => false
  end.

Definition scripts_of (sc : scenario) : nat -> list (list ev) := fun s => fst (nth s (sc_scripts sc) ([], false)).

Definition is_windowing (op : opk) : bool := match op with OWindow _ | OGroupBy _ => true | _ => false end.
Fixpoint inner_windowing (p : pipe) : bool :=      (* a window/group_by below the outermost operator *)
  match p with
  | POp op src _ => (fix below (q : pipe) : bool :=
                       match q with
                       | POp o s _ => is_windowing o || below s
                       | PDefer s => below s
                       | _ => false
                       end) src
  | PDefer q => inner_windowing q
  | _ => false
  end.

(* Some true / Some false = the implementation's observation agrees / disagrees with the operator's
   definition; None = the scenario is outside what C02's oracle speaks about *)
Definition c02_oracle (sc : scenario) (o : observation) : option bool :=
  match sc_script sc with
  | [DSub 0 p []] =>
      if inner_windowing p then None else
      match spec_pipe (scripts_of sc) p with
      | Some exp =>
          if has_repeat p && negb (match snd exp with Completes => true | _ => false end) then None
          else
            let kids := spec_pipe_children (scripts_of sc) p in
            Some (Nat.eqb (ob_out o) 0 &&
                  evs_sim (ulog (uenc (UTop 0)) (ob_log o)) (events exp) &&
                  forallb (fun ik : nat * sout => evs_sim (ulog (uenc (UChild (fst ik))) (ob_log o)) (events (snd ik)))
                          (combine (seq 0 (length kids)) kids) &&
                  forallb (fun u => match udec u with
                                    | UTop k => Nat.eqb k 0
                                    | UChild j => Nat.ltb j (length kids)
                                    end) (users (ob_log o)))
      | None => None
      end
  | _ => None
  end.

(* ------------------------------------------------------------------ three-way tie: impl = Seq = Loc.chain *)
From RX Require Import Loc.

Fixpoint chain_of (p : pipe) : option (pipe * list opk) :=       (* (source, operators from the source outwards) *)
  match p with
  | POp op src [] => match chain_of src with Some (s, ops) => Some (s, ops ++ [op]) | None => None end
  | POp _ _ _ => None
  | PHot _ | PInner _ | PConn _ => None
  | _ => Some (p, [])
  end.

Definition loc_supported (op : opk) : bool := loc_node_op op || loc_derived_op op.

Definition source_events (sc : scenario) (p : pipe) : option (list ev) :=
  match p with
  | PCold s => match scripts_of sc s with l :: _ => Some l | [] => Some [] end
  | _ => match spec_pipe (scripts_of sc) p with Some i => Some (events i) | None => None end
  end.

(* the subscriber's log equals what the composition of the operators' LOCAL semantics gives *)
Definition c02_loc_oracle (sc : scenario) (o : observation) : option bool :=
  match sc_script sc with
  | [DSub 0 p []] =>
      match chain_of p with
      | Some (s, ops) =>
          if forallb loc_supported ops then
            match source_events sc s with
            | Some evs =>
                let out := loc_chain ops evs in
                if has_repeat p && negb (existsb is_term out) then None
                else Some (Nat.eqb (ob_out o) 0 && evs_sim (ulog (uenc (UTop 0)) (ob_log o)) out)
            | None => None
            end
          else None
      | None => None
      end
  | _ => None
  end.
