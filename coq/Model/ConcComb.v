(* C11: combinators whose inputs emit from different threads.  One step per lock-protected critical section or
   subscriber callback; every input is one thread running its script (items, then complete; no input fails).
   Four transition systems over the shared state of
     merge / flat_map (StreamController.unscribers: the live-input set)    src/internals/stream_controller.rs, merge.rs, flat_map.rs
     zip   (one queue per input under one write lock; tuple formed under the lock, delivered outside)   zip.rs
     amb   (winner decided under one write lock; emission outside)           amb.rs
     take  (slot decided under one write lock; emission and completion outside)  take.rs
   Definitions only. *)
From Coq Require Import List Bool Arith.
Import ListNotations.

(* ================================================================== merge / flat_map *)
Inductive mst := MNotYet | MRunning | MLast | MDone.
Record minput := { mi_script : list nat; mi_k : nat; mi_st : mst }.
Inductive mgev := MI (i v : nat) | MC.
Record mgcfg := { m_reg : list nat;            (* the live-input set (serials in `unscribers`) *)
                 m_open : bool;               (* the subscriber has not been completed *)
                 m_log : list mgev;
                 m_in : nat -> minput }.
Inductive mgact :=
| MItem (i : nat)            (* sink_next of input i's next item *)
| MEnd (i : nat)             (* sink_complete: remove i from the live set and test emptiness, one write-locked step *)
| MFin (i : nat)             (* the input that saw the set empty completes the subscriber *)
| MReg (i j : nat).          (* flat_map: inside input i's next callback a new input j is registered (new_observer) *)

Definition mgupd (f : nat -> minput) (i : nat) (x : minput) : nat -> minput := fun q => if Nat.eqb q i then x else f q.
Definition remove_nat (i : nat) (l : list nat) : list nat := filter (fun x => negb (Nat.eqb x i)) l.

Definition mgstep (c : mgcfg) (a : mgact) : mgcfg :=
  match a with
  | MItem i =>
      let x := m_in c i in
      match mi_st x with
      | MRunning => if Nat.ltb (mi_k x) (length (mi_script x))
                    then {| m_reg := m_reg c; m_open := m_open c;
                            m_log := if m_open c then m_log c ++ [MI i (nth (mi_k x) (mi_script x) 0)] else m_log c;
                            m_in := mgupd (m_in c) i {| mi_script := mi_script x; mi_k := S (mi_k x); mi_st := MRunning |} |}
                    else c
      | _ => c
      end
  | MEnd i =>
      let x := m_in c i in
      match mi_st x with
      | MRunning => if Nat.ltb (mi_k x) (length (mi_script x)) then c
                    else let r := remove_nat i (m_reg c) in
                         {| m_reg := r; m_open := m_open c; m_log := m_log c;
                            m_in := mgupd (m_in c) i {| mi_script := mi_script x; mi_k := mi_k x;
                                                       mi_st := match r with [] => MLast | _ => MDone end |} |}
      | _ => c
      end
  | MFin i =>
      let x := m_in c i in
      match mi_st x with
      | MLast => {| m_reg := m_reg c; m_open := false;
                    m_log := if m_open c then m_log c ++ [MC] else m_log c;
                    m_in := mgupd (m_in c) i {| mi_script := mi_script x; mi_k := mi_k x; mi_st := MDone |} |}
      | _ => c
      end
  | MReg i j =>
      match mi_st (m_in c i), mi_st (m_in c j) with
      | MRunning, MNotYet =>
          {| m_reg := m_reg c ++ [j]; m_open := m_open c; m_log := m_log c;
             m_in := mgupd (m_in c) j {| mi_script := mi_script (m_in c j); mi_k := mi_k (m_in c j); mi_st := MRunning |} |}
      | _, _ => c
      end
  end.
Definition mgrun (acts : list mgact) (c : mgcfg) : mgcfg := fold_left mgstep acts c.
(* inputs 0..n-1 are registered before any of them is subscribed (merge); later ones wait for MReg (flat_map) *)
Definition mginit (n : nat) (scripts : nat -> list nat) : mgcfg :=
  {| m_reg := seq 0 n; m_open := true; m_log := [];
     m_in := fun i => {| mi_script := scripts i; mi_k := 0; mi_st := if Nat.ltb i n then MRunning else MNotYet |} |}.

Definition mitems (i : nat) (l : list mgev) : list nat :=
  flat_map (fun e => match e with MI j v => if Nat.eqb j i then [v] else [] | MC => [] end) l.
Definition mcompletes (l : list mgev) : nat := length (filter (fun e => match e with MC => true | _ => false end) l).

(* ================================================================== zip *)
(* register(): push under the write lock; then loop { get(): under the write lock, if every queue is non-empty pop all
   fronts into a tuple; deliver it OUTSIDE the lock }.  z_p counts the tuples formed so far (history variable): the
   tuple formed when z_p = m carries index m.  Two threads can each hold a formed tuple, so tuples may be DELIVERED
   out of index order (observed on the crate, see DESIGN.md); they are formed in order, each delivered once. *)
Inductive zpc := ZIdle | ZLoop | ZHold (m : nat) (t : list nat).
Record zcfg := { z_n : nat;                              (* number of inputs *)
                 z_q : nat -> list nat;                  (* the queues *)
                 z_k : nat -> nat;                       (* items of each script pushed so far *)
                 z_p : nat;                              (* tuples formed so far *)
                 z_pc : nat -> zpc;
                 z_script : nat -> list nat;
                 z_log : list (nat * list nat) }.        (* delivered: (index, tuple) *)
Inductive zact := ZPush (i : nat) | ZGet (i : nat) | ZDeliver (i : nat).
Definition fupd {A} (f : nat -> A) (i : nat) (x : A) : nat -> A := fun q => if Nat.eqb q i then x else f q.

Definition all_filled (n : nat) (q : nat -> list nat) : bool := forallb (fun i => negb (Nat.eqb (length (q i)) 0)) (seq 0 n).
Definition fronts (n : nat) (q : nat -> list nat) : list nat := map (fun i => hd 0 (q i)) (seq 0 n).
Definition pops (n : nat) (q : nat -> list nat) : nat -> list nat := fun i => if Nat.ltb i n then tl (q i) else q i.

Definition zstep (c : zcfg) (a : zact) : zcfg :=
  match a with
  | ZPush i =>
      match z_pc c i with
      | ZIdle => if Nat.ltb i (z_n c) && Nat.ltb (z_k c i) (length (z_script c i))
                 then {| z_n := z_n c; z_q := fupd (z_q c) i (z_q c i ++ [nth (z_k c i) (z_script c i) 0]);
                         z_k := fupd (z_k c) i (S (z_k c i)); z_p := z_p c; z_pc := fupd (z_pc c) i ZLoop; z_script := z_script c; z_log := z_log c |}
                 else c
      | _ => c
      end
  | ZGet i =>
      match z_pc c i with
      | ZLoop => if all_filled (z_n c) (z_q c)
                 then {| z_n := z_n c; z_q := pops (z_n c) (z_q c); z_k := z_k c; z_p := S (z_p c);
                         z_pc := fupd (z_pc c) i (ZHold (z_p c) (fronts (z_n c) (z_q c))); z_script := z_script c; z_log := z_log c |}
                 else {| z_n := z_n c; z_q := z_q c; z_k := z_k c; z_p := z_p c; z_pc := fupd (z_pc c) i ZIdle; z_script := z_script c; z_log := z_log c |}
      | _ => c
      end
  | ZDeliver i =>
      match z_pc c i with
      | ZHold m t => {| z_n := z_n c; z_q := z_q c; z_k := z_k c; z_p := z_p c; z_pc := fupd (z_pc c) i ZLoop; z_script := z_script c;
                        z_log := z_log c ++ [(m, t)] |}
      | _ => c
      end
  end.
Definition zrun (acts : list zact) (c : zcfg) : zcfg := fold_left zstep acts c.
Definition zinit (n : nat) (scripts : nat -> list nat) : zcfg :=
  {| z_n := n; z_q := fun _ => []; z_k := fun _ => 0; z_p := 0; z_pc := fun _ => ZIdle; z_script := scripts; z_log := [] |}.
(* the m-th tuple of the definition *)
Definition row (n : nat) (scripts : nat -> list nat) (m : nat) : list nat := map (fun i => nth m (scripts i) 0) (seq 0 n).

(* ================================================================== amb *)
Inductive apc := AIdle | AEmit | ALost.
Record acfg := { a_win : option nat; a_k : nat -> nat; a_pc : nat -> apc; a_script : nat -> list nat; a_log : list (nat * nat) }.
Inductive aact := ACheck (i : nat) | ASend (i : nat).
Definition astep (c : acfg) (a : aact) : acfg :=
  match a with
  | ACheck i =>
      match a_pc c i with
      | AIdle => if Nat.ltb (a_k c i) (length (a_script c i))
                 then match a_win c with
                      | None => {| a_win := Some i; a_k := a_k c; a_pc := fupd (a_pc c) i AEmit; a_script := a_script c; a_log := a_log c |}
                      | Some w => {| a_win := a_win c; a_k := a_k c; a_pc := fupd (a_pc c) i (if Nat.eqb w i then AEmit else ALost);
                                     a_script := a_script c; a_log := a_log c |}
                      end
                 else c
      | _ => c
      end
  | ASend i =>
      match a_pc c i with
      | AEmit => {| a_win := a_win c; a_k := fupd (a_k c) i (S (a_k c i)); a_pc := fupd (a_pc c) i AIdle; a_script := a_script c;
                    a_log := a_log c ++ [(i, nth (a_k c i) (a_script c i) 0)] |}
      | _ => c
      end
  end.
Definition arun (acts : list aact) (c : acfg) : acfg := fold_left astep acts c.
Definition ainit (scripts : nat -> list nat) : acfg :=
  {| a_win := None; a_k := fun _ => 0; a_pc := fun _ => AIdle; a_script := scripts; a_log := [] |}.

(* ================================================================== take *)
(* take(count): the slot number nn of an item is decided under one write lock (nn := n; n := n + 1); the item is
   forwarded outside the lock iff nn < count, and the thread then completes the subscriber iff count <= nn + 1.
   Any number of upstream threads call take's next concurrently (e.g. the threads of a merge). *)
Inductive kpc := KIdle | KGo (nn : nat) | KEnd.
Inductive kev := KItem (nn v : nat) | KDone.
Record kcfg := { k_count : nat; k_n : nat; k_open : bool; k_pc : nat -> kpc; k_log : list kev }.
Inductive kact := KSlot (i : nat) | KSend (i v : nat) | KComplete (i : nat).
Definition kstep (c : kcfg) (a : kact) : kcfg :=
  match a with
  | KSlot i =>
      match k_pc c i with
      | KIdle => {| k_count := k_count c; k_n := S (k_n c); k_open := k_open c; k_pc := fupd (k_pc c) i (KGo (k_n c)); k_log := k_log c |}
      | _ => c
      end
  | KSend i v =>
      match k_pc c i with
      | KGo nn => {| k_count := k_count c; k_n := k_n c; k_open := k_open c;
                     k_pc := fupd (k_pc c) i (if Nat.leb (k_count c) (S nn) then KEnd else KIdle);
                     k_log := if Nat.ltb nn (k_count c) && k_open c then k_log c ++ [KItem nn v] else k_log c |}
      | _ => c
      end
  | KComplete i =>
      match k_pc c i with
      | KEnd => {| k_count := k_count c; k_n := k_n c; k_open := false; k_pc := fupd (k_pc c) i KIdle;
                   k_log := if k_open c then k_log c ++ [KDone] else k_log c |}
      | _ => c
      end
  end.
Definition krun (acts : list kact) (c : kcfg) : kcfg := fold_left kstep acts c.
Definition kinit (count : nat) : kcfg := {| k_count := count; k_n := 0; k_open := true; k_pc := fun _ => KIdle; k_log := [] |}.
Definition kslots (l : list kev) : list nat := flat_map (fun e => match e with KItem nn _ => [nn] | KDone => [] end) l.
Definition kdones (l : list kev) : nat := length (filter (fun e => match e with KDone => true | _ => false end) l).
