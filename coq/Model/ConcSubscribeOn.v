(* C09: subscribe_on(new-thread scheduler) (src/operators/subscribe_on.rs): subscribing posts ONE task to the scheduler;
   the task subscribes the source, and a synchronous source emits its whole script inside that task, on the worker
   thread, straight into the subscriber; finalize (after a terminal, or on unsubscribe) aborts the scheduler.
     BWorker w   a worker step of the queue (QCheck / QWake)
     BEmit       inside the running task the source emits its next event: delivered iff the subscriber is open; a
                 delivered terminal closes it and finalizes (QStop); an event sunk into a closed subscriber finalizes too
     BReturn     the source has emitted everything: the task returns (QDone)
     BUnsub      another thread unsubscribes: closes the subscriber and finalizes (QStop) - at most once
   Events are numbered 0..n-1; b_term says that the last one is the terminal.  Definitions only. *)
From Coq Require Import List Bool Arith.
From RX Require Import ConcQueue.
Import ListNotations.

Record bcfg := { b_n : nat; b_term : bool; b_q : qst; b_k : nat; b_open : bool; b_unsub : bool; b_log : list nat }.
Inductive bact := BWorker (w : qop) | BEmit | BReturn | BUnsub.

Definition b_is_term (c : bcfg) (t : nat) : bool := b_term c && Nat.eqb (S t) (b_n c).

Definition bstep (c : bcfg) (a : bact) : bcfg :=
  match a with
  | BWorker QCheck => {| b_n := b_n c; b_term := b_term c; b_q := qstep (b_q c) QCheck; b_k := b_k c; b_open := b_open c; b_unsub := b_unsub c; b_log := b_log c |}
  | BWorker QWake => {| b_n := b_n c; b_term := b_term c; b_q := qstep (b_q c) QWake; b_k := b_k c; b_open := b_open c; b_unsub := b_unsub c; b_log := b_log c |}
  | BWorker _ => c
  | BEmit =>
      match q_worker (b_q c) with
      | WRunning _ =>
          if Nat.ltb (b_k c) (b_n c) then
            let closes := negb (b_open c) || b_is_term c (b_k c) in
            {| b_n := b_n c; b_term := b_term c; b_q := if closes then qstep (b_q c) QStop else b_q c; b_k := S (b_k c);
               b_open := if b_open c then negb (b_is_term c (b_k c)) else false; b_unsub := b_unsub c;
               b_log := if b_open c then b_log c ++ [b_k c] else b_log c |}
          else c
      | _ => c
      end
  | BReturn =>
      match q_worker (b_q c) with
      | WRunning _ => if Nat.ltb (b_k c) (b_n c) then c else
                      {| b_n := b_n c; b_term := b_term c; b_q := qstep (b_q c) QDone; b_k := b_k c; b_open := b_open c; b_unsub := b_unsub c; b_log := b_log c |}
      | _ => c
      end
  | BUnsub => if b_unsub c then c else
              {| b_n := b_n c; b_term := b_term c; b_q := qstep (b_q c) QStop; b_k := b_k c; b_open := false; b_unsub := true; b_log := b_log c |}
  end.
Definition brun (acts : list bact) (c : bcfg) : bcfg := fold_left bstep acts c.
(* subscribe() has posted the subscription task *)
Definition binit (n : nat) (term : bool) : bcfg :=
  {| b_n := n; b_term := term; b_q := qstep q0 (QPost 0); b_k := 0; b_open := true; b_unsub := false; b_log := [] |}.
