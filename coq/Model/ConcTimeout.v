(* C16: timeout(d) and delay(d) on a virtual clock that only sleeps advance (src/operators/timeout.rs, delay.rs).
   The source is one thread following a script: (gap, value, busy) - sleep `gap`, call next(value); the consumer takes
   `busy` inside its callback - and finally an optional (gap, terminal).
   timeout: at an item's arrival the pending deadline is cancelled, the item is sunk (the consumer runs), and - if the
   subscription is still alive - a new deadline is armed d after the sink returned; a terminal (or the end of the
   subscription) cancels the deadline; a deadline that expires while armed delivers TimedOut and ends everything.
   Which of "the source's next call" and "the armed deadline" happens first is decided by their times (they are never
   equal: `well_timed`).  Definitions only. *)
From Coq Require Import List Bool Arith.
Import ListNotations.

Inductive xev := XItem (v : nat) | XTimeout | XDone (err : bool).
Record xitem := { x_gap : nat; x_val : nat; x_busy : nat }.

(* ---- the machine: one event at a time, in time order *)
Record xcfg := { x_clock : nat;                 (* time at which the source's previous call returned *)
                 x_rest : list xitem; x_end : option (nat * bool);
                 x_armed : option nat; x_open : bool; x_src_done : bool;
                 x_log : list (nat * xev) }.

Definition xstep (d : nat) (c : xcfg) : xcfg :=
  let fire dl := {| x_clock := x_clock c; x_rest := x_rest c; x_end := x_end c; x_armed := None; x_open := false; x_src_done := x_src_done c;
                    x_log := if x_open c then x_log c ++ [(dl, XTimeout)] else x_log c |} in
  let item i r :=
    let t := x_clock c + x_gap i in
    {| x_clock := t + x_busy i; x_rest := r; x_end := x_end c;
       x_armed := if x_open c then Some (t + x_busy i + d) else None;       (* cancel, sink, re-arm if still subscribed *)
       x_open := x_open c; x_src_done := false;
       x_log := if x_open c then x_log c ++ [(t, XItem (x_val i))] else x_log c |} in
  let finish g e :=
    {| x_clock := x_clock c + g; x_rest := []; x_end := None; x_armed := None; x_open := false; x_src_done := true;
       x_log := if x_open c then x_log c ++ [(x_clock c + g, XDone e)] else x_log c |} in
  match x_rest c, x_end c, x_armed c with
  | i :: r, _, Some dl => if Nat.ltb dl (x_clock c + x_gap i) then fire dl else item i r
  | i :: r, _, None => item i r
  | [], Some (g, e), Some dl => if Nat.ltb dl (x_clock c + g) then fire dl else finish g e
  | [], Some (g, e), None => finish g e
  | [], None, Some dl => fire dl
  | [], None, None => c
  end.
Fixpoint xrun (d : nat) (fuel : nat) (c : xcfg) : xcfg := match fuel with 0 => c | S f => xrun d f (xstep d c) end.
Definition xinit (script : list xitem) (en : option (nat * bool)) : xcfg :=
  {| x_clock := 0; x_rest := script; x_end := en; x_armed := None; x_open := true; x_src_done := false; x_log := [] |}.

(* ---- the definition: items pass through; TimedOut d after the first item that is followed by a longer silence *)
Fixpoint spec_timeout (d : nat) (ret : nat) (armed : bool) (script : list xitem) (en : option (nat * bool)) : list (nat * xev) :=
  match script with
  | i :: r => if armed && Nat.ltb d (x_gap i) then [(ret + d, XTimeout)]
              else (ret + x_gap i, XItem (x_val i)) :: spec_timeout d (ret + x_gap i + x_busy i) true r en
  | [] => match en with
          | Some (g, e) => if armed && Nat.ltb d g then [(ret + d, XTimeout)] else [(ret + g, XDone e)]
          | None => if armed then [(ret + d, XTimeout)] else []
          end
  end.
(* no gap equals the period (two events are never due at the same instant) *)
Definition well_timed (d : nat) (script : list xitem) (en : option (nat * bool)) : Prop :=
  Forall (fun i => x_gap i <> d) script /\ match en with Some (g, _) => g <> d | None => True end.

(* ---- delay(d): the source's thread sleeps d inside next() before the item is handed on *)
Fixpoint spec_delay (d : nat) (ret : nat) (script : list xitem) : list (nat * nat * nat) :=     (* (time next() began, time delivered, value) *)
  match script with
  | i :: r => (ret + x_gap i, ret + x_gap i + d, x_val i) :: spec_delay d (ret + x_gap i + d + x_busy i) r
  | [] => []
  end.
