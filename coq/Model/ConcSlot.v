(* sample / debounce: a one-place slot between the source thread(s) and ONE consuming thread (sample: the trigger's
   thread; debounce: its worker).  One transition per critical section:
     Put      - the source's next handler stores its item in the slot (overwriting what was there); the source
                emits its items in order, so the item is identified by its position in the source's script
     Take     - the consumer takes the slot under the write lock (slot := None) and goes on to deliver what it took
     Deliver  - ... the delivery (sink_next) of the item taken, outside the lock
   `fold_left sstep acts` over an ARBITRARY list of actions stands for every interleaving of the source with the consumer.
   Definitions only. *)
From Coq Require Import List Arith Bool.
Import ListNotations.

Inductive lact := LPut | LTake | LDeliver.

Record lslot := {
  l_next : nat;             (* position of the source's next item (= number of items emitted so far) *)
  l_slot : option nat;      (* the pending item *)
  l_hand : option nat;      (* the item the consumer has taken and not yet delivered *)
  l_out : list nat }.       (* positions delivered to the subscriber, oldest first *)

Definition linit : lslot := {| l_next := 0; l_slot := None; l_hand := None; l_out := [] |}.

Definition lstep (s : lslot) (a : lact) : lslot :=
  match a with
  | LPut => {| l_next := S (l_next s); l_slot := Some (l_next s); l_hand := l_hand s; l_out := l_out s |}
  | LTake =>
      match l_hand s with
      | Some _ => s                                   (* the one consumer is still busy delivering *)
      | None => {| l_next := l_next s; l_slot := None; l_hand := l_slot s; l_out := l_out s |}
      end
  | LDeliver =>
      match l_hand s with
      | Some i => {| l_next := l_next s; l_slot := l_slot s; l_hand := None; l_out := l_out s ++ [i] |}
      | None => s
      end
  end.

Definition lrun (acts : list lact) : lslot := fold_left lstep acts linit.

(* what the property says: only items the source emitted, in source order, none twice *)
Fixpoint strictly_increasing (l : list nat) : bool :=
  match l with
  | [] => true
  | x :: r => match r with [] => true | y :: _ => Nat.ltb x y && strictly_increasing r end
  end.
