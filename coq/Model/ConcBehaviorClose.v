(* C12 / C10: BehaviorSubject::complete / error racing a subscriber (src/subjects/behavior_subject.rs), seen from ONE newcomer o.
   The subscriber holds the read guards on the stored value / stored error from its check of the stored terminal until it has
   registered with the live subject (bh_atomic = true: ONE section, which excludes the closer's store); with the guard on the stored
   error released right after the check (bh_atomic = false) the closer can store and drain in between.
     closer     :  BhFlag   store the terminal (W stored error / value)      BhDrain  take the live observers out (one section)
                   BhNotify hand the terminal to those taken
     subscriber :  BhCheck  stored terminal present -> deliver it, done; otherwise (atomic code) register at once
                   BhJoin   (non-atomic code only) register with the live subject
   Any interleaving.  Definitions only. *)
From Coq Require Import List Bool Arith.
Import ListNotations.

Record bhcfg := {
  bh_atomic : bool; bh_flag : bool; bh_snap : option bool; bh_notified : bool;
  bh_checked : bool; bh_joined : bool; bh_got_stored : bool; bh_got_live : bool }.

Inductive bhact := BhFlag | BhDrain | BhNotify | BhCheck | BhJoin.

Definition bhstep (c : bhcfg) (a : bhact) : bhcfg :=
  match a with
  | BhFlag => {| bh_atomic := bh_atomic c; bh_flag := true; bh_snap := bh_snap c; bh_notified := bh_notified c; bh_checked := bh_checked c;
                 bh_joined := bh_joined c; bh_got_stored := bh_got_stored c; bh_got_live := bh_got_live c |}
  | BhDrain => if bh_flag c then
                 match bh_snap c with
                 | Some _ => c
                 | None => {| bh_atomic := bh_atomic c; bh_flag := bh_flag c; bh_snap := Some (bh_joined c); bh_notified := bh_notified c;
                              bh_checked := bh_checked c; bh_joined := bh_joined c; bh_got_stored := bh_got_stored c; bh_got_live := bh_got_live c |}
                 end
               else c
  | BhNotify => match bh_snap c with
                | Some b => if bh_notified c then c else
                            {| bh_atomic := bh_atomic c; bh_flag := bh_flag c; bh_snap := bh_snap c; bh_notified := true; bh_checked := bh_checked c;
                               bh_joined := bh_joined c; bh_got_stored := bh_got_stored c; bh_got_live := bh_got_live c || b |}
                | None => c
                end
  | BhCheck => if bh_checked c then c else
               {| bh_atomic := bh_atomic c; bh_flag := bh_flag c; bh_snap := bh_snap c; bh_notified := bh_notified c; bh_checked := true;
                  bh_joined := if bh_flag c then false else bh_atomic c; bh_got_stored := bh_flag c; bh_got_live := bh_got_live c |}
  | BhJoin => if bh_checked c && negb (bh_got_stored c) && negb (bh_atomic c) then
                {| bh_atomic := bh_atomic c; bh_flag := bh_flag c; bh_snap := bh_snap c; bh_notified := bh_notified c; bh_checked := bh_checked c;
                   bh_joined := true; bh_got_stored := bh_got_stored c; bh_got_live := bh_got_live c |}
              else c
  end.

Definition bhrun (acts : list bhact) (c : bhcfg) : bhcfg := fold_left bhstep acts c.
Definition bhinit (atomic : bool) : bhcfg :=
  {| bh_atomic := atomic; bh_flag := false; bh_snap := None; bh_notified := false; bh_checked := false; bh_joined := false;
     bh_got_stored := false; bh_got_live := false |}.
