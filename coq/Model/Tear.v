(* C06 at node level: the teardown bookkeeping of ONE StreamController as its operator's handlers run.
   Abstract state: the `unscribers` map as (serial, (registered?, upstream observer still subscribed?)),
   the serial counter, whether the downstream subscriber is still subscribed, and an arbitrary stream of
   choices "the downstream leaves (unsubscribes, hence finalizes this controller) during this delivery".
   `tact` interprets the actions of Step.handler exactly as Step.step (case Act) does, projected to this
   bookkeeping:
     sink_next x         : subscriber alive ? deliver (it may leave) : finalize
     sink_error e        : deliver if alive ; finalize
     sink_complete ser   : alive ? (forget entry ser WITHOUT unsubscribing it ; map empty ? complete, finalize) : finalize
     sink_complete_force : complete if alive ; finalize
     upstream_abort ser  : entry ser registered ? remove it and unsubscribe its observer
     finalize            : unsubscribe every registered upstream observer, clear the map, unsubscribe the subscriber
     new_observer        : alive ? fresh serial, registered, subscribed : an observer that is already unsubscribed
   Definitions only. *)
From Coq Require Import List ZArith Bool Arith.
From RX Require Import Val Syntax Step.
Import ListNotations.

Record tn := { tn_es : list (nat * (bool * bool)); tn_next : nat; tn_alive : bool; tn_lv : list bool }.

Definition tn_set_es s es := {| tn_es := es; tn_next := tn_next s; tn_alive := tn_alive s; tn_lv := tn_lv s |}.

Definition finalize (s : tn) : tn :=
  {| tn_es := map (fun x : nat * (bool * bool) => let '(k, (r, u)) := x in (k, (false, if r then false else u))) (tn_es s);
     tn_next := tn_next s; tn_alive := false; tn_lv := tn_lv s |}.

Definition deliver_down (s : tn) : tn :=
  match tn_lv s with
  | b :: r => let s1 := {| tn_es := tn_es s; tn_next := tn_next s; tn_alive := tn_alive s; tn_lv := r |} in
              if b then finalize s1 else s1
  | [] => s
  end.

Definition unreg (k : nat) (es : list (nat * (bool * bool))) :=
  map (fun x : nat * (bool * bool) => let '(k', (r, u)) := x in if Nat.eqb k' k then (k', (false, u)) else x) es.
Definition abort (k : nat) (es : list (nat * (bool * bool))) :=
  map (fun x : nat * (bool * bool) => let '(k', (r, u)) := x in if Nat.eqb k' k && r then (k', (false, false)) else x) es.
Definition no_reg (es : list (nat * (bool * bool))) : bool := forallb (fun x : nat * (bool * bool) => negb (fst (snd x))) es.

Fixpoint tact (a : act) (s : tn) {struct a} : tn :=
  match a with
  | SinkNext _ => if tn_alive s then deliver_down s else finalize s
  | SinkError _ => finalize s
  | SinkComplete k =>
      if tn_alive s then
        let es' := unreg k (tn_es s) in
        if no_reg es' then finalize (tn_set_es s es') else tn_set_es s es'
      else finalize s
  | SinkCompleteForce => finalize s
  | UpAbort k => tn_set_es s (abort k (tn_es s))
  | Finalize => finalize s
  | IfSub yes no =>
      (fix go (l : list act) (s : tn) {struct l} : tn := match l with [] => s | a :: r => go r (tact a s) end)
        (if tn_alive s then yes else no) s
  | AFlush l => fold_left (fun acc _ => if tn_alive acc then deliver_down acc else acc) l s
  | AWith _ body =>
      (fix go (l : list act) (s : tn) {struct l} : tn := match l with [] => s | a :: r => go r (tact a s) end) body s
  | ASubscribe _ _ =>
      {| tn_es := tn_es s ++ [(tn_next s, (tn_alive s, tn_alive s))]; tn_next := S (tn_next s); tn_alive := tn_alive s; tn_lv := tn_lv s |}
  | AZipDrain => fold_left (fun acc _ => if tn_alive acc then deliver_down acc else acc) (tn_lv s) s     (* any number of sink_next, each guarded *)
  | ASetFlag _ | ASubjNew _ | ASubjCall _ _ | ADeliver _ _ => s
  end.

Fixpoint tacts (l : list act) (s : tn) : tn := match l with [] => s | a :: r => tacts r (tact a s) end.

(* ---- the static discipline: walking the actions of one handler invocation for upstream `ser`;
   `closed` = the observer of `ser` is known to be unsubscribed (a terminal from it is being handled, or
   upstream_abort(ser) ran earlier on this path).  sink_complete may only forget an entry that is closed. ---- *)
Fixpoint disc (ser : nat) (a : act) (closed : bool) {struct a} : bool * bool :=     (* (ok, closed afterwards) *)
  match a with
  | UpAbort k => (true, closed || Nat.eqb k ser)
  | SinkComplete k => (Nat.eqb k ser && closed, closed)
  | IfSub yes no =>
      let go := (fix go (l : list act) (c : bool) {struct l} : bool * bool :=
                   match l with [] => (true, c) | a :: r => let '(ok1, c1) := disc ser a c in let '(ok2, c2) := go r c1 in (ok1 && ok2, c2) end) in
      let '(oky, cy) := go yes closed in let '(okn, cn) := go no closed in (oky && okn, cy && cn)
  | AWith _ body =>
      (fix go (l : list act) (c : bool) {struct l} : bool * bool :=
         match l with [] => (true, c) | a :: r => let '(ok1, c1) := disc ser a c in let '(ok2, c2) := go r c1 in (ok1 && ok2, c2) end) body closed
  | _ => (true, closed)
  end.
Fixpoint discs (ser : nat) (l : list act) (closed : bool) : bool * bool :=
  match l with [] => (true, closed) | a :: r => let '(ok1, c1) := disc ser a closed in let '(ok2, c2) := discs ser r c1 in (ok1 && ok2, c2) end.

(* every handler of the catalogue, for every state, port, serial and event *)
Definition handler_disciplined (op : opk) (src : pipe) (others : list pipe) (st : ostate) (port ser : nat) (fresh : hid) (e : ev) : bool :=
  fst (discs ser (snd (handler op src others st port ser fresh e)) (is_term e)).
