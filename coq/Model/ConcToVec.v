(* C18: operators/to_vec.rs as a two-thread transition system (poller, source) at lock granularity.
     poll : W(waker) acquire ; read done ; done ? Ready(err or buffer) : (waker := Some ; Pending) ; release
     source callbacks: next x = push x ; error e = err := Some e ; done := true ; R(waker) acquire ; clone ; release ; wake
                                          complete =                 done := true ; R(waker) acquire ; clone ; release ; wake
   and a minimal executor: after Pending the poller parks until its token is set (wake sets it), then polls
   again; spurious re-polls are allowed at any time.  EVERY poll hands in a new waker (identified by the poll's
   number t_cur, as an executor that re-polls from a select/join would); the slot keeps the last one; the poller
   only reacts to the token of its latest waker.  The waker lock is the only blocking primitive: the
   source's read of the waker slot blocks while the poller holds it for writing (across the `done` test and
   the store) and vice versa.  The source's callbacks see a contract-conform sequence (C01): items, then at
   most one terminal.  Definitions only. *)
From Coq Require Import List Bool Arith.
Import ListNotations.

Inductive tending := TComplete | TError (e : nat) | TSilent.
Inductive ppc := PPStart | PPHoldW | PPParked | PPReady (err : option nat) (items : list nat).
Inductive spc := SItems (rest : list nat) | SErrSet | SDoneSet | SHoldR | SFin.
Inductive wl := LFree | LPoller | LSource.

Record tv := { t_buf : list nat; t_done : bool; t_err : option nat; t_waker : option nat; t_lock : wl; t_token : option nat; t_cur : nat;
               t_pp : ppc; t_sp : spc; t_end : tending; t_all : list nat (* the source's whole item script *) }.

Definition tv0 (items : list nat) (en : tending) : tv :=
  {| t_buf := []; t_done := false; t_err := None; t_waker := None; t_lock := LFree; t_token := None; t_cur := 0;
     t_pp := PPStart; t_sp := SItems items; t_end := en; t_all := items |}.

Inductive tact := APoll | ASource | ARepoll.     (* who moves: the poller's next atom, the source's next atom, a spurious re-poll *)

(* None = that thread is blocked or has nothing to do *)
Definition tstep (s : tv) (a : tact) : option tv :=
  match a with
  | APoll =>
      match t_pp s with
      | PPStart => match t_lock s with
                  | LFree => Some {| t_buf := t_buf s; t_done := t_done s; t_err := t_err s; t_waker := t_waker s; t_lock := LPoller; t_token := t_token s; t_cur := t_cur s;
                                     t_pp := PPHoldW; t_sp := t_sp s; t_end := t_end s; t_all := t_all s |}
                  | _ => None
                  end
      | PPHoldW =>
          if t_done s then
            Some {| t_buf := t_buf s; t_done := t_done s; t_err := t_err s; t_waker := t_waker s; t_lock := LFree; t_token := t_token s; t_cur := t_cur s;
                    t_pp := PPReady (t_err s) (t_buf s); t_sp := t_sp s; t_end := t_end s; t_all := t_all s |}
          else
            Some {| t_buf := t_buf s; t_done := t_done s; t_err := t_err s; t_waker := Some (t_cur s); t_lock := LFree; t_token := t_token s; t_cur := t_cur s;
                    t_pp := PPParked; t_sp := t_sp s; t_end := t_end s; t_all := t_all s |}
      | PPParked => if match t_token s with Some k => Nat.eqb k (t_cur s) | None => false end then
                     Some {| t_buf := t_buf s; t_done := t_done s; t_err := t_err s; t_waker := t_waker s; t_lock := t_lock s; t_token := None; t_cur := S (t_cur s);
                             t_pp := PPStart; t_sp := t_sp s; t_end := t_end s; t_all := t_all s |}
                   else None
      | PPReady _ _ => None
      end
  | ARepoll =>
      match t_pp s with
      | PPParked => Some {| t_buf := t_buf s; t_done := t_done s; t_err := t_err s; t_waker := t_waker s; t_lock := t_lock s; t_token := t_token s; t_cur := S (t_cur s);
                           t_pp := PPStart; t_sp := t_sp s; t_end := t_end s; t_all := t_all s |}
      | _ => None
      end
  | ASource =>
      match t_sp s with
      | SItems (x :: r) => Some {| t_buf := t_buf s ++ [x]; t_done := t_done s; t_err := t_err s; t_waker := t_waker s; t_lock := t_lock s; t_token := t_token s; t_cur := t_cur s;
                                   t_pp := t_pp s; t_sp := SItems r; t_end := t_end s; t_all := t_all s |}
      | SItems [] =>
          match t_end s with
          | TSilent => None
          | TError e => Some {| t_buf := t_buf s; t_done := t_done s; t_err := Some e; t_waker := t_waker s; t_lock := t_lock s; t_token := t_token s; t_cur := t_cur s;
                                t_pp := t_pp s; t_sp := SErrSet; t_end := t_end s; t_all := t_all s |}
          | TComplete => Some {| t_buf := t_buf s; t_done := true; t_err := t_err s; t_waker := t_waker s; t_lock := t_lock s; t_token := t_token s; t_cur := t_cur s;
                                 t_pp := t_pp s; t_sp := SDoneSet; t_end := t_end s; t_all := t_all s |}
          end
      | SErrSet => Some {| t_buf := t_buf s; t_done := true; t_err := t_err s; t_waker := t_waker s; t_lock := t_lock s; t_token := t_token s; t_cur := t_cur s;
                           t_pp := t_pp s; t_sp := SDoneSet; t_end := t_end s; t_all := t_all s |}
      | SDoneSet => match t_lock s with
                    | LFree => Some {| t_buf := t_buf s; t_done := t_done s; t_err := t_err s; t_waker := t_waker s; t_lock := LSource; t_token := t_token s; t_cur := t_cur s;
                                       t_pp := t_pp s; t_sp := SHoldR; t_end := t_end s; t_all := t_all s |}
                    | _ => None
                    end
      | SHoldR => Some {| t_buf := t_buf s; t_done := t_done s; t_err := t_err s; t_waker := t_waker s; t_lock := LFree;
                          t_token := match t_waker s with Some k => Some k | None => t_token s end; t_cur := t_cur s; t_pp := t_pp s; t_sp := SFin; t_end := t_end s; t_all := t_all s |}
      | SFin => None
      end
  end.

Fixpoint trun (acts : list tact) (s : tv) : tv :=
  match acts with
  | [] => s
  | a :: r => match tstep s a with Some s' => trun r s' | None => trun r s end
  end.

Definition expected_result (items : list nat) (en : tending) : option (option nat * list nat) :=
  match en with TComplete => Some (None, items) | TError e => Some (Some e, items) | TSilent => None end.
