(* Extraction of the executable model to OCaml.  ExtrOcamlBasic only: bool, option, unit,
   list, prod, sumbool, sumor map to OCaml's; nat, Z, N, positive stay extracted inductives.
   No Extract Constant / Extract Inductive directive beyond those of ExtrOcamlBasic. *)
From Coq Require Extraction.
From Coq Require Import ExtrOcamlBasic.
From RX Require Import Val Syntax World Step Oracle Oracle2 SubjK Oracle3 ConcGate ConcQueue ConcToVec ConcSubject ConcHist ConcComb ConcObserveOn LockOrder ConcTimeout.
Extraction Language OCaml.

Extraction "../ml/rxmodel.ml" run_scenario init_world run step uenc udec is_sub val_eqb obs_of_run c01_oracle ulog users contract_ok c02_oracle c02_loc_oracle c05_oracle c06_oracle c10_oracle c13_oracle c10k_oracle c13k_oracle c03_oracle c03_mloc_oracle c04_oracle sk_run gstep ginit gate_oracle qstep q0 tstep tv0 closure_ok sstep sinit consecutive got hstep hinit mgstep mginit zstep zinit astep ainit kstep kinit ostep oinit edges_ok edge_ok spec_timeout spec_delay.
