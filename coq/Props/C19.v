(* C19 - the observer contract also holds when events reach one subscriber from different threads.
   Statements only; proofs in Proofs/GateInv.v.  Model/ConcGate.v is src/observer.rs +
   src/internals/function_wrapper.rs at the granularity of one lock-protected critical section per step;
   every delivery to a subscriber - from merge / flat_map / zip / amb, from a trigger operator racing its
   source, from a subject whose next and error/complete are called concurrently - is a call of
   next / error / complete on that subscriber's Observer, so the theorems below cover all of them:
   the threads' programs are arbitrary call lists. *)
From Coq Require Import List Bool Arith.
From RX Require Import ConcGate.
From RXP Require Import GateInv.
Import ListNotations.

(* ANY number of threads, each issuing ANY list of next/error/complete/unsubscribe calls on one observer,
   under ANY interleaving of their critical sections: at most one terminal callback ever starts. *)
Theorem C19_at_most_one_terminal :
  forall (progs : nat -> list gcall) (sched : list nat),
    n_term_starts (g_trace (grun sched (ginit progs))) <= 1.
Proof. exact gate_at_most_one_terminal. Qed.
Check C19_at_most_one_terminal :
  forall (progs : nat -> list gcall) (sched : list nat),
    n_term_starts (g_trace (grun sched (ginit progs))) <= 1.
Print Assumptions C19_at_most_one_terminal.

(* ... and no callback starts for a call that began after a terminal callback had returned
   (every EvCbStart event carries the `late` flag of its call; none is late). *)
Theorem C19_nothing_started_after_terminal_returned :
  forall (progs : nat -> list gcall) (sched : list nat),
    forallb (fun e => negb (is_late_start e)) (g_trace (grun sched (ginit progs))) = true.
Proof. exact gate_nothing_after_terminal_returned. Qed.
Check C19_nothing_started_after_terminal_returned :
  forall (progs : nat -> list gcall) (sched : list nat),
    forallb (fun e => negb (is_late_start e)) (g_trace (grun sched (ginit progs))) = true.
Print Assumptions C19_nothing_started_after_terminal_returned.

(* Once a terminal callback has returned, the three callback slots are empty for good. *)
Theorem C19_slots_empty_after_terminal :
  forall (progs : nat -> list gcall) (sched : list nat),
    let c := grun sched (ginit progs) in
    g_termret c = true -> g_n c = false /\ g_e c = false /\ g_c c = false.
Proof. exact gate_slots_empty_after_terminal. Qed.
Check C19_slots_empty_after_terminal :
  forall (progs : nat -> list gcall) (sched : list nat),
    let c := grun sched (ginit progs) in
    g_termret c = true -> g_n c = false /\ g_e c = false /\ g_c c = false.
Print Assumptions C19_slots_empty_after_terminal.

(* Non-vacuity: error racing complete racing next on three threads.  Under this schedule thread 1's
   next fetched its callback before thread 0's error cleared the slot and runs after the error callback
   returned - allowed (the call began before) - while thread 2's complete finds the gate taken. *)
Definition c19_progs (t : nat) : list gcall :=
  match t with 0 => [GError] | 1 => [GNext 7] | 2 => [GComplete] | _ => [] end.
Example C19_example :
  let c := grun [1; 0; 2; 0; 0; 0; 0; 1; 1] (ginit c19_progs) in
  filter (fun e => match e with EvCbStart _ _ _ => true | _ => false end) (g_trace c)
  = [EvCbStart 0 GE false; EvCbStart 1 (GN 7) false].
Proof. vm_compute. reflexivity. Qed.
