(* C11 - combinators fed from several threads conserve items and terminate exactly once.
   Statements only; proofs in Proofs/CombConc.v.  Model/ConcComb.v: one step per lock-protected critical section or
   subscriber callback of merge/flat_map (StreamController live-input set), zip, amb and take; every input is a
   thread running its script; `*run acts` is an arbitrary interleaving, any number of inputs, any scripts. *)
From Coq Require Import List Bool Arith.
From RX Require Import ConcComb.
From RXP Require Import CombConc.
Import ListNotations.

(* merge / flat_map (inputs 0..n-1 registered at subscription; further inputs registered from inside an input's
   next callback): at every moment each input's delivered items are a prefix of its script, in order, none twice;
   at most one complete; once the subscriber is completed the complete is the LAST event and every input that
   ever started has delivered its whole script. *)
Theorem C11_merge_conserves :
  forall n scripts acts, 1 <= n ->
  let c := mgrun acts (mginit n scripts) in
  (forall i, mitems i (m_log c) = firstn (mi_k (m_in c i)) (scripts i)) /\
  mcompletes (m_log c) <= 1 /\
  (m_open c = false ->
   exists body, m_log c = body ++ [MC] /\ mcompletes body = 0 /\
                forall i, mi_st (m_in c i) <> MNotYet -> mitems i body = scripts i).
Proof. exact merge_conserves. Qed.
Check C11_merge_conserves :
  forall n scripts acts, 1 <= n ->
  let c := mgrun acts (mginit n scripts) in
  (forall i, mitems i (m_log c) = firstn (mi_k (m_in c i)) (scripts i)) /\
  mcompletes (m_log c) <= 1 /\
  (m_open c = false ->
   exists body, m_log c = body ++ [MC] /\ mcompletes body = 0 /\
                forall i, mi_st (m_in c i) <> MNotYet -> mitems i body = scripts i).
Print Assumptions C11_merge_conserves.

(* ... and when no thread can move any more the subscriber HAS been completed. *)
Theorem C11_merge_terminates :
  forall n scripts acts, 1 <= n ->
  let c := mgrun acts (mginit n scripts) in
  (forall a, mgstep c a = c) -> m_open c = false.
Proof. exact merge_terminates. Qed.
Check C11_merge_terminates :
  forall n scripts acts, 1 <= n ->
  let c := mgrun acts (mginit n scripts) in
  (forall a, mgstep c a = c) -> m_open c = false.
Print Assumptions C11_merge_terminates.

(* zip: the tuple with index m pairs the m-th items of all inputs; no index is delivered twice; none is formed
   beyond the shortest script. *)
Theorem C11_zip_pairs :
  forall n scripts acts, 1 <= n ->
  let c := zrun acts (zinit n scripts) in
  NoDup (map fst (z_log c)) /\
  (forall m t, In (m, t) (z_log c) -> m < z_p c /\ t = row n scripts m) /\
  (forall i, i < n -> z_p c <= length (scripts i)).
Proof. exact zip_pairs. Qed.
Check C11_zip_pairs :
  forall n scripts acts, 1 <= n ->
  let c := zrun acts (zinit n scripts) in
  NoDup (map fst (z_log c)) /\
  (forall m t, In (m, t) (z_log c) -> m < z_p c /\ t = row n scripts m) /\
  (forall i, i < n -> z_p c <= length (scripts i)).
Print Assumptions C11_zip_pairs.

(* ... and when no thread can move any more exactly the indices below the shortest script's length have been
   delivered, each once.  (The ORDER of delivery is not the index order in general: two threads can each hold a
   formed tuple - the crate does deliver tuples out of order under such schedules; C11 does not ask for it.) *)
Theorem C11_zip_all_delivered :
  forall n scripts acts, 1 <= n ->
  let c := zrun acts (zinit n scripts) in
  (forall a, zstep c a = c) ->
  (forall m, m < z_p c <-> In m (map fst (z_log c))) /\
  (exists i, i < n /\ z_p c = length (scripts i)) /\ (forall i, i < n -> z_p c <= length (scripts i)).
Proof. exact zip_all_delivered. Qed.
Check C11_zip_all_delivered :
  forall n scripts acts, 1 <= n ->
  let c := zrun acts (zinit n scripts) in
  (forall a, zstep c a = c) ->
  (forall m, m < z_p c <-> In m (map fst (z_log c))) /\
  (exists i, i < n /\ z_p c = length (scripts i)) /\ (forall i, i < n -> z_p c <= length (scripts i)).
Print Assumptions C11_zip_all_delivered.

(* amb: exactly one input gets through - everything delivered is a prefix of the winner's script. *)
Theorem C11_amb_one_input :
  forall scripts acts,
  let c := arun acts (ainit scripts) in
  a_log c = [] \/ exists w, a_win c = Some w /\ a_log c = map (fun v => (w, v)) (firstn (a_k c w) (scripts w)).
Proof. exact amb_one_input. Qed.
Check C11_amb_one_input :
  forall scripts acts,
  let c := arun acts (ainit scripts) in
  a_log c = [] \/ exists w, a_win c = Some w /\ a_log c = map (fun v => (w, v)) (firstn (a_k c w) (scripts w)).
Print Assumptions C11_amb_one_input.

(* The script elements of the amb model stand for SIGNALS of any kind: items and the terminal, which amb.rs sends through the very
   same election (next, error and complete all go through is_win).  At quiescence, if any input has anything to say, there is a
   winner and exactly its script has been delivered - all of its items and its terminal, nothing of any other input: also when
   every input only completes (exactly one complete), and when an input fails after another one has won (its error stays out). *)
Theorem C11_amb_quiescent_delivers_winner :
  forall scripts acts,
  let c := arun acts (ainit scripts) in
  (forall a, astep c a = c) -> (exists i, scripts i <> []) ->
  exists w, a_win c = Some w /\ a_log c = map (fun v => (w, v)) (scripts w).
Proof. exact amb_quiescent_delivers_winner. Qed.
Check C11_amb_quiescent_delivers_winner :
  forall scripts acts,
  let c := arun acts (ainit scripts) in
  (forall a, astep c a = c) -> (exists i, scripts i <> []) ->
  exists w, a_win c = Some w /\ a_log c = map (fun v => (w, v)) (scripts w).
Print Assumptions C11_amb_quiescent_delivers_winner.
(* three inputs that only complete (signal 0): whichever is first wins, one complete is delivered *)
Example C11_amb_all_complete :
  let c := arun [ACheck 1; ACheck 0; ASend 1; ACheck 2] (ainit (fun _ => [0])) in a_log c = [(1, 0)] /\ a_win c = Some 1.
Proof. vm_compute. split; reflexivity. Qed.

(* take(count) fed by any number of threads: at most count items, at most one complete, nothing after it. *)
Theorem C11_take_at_most :
  forall count acts,
  let c := krun acts (kinit count) in
  length (kslots (k_log c)) <= count /\ NoDup (kslots (k_log c)) /\ kdones (k_log c) <= 1 /\
  (k_open c = false -> exists body, k_log c = body ++ [KDone] /\ kdones body = 0).
Proof. exact take_at_most. Qed.
Check C11_take_at_most :
  forall count acts,
  let c := krun acts (kinit count) in
  length (kslots (k_log c)) <= count /\ NoDup (kslots (k_log c)) /\ kdones (k_log c) <= 1 /\
  (k_open c = false -> exists body, k_log c = body ++ [KDone] /\ kdones body = 0).
Print Assumptions C11_take_at_most.

(* Non-vacuity: two merge inputs racing to the end; the zip schedule that delivers tuple 1 before tuple 0. *)
Example C11_merge_example :
  let c := mgrun [MItem 0; MItem 1; MEnd 1; MItem 0; MEnd 0; MFin 0] (mginit 2 (fun i => if Nat.eqb i 0 then [1; 2] else [11])) in
  m_log c = [MI 0 1; MI 1 11; MI 0 2; MC] /\ m_open c = false.
Proof. vm_compute. split; reflexivity. Qed.
Example C11_zip_out_of_order :
  let c := zrun [ZPush 0; ZGet 0; ZPush 0; ZPush 1; ZGet 0; ZGet 1; ZPush 1; ZGet 1; ZDeliver 1; ZDeliver 0]
                (zinit 2 (fun i => if Nat.eqb i 0 then [1; 2] else [11; 12])) in
  z_log c = [(1, [2; 12]); (0, [1; 11])].
Proof. vm_compute. reflexivity. Qed.
