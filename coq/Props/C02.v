(* C02 - single-source operators and creation functions compute their ReactiveX function.
   Statements only; proofs in Proofs/LocOps*.v and Proofs/LocAll.v.
   `loc_run op` runs the operator's handler table (Step.handler - the very table the sequential
   machine executes and that the correspondence check ties to the crate) on an event list;
   `spec_op` is the naive list definition of DESIGN Appendix A. *)
From Coq Require Import List ZArith Bool Arith.
From RX Require Import Val Syntax Step Spec Loc.
From RXP Require Import LocBase LocOpsA LocOpsB LocOpsC LocOpsD LocAll.
Import ListNotations.

(* Every single-source operator of the catalogue (all parameters, all function-family members),
   every finite item sequence, every ending: delivered events = the definition's. *)
Theorem C02_operator_correct :
  forall (op : opk) (i : sout), (loc_node_op op || loc_derived_op op) = true ->
    loc_op op (events i) = events (spec_op op i).
Proof. exact loc_op_correct. Qed.
Check C02_operator_correct :
  forall (op : opk) (i : sout), (loc_node_op op || loc_derived_op op) = true ->
    loc_op op (events i) = events (spec_op op i).
Print Assumptions C02_operator_correct.

(* Compositions behave as the composition of the definitions, for chains of ANY length. *)
Theorem C02_composition :
  forall (ops : list opk) (i : sout),
    forallb (fun op => loc_node_op op || loc_derived_op op) ops = true ->
    loc_chain ops (events i) = events (spec_chain ops i).
Proof. exact loc_chain_correct. Qed.
Check C02_composition :
  forall (ops : list opk) (i : sout),
    forallb (fun op => loc_node_op op || loc_derived_op op) ops = true ->
    loc_chain ops (events i) = events (spec_chain ops i).
Print Assumptions C02_composition.

(* The catalogue the two theorems quantify over is the whole single-source list of the property
   (non-vacuity of the side condition): *)
Example C02_catalogue :
  forallb (fun op => loc_node_op op || loc_derived_op op)
    [OMap (FAdd 1); OFilter PEven; OTake 0; OTake 3; OTakeWhile (PLt 2); OTakeLast 2; OSkip 1; OSkipLast 1; OSkipWhile POdd;
     OFirst; OLast; OElementAt 0; OElementAt 2; ODistinct; OScan F2Add; OReduce F2Max; OCount; OSum; OSumAndCount; OMin; OMax;
     OAll PEven; OContains (VInt 2); ODefaultIfEmpty (VInt 9); OIgnore; OStartWith [VInt 8]; OBuffer 2; OWindow 1; OGroupBy 2;
     OMaterialize; ODematerialize; OTap 0; OMapToAny] = true.
Proof. vm_compute. reflexivity. Qed.

(* a concrete chain: [1;2;3;4;5] |> filter odd |> map (+1) |> take 2 *)
Example C02_example :
  loc_chain [OFilter POdd; OMap (FAdd 1); OTake 2] (events ([VInt 1; VInt 2; VInt 3; VInt 4; VInt 5], Completes))
  = [Nx (VInt 2); Nx (VInt 4); Co].
Proof. vm_compute. reflexivity. Qed.
