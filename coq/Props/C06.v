(* C06 - every way a subscription ends tears down everything upstream of it.
   Statements only; proofs in Proofs/TearInv.v.  Model/Tear.v interprets the actions of the operators'
   handlers (Step.handler - the table the sequential machine runs and the correspondence ties to the
   crate) on one StreamController's bookkeeping exactly as Step.step does. *)
From Coq Require Import List ZArith Bool Arith.
From RX Require Import Val Syntax Step Tear.
From RX Require Import World.
From RXP Require Import TearInv SubjQuiet.
Import ListNotations.

(* Discipline, for the WHOLE catalogue (every operator, parameter, state, port, serial, event): a handler
   never lets sink_complete forget an upstream entry unless that upstream's own terminal is being handled
   or upstream_abort_observe(serial) ran earlier on the same path. *)
Theorem C06_catalogue_disciplined :
  forall op src others st port ser fresh e, handler_disciplined op src others st port ser fresh e = true.
Proof. exact catalogue_disciplined. Qed.
Check C06_catalogue_disciplined :
  forall op src others st port ser fresh e, handler_disciplined op src others st port ser fresh e = true.
Print Assumptions C06_catalogue_disciplined.

(* Node-level closure: handling any event with any operator keeps "every subscribed upstream observer is
   registered" and "an ended subscriber implies an empty map" - whatever the downstream does during the
   deliveries (it may leave at any of them), whatever upstreams are subscribed dynamically. *)
Theorem C06_handle_event_keeps_invariants :
  forall op src others st port ser fresh e s,
    G ser s -> G ser (tacts (snd (handler op src others st port ser fresh e)) (arrive ser e s)).
Proof. intros. apply handle_event_G; auto. apply catalogue_disciplined. Qed.
Check C06_handle_event_keeps_invariants :
  forall op src others st port ser fresh e s,
    G ser s -> G ser (tacts (snd (handler op src others st port ser fresh e)) (arrive ser e s)).
Print Assumptions C06_handle_event_keeps_invariants.

(* ... and under those invariants an ended subscription has NO subscribed upstream observer left:
   by a terminal, because the operator had all it needs, or because the downstream unsubscribed (finalize). *)
Theorem C06_ended_means_upstream_closed :
  forall ser s, G ser s -> tn_alive s = false -> forall k r u, In (k, (r, u)) (tn_es s) -> u = false.
Proof. exact ended_means_all_upstream_closed. Qed.
Check C06_ended_means_upstream_closed :
  forall ser s, G ser s -> tn_alive s = false -> forall k r u, In (k, (r, u)) (tn_es s) -> u = false.
Print Assumptions C06_ended_means_upstream_closed.

Theorem C06_finalize_closes_everything :
  forall ser s, G ser s -> G ser (finalize s) /\ (forall k r u, In (k, (r, u)) (tn_es (finalize s)) -> u = false).
Proof.
  intros ser s Gs. destruct (finalize_G ser s Gs) as (A & _ & _). split; auto.
  apply (ended_means_all_upstream_closed ser (finalize s) A eq_refl).
Qed.
Print Assumptions C06_finalize_closes_everything.

(* Non-vacuity: the handler take_while had before commit 5dbcdad (sink_complete without upstream_abort) is
   rejected by the discipline, and running it leaves the upstream observer subscribed under an ended
   subscription; the current handler passes and closes it. *)
Example C06_old_take_while_rejected : fst (discs 0 [SinkComplete 0] false) = false.
Proof. reflexivity. Qed.
Example C06_old_take_while_leaks :
  let s := tacts [SinkComplete 0] {| tn_es := [(0, (true, true))]; tn_next := 1; tn_alive := true; tn_lv := [] |} in
  tn_alive s = false /\ tn_es s = [(0, (false, true))].
Proof. vm_compute. split; reflexivity. Qed.
Example C06_take_while_now :
  let s := tacts (snd (handler (OTakeWhile PFalse) PNever [] st0 0 0 0 (Nx (VInt 1)))) {| tn_es := [(0, (true, true))]; tn_next := 1; tn_alive := true; tn_lv := [] |} in
  tn_alive s = false /\ tn_es s = [(0, (false, false))].
Proof. vm_compute. split; reflexivity. Qed.

(* An observer that has already ended - e.g. because an earlier, synchronous input of the same operator ended the subscription - is
   never handed to a source: nothing is subscribed for nobody, so there is nothing to release (Observable::inner_subscribe's guard). *)
Theorem C06_dead_observer_subscribes_nothing :
  forall p o w, is_sub (obs w o) = false -> step (SubscribePipe p o) w = ([], w).
Proof. exact dead_observer_subscribes_nothing. Qed.
Check C06_dead_observer_subscribes_nothing :
  forall p o w, is_sub (obs w o) = false -> step (SubscribePipe p o) w = ([], w).
Print Assumptions C06_dead_observer_subscribes_nothing.
