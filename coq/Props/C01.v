(* C01 - observer contract.  Statements only; proofs are in Proofs/Contract.v. *)
From Coq Require Import List ZArith Bool Arith.
From RX Require Import Val Syntax World Step Oracle.
From RXP Require Import Contract.
Import ListNotations.

(* Every subscriber (driver handle or window/group recorder) of every scenario - any pipeline over the
   whole operator catalogue at any depth, any cold scripts including ill-formed ones, any driver
   interleaving of hot sources, any reactions, any fuel - logs  next* (error | complete)?  . *)
Theorem C01_all_pipelines :
  forall (sc : scenario) (fuel : nat) (u : nat),
    contract_ok (ulog u (log (snd (run_scenario fuel sc)))) = true.
Proof. exact contract_all_scenarios. Qed.
Check C01_all_pipelines :
  forall (sc : scenario) (fuel : nat) (u : nat),
    contract_ok (ulog u (log (snd (run_scenario fuel sc)))) = true.
Print Assumptions C01_all_pipelines.

(* The same from ANY stack of pending requests (not only driver scripts) in any world meeting the
   invariant: arbitrary interleavings of next/error/complete/unsubscribe calls on any observers. *)
Theorem C01_any_stack :
  forall (fuel : nat) (stk : list req) (w : world), Inv w ->
  forall u, contract_ok (ulog u (log (snd (run fuel stk w)))) = true.
Proof. intros fuel stk w I. exact (i_contract _ (run_inv fuel stk w I)). Qed.
Check C01_any_stack :
  forall (fuel : nat) (stk : list req) (w : world), Inv w ->
  forall u, contract_ok (ulog u (log (snd (run fuel stk w)))) = true.
Print Assumptions C01_any_stack.

(* The executable oracle that ./vp applies to the implementation's observations holds of the model. *)
Theorem C01_oracle_on_model :
  forall (sc : scenario) (fuel : nat), c01_oracle (obs_of_run (run_scenario fuel sc)) = true.
Proof. exact c01_oracle_model. Qed.
Check C01_oracle_on_model :
  forall (sc : scenario) (fuel : nat), c01_oracle (obs_of_run (run_scenario fuel sc)) = true.
Print Assumptions C01_oracle_on_model.

(* Non-vacuity: an ill-formed source (events after its terminal, both terminals) subscribed directly
   and through `map`; the logs are non-empty and stop at the first terminal. *)
Definition c01_example : scenario :=
  {| sc_scripts := [([[Nx (VInt 1); Co; Nx (VInt 2); Er 7; Co]], false)];
     sc_subjects := []; sc_conns := []; sc_defs := []; sc_handles := 2;
     sc_script := [DSub 0 (PCold 0) []; DSub 1 (POp (OMap (FAdd 1)) (PCold 0) []) []] |}.
Example C01_example_logs :
  let w := snd (run_scenario 1000 c01_example) in
  ulog (uenc (UTop 0)) (log w) = [Nx (VInt 1); Co] /\ ulog (uenc (UTop 1)) (log w) = [Nx (VInt 2); Co].
Proof. vm_compute. split; reflexivity. Qed.
