(* C08 - scheduler queue: FIFO, one task at a time, each at most once, clean stop.
   Statements only; proofs in Proofs/QueueInv.v.  Model/ConcQueue.v has one transition per critical
   section of src/schedulers/async_function_queue.rs (every access to `abort` happens under the queue
   mutex); `qrun ops` is an arbitrary trace: any number of clients issuing post/stop - also from inside
   the running task - interleaved in any way with the worker's check / wake-up (spurious included) /
   task-return steps.  ./vp checks that every call/return history observed on the real scheduler under
   the scheduling runtime is a linearisation accepted by this transition system. *)
From Coq Require Import List Bool Arith.
From RX Require Import ConcQueue.
From RXP Require Import QueueInv.
Import ListNotations.

(* For EVERY trace: every posted task is in exactly one of started / discarded-by-abort / still queued,
   each in posting order (FIFO, at most once, nothing lost); starts and finishes alternate (one task at a
   time); a sleeping worker implies an empty queue and no abort pending (no lost wake-up); nothing is
   discarded without an abort; an exited worker implies abort. *)
Theorem C08_queue_accounting :
  forall ops, let s := qrun ops in
  q_posted s = q_started s ++ q_discarded s ++ q_queue s /\
  q_started s = q_finished s ++ running (q_worker s) /\
  (q_worker s = WWaiting -> q_queue s = [] /\ q_abort s = false) /\
  (q_abort s = false -> q_discarded s = []) /\
  (q_worker s = WExited -> q_abort s = true).
Proof. exact queue_accounting. Qed.
Check C08_queue_accounting :
  forall ops, let s := qrun ops in
  q_posted s = q_started s ++ q_discarded s ++ q_queue s /\
  q_started s = q_finished s ++ running (q_worker s) /\
  (q_worker s = WWaiting -> q_queue s = [] /\ q_abort s = false) /\
  (q_abort s = false -> q_discarded s = []) /\
  (q_worker s = WExited -> q_abort s = true).
Print Assumptions C08_queue_accounting.

(* After abort no further task is ever taken from the queue, whatever happens next. *)
Theorem C08_no_start_after_abort :
  forall ops s, q_abort s = true -> q_started (fold_left qstep ops s) = q_started s.
Proof. exact no_start_after_abort_run. Qed.
Check C08_no_start_after_abort : forall ops s, q_abort s = true -> q_started (fold_left qstep ops s) = q_started s.
Print Assumptions C08_no_start_after_abort.

(* The worker's next own step takes the front task when there is one and no abort ... *)
Theorem C08_worker_takes_front :
  forall s t r, QInv s -> q_worker s = WIdle -> q_abort s = false -> q_queue s = t :: r ->
  q_worker (qstep s QCheck) = WRunning t /\ q_queue (qstep s QCheck) = r.
Proof. exact worker_takes_front. Qed.
Check C08_worker_takes_front :
  forall s t r, QInv s -> q_worker s = WIdle -> q_abort s = false -> q_queue s = t :: r ->
  q_worker (qstep s QCheck) = WRunning t /\ q_queue (qstep s QCheck) = r.
Print Assumptions C08_worker_takes_front.

(* ... and after abort it exits as soon as the task in progress has returned (one return + one check). *)
Theorem C08_worker_exits_after_abort :
  forall s, q_abort s = true -> q_worker s <> WWaiting ->
  q_worker (qstep (qstep s QDone) QCheck) = WExited \/ q_worker s = WExited.
Proof. exact worker_exits_after_abort. Qed.
Check C08_worker_exits_after_abort :
  forall s, q_abort s = true -> q_worker s <> WWaiting ->
  q_worker (qstep (qstep s QDone) QCheck) = WExited \/ q_worker s = WExited.
Print Assumptions C08_worker_exits_after_abort.

(* "Every task posted before abort is either run or discarded by abort": right after a stop - at any point of any trace - the queue
   is empty and every task posted so far has been started or discarded (none is left waiting in a queue nobody serves). *)
Theorem C08_stop_discards_what_is_queued :
  forall ops, let s := qstep (qrun ops) QStop in
  q_queue s = [] /\ forall t, In t (q_posted s) -> In t (q_started s) \/ In t (q_discarded s).
Proof. exact stop_discards_what_is_queued. Qed.
Check C08_stop_discards_what_is_queued :
  forall ops, let s := qstep (qrun ops) QStop in
  q_queue s = [] /\ forall t, In t (q_posted s) -> In t (q_started s) \/ In t (q_discarded s).
Print Assumptions C08_stop_discards_what_is_queued.

(* post and stop always wake a sleeping worker. *)
Theorem C08_notifications_not_lost :
  forall s, q_worker s = WWaiting -> (forall t, q_worker (qstep s (QPost t)) = WIdle) /\ q_worker (qstep s QStop) = WIdle.
Proof. intros s W. split; [intro t; now apply post_wakes | now apply stop_wakes]. Qed.
Print Assumptions C08_notifications_not_lost.

(* Non-vacuity: three posts, the worker runs one, abort from inside the running task, a late post. *)
Example C08_example :
  let s := qrun [QPost 1; QPost 2; QCheck; QPost 3; QStop; QPost 4; QDone; QCheck] in
  q_started s = [1] /\ q_discarded s = [2; 3] /\ q_queue s = [4] /\ q_worker s = WExited /\ q_finished s = [1].
Proof. vm_compute. repeat split. Qed.
