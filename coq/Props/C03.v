(* C03 - combining operators interleave, pair and switch their inputs as defined.
   Statements only; proofs in Proofs/MLocProofs.v.  `mrun op k l` runs the operator's handler table
   (Step.handler - the table the sequential machine executes and the correspondence ties to the crate)
   with k further sources on an ARBITRARY sequential interleaving l of (source serial, event) - any
   length, any order, ill-formed sources included - with the StreamController bookkeeping of Tear.v;
   spec_* are the naive ReactiveX definitions (Model/MLoc.v). *)
From Coq Require Import List ZArith Bool Arith.
From RX Require Import Val Syntax World Step Oracle Tear MLoc.
From RXP Require Import MLocProofs.
Import ListNotations.

(* merge of any number of sources: every item in arrival order, first error wins, complete only after ALL completed *)
Theorem C03_merge : forall k l, mrun OMerge k l = spec_merge (S k) [] l.
Proof. exact merge_correct. Qed.
Check C03_merge : forall k l, mrun OMerge k l = spec_merge (S k) [] l.
Print Assumptions C03_merge.

(* zip of any number of sources: the i-th output pairs the i-th items *)
Theorem C03_zip : forall k l, mrun OZip k l = spec_zip (S k) [] (repeat [] (S k)) l.
Proof. exact zip_correct'. Qed.
Check C03_zip : forall k l, mrun OZip k l = spec_zip (S k) [] (repeat [] (S k)) l.
Print Assumptions C03_zip.

(* amb of any number of sources mirrors only the first source to signal *)
Theorem C03_amb : forall k l, mrun OAmb k l = spec_amb (S k) None [] l.
Proof. exact amb_correct. Qed.
Check C03_amb : forall k l, mrun OAmb k l = spec_amb (S k) None [] l.
Print Assumptions C03_amb.

(* take_until / skip_until / sample gate the stream by the trigger's items (serial 0 = trigger, 1 = stream) *)
Theorem C03_take_until : forall l, mrun OTakeUntil 1 l = spec_take_until [] l.
Proof. exact take_until_correct. Qed.
Check C03_take_until : forall l, mrun OTakeUntil 1 l = spec_take_until [] l.
Print Assumptions C03_take_until.
Theorem C03_skip_until : forall l, mrun OSkipUntil 1 l = spec_skip_until false [] l.
Proof. exact skip_until_correct. Qed.
Check C03_skip_until : forall l, mrun OSkipUntil 1 l = spec_skip_until false [] l.
Print Assumptions C03_skip_until.
Theorem C03_sample : forall l, mrun OSample 1 l = spec_sample None [] l.
Proof. exact sample_correct. Qed.
Check C03_sample : forall l, mrun OSample 1 l = spec_sample None [] l.
Print Assumptions C03_sample.

(* Non-vacuity: three sources interleaved, one completes early, an error from another ends the merge *)
Example C03_example_merge :
  mrun OMerge 2 [(0, Nx (VInt 1)); (2, Nx (VInt 3)); (1, Co); (1, Nx (VInt 9)); (0, Nx (VInt 2)); (2, Er 7); (0, Nx (VInt 4))]
  = [Nx (VInt 1); Nx (VInt 3); Nx (VInt 2); Er 7].
Proof. vm_compute. reflexivity. Qed.

(* Known findings (recorded in known_findings.json, not repaired): the crate's combine_latest is zip + map,
   its sequence_equal compares the zipped prefix only.  The witnesses run the sequential machine. *)
Definition d9_scenario : scenario :=
  {| sc_scripts := []; sc_subjects := [(KSubject, None); (KSubject, None)]; sc_conns := []; sc_defs := []; sc_handles := 1;
     sc_script := [DSub 0 (POp (OCombineLatest CList) (PHot 0) [PHot 1]) []; DEmit 0 (Nx (VInt 1)); DEmit 0 (Nx (VInt 2)); DEmit 1 (Nx (VInt 10))] |}.
Example C03_known_D9_witness :
  ulog (uenc (UTop 0)) (log (snd (run_scenario 1000 d9_scenario))) = [Nx (VList [VInt 1; VInt 10])] /\
  spec_combine_latest CList 2 [] (repeat None 2) [(0, Nx (VInt 1)); (0, Nx (VInt 2)); (1, Nx (VInt 10))] = [Nx (VList [VInt 2; VInt 10])].
Proof. vm_compute. split; reflexivity. Qed.
Definition d10_scenario : scenario :=
  {| sc_scripts := []; sc_subjects := [(KSubject, None); (KSubject, None)]; sc_conns := []; sc_defs := []; sc_handles := 1;
     sc_script := [DSub 0 (POp OSequenceEqual (PHot 0) [PHot 1]) []; DEmit 0 (Nx (VInt 1)); DEmit 0 Co; DEmit 1 Co] |}.
Example C03_known_D10_witness :
  ulog (uenc (UTop 0)) (log (snd (run_scenario 1000 d10_scenario))) = [Nx (VBool true); Co] /\
  spec_sequence_equal2 [(0, Nx (VInt 1)); (0, Co); (1, Co)] = Some [Nx (VBool false); Co].
Proof. vm_compute. split; reflexivity. Qed.

(* ------------------------------------------------------------------ operators that subscribe further sources later *)
From RXP Require Import MLocDyn.
(* concat of k+1 sources (source i+1 is subscribed when source i completes; what it signals before is not heard) *)
Theorem C03_concat : forall k l, mrun_first OConcat k l = spec_concat (S k) 0 l.
Proof. exact concat_correct. Qed.
Check C03_concat : forall k l, mrun_first OConcat k l = spec_concat (S k) 0 l.
Print Assumptions C03_concat.
(* on_error_resume_next: the source's items; if it fails, the resume source's items and terminal *)
Theorem C03_on_error_resume_next : forall k l, mrun_first OResume k l = spec_resume 0 l.
Proof. exact resume_correct. Qed.
Check C03_on_error_resume_next : forall k l, mrun_first OResume k l = spec_resume 0 l.
Print Assumptions C03_on_error_resume_next.

(* flat_map, for ANY selector and ANY inner observables: the source is subscribed at once (serial 0), the inner observable
   of its k-th item is subscribed then, as serial k; the feed addresses events to serials.  For EVERY sequential
   interleaving - signals of inner observables that are not subscribed yet, or after their terminal, included - the
   subscriber receives the inner items in arrival order, the first error of anyone, and complete when the source and
   every inner observable subscribed so far have completed. *)
From RXP Require Import MLocFlat.
Theorem C03_flat_map : forall f k l, mrun_first (OFlatMap f) k l = spec_flat_map_ser 1 [] l.
Proof. exact flat_map_correct. Qed.
Check C03_flat_map : forall f k l, mrun_first (OFlatMap f) k l = spec_flat_map_ser 1 [] l.
Print Assumptions C03_flat_map.
(* non-vacuity: two source items; the second inner observable "emits" 9 before it exists (not heard); the source
   completes first; the result completes only when both inner observables have *)
Example C03_example_flat_map :
  spec_flat_map_ser 1 [] [(0, Nx (VInt 1)); (2, Nx (VInt 9)); (1, Nx (VInt 10)); (0, Nx (VInt 2)); (2, Nx (VInt 20)); (0, Co);
                          (1, Nx (VInt 11)); (1, Co); (2, Nx (VInt 21)); (2, Co); (2, Nx (VInt 22))]
  = [Nx (VInt 10); Nx (VInt 20); Nx (VInt 11); Nx (VInt 21); Co].
Proof. vm_compute. reflexivity. Qed.
