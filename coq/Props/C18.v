(* C18 - the to_vec future resolves once with everything the source emitted.
   Statements only; proofs in Proofs/ToVecInv.v.  Model/ConcToVec.v is operators/to_vec.rs as a
   poller / source transition system at lock granularity with a minimal parking executor; `trun acts`
   is an arbitrary interleaving (any number of spurious re-polls included, each with a fresh waker). *)
From Coq Require Import List Bool Arith.
From RX Require Import ConcToVec.
From RXP Require Import ToVecInv.
Import ListNotations.

(* Under every interleaving: the future is Ready only after the source terminated, and then with the
   source's error or with ALL the items the source emitted, in order. *)
Theorem C18_result :
  forall items en acts e l,
    t_pp (trun acts (tv0 items en)) = PPReady e l ->
    t_done (trun acts (tv0 items en)) = true /\ expected_result items en = Some (e, l).
Proof. exact tovec_result. Qed.
Check C18_result :
  forall items en acts e l,
    t_pp (trun acts (tv0 items en)) = PPReady e l ->
    t_done (trun acts (tv0 items en)) = true /\ expected_result items en = Some (e, l).
Print Assumptions C18_result.

(* No lost wake-up: whenever the source has finished, a parked poller has the token of its LATEST waker pending
   (every poll hands in a new waker, identified by the poll's number t_cur; a to_vec that kept only the first waker,
   or woke a stale one, would fail this). *)
Theorem C18_no_lost_wakeup :
  forall items en acts, let s := trun acts (tv0 items en) in
  t_sp s = SFin -> t_pp s = PPParked -> t_token s = Some (t_cur s).
Proof. exact tovec_no_lost_wakeup. Qed.
Check C18_no_lost_wakeup :
  forall items en acts, let s := trun acts (tv0 items en) in
  t_sp s = SFin -> t_pp s = PPParked -> t_token s = Some (t_cur s).
Print Assumptions C18_no_lost_wakeup.

(* Always eventually: once the source has finished, three steps of the poller's own end in Ready - it is
   never blocked (the waker lock is free, a parked poller has its token). *)
Theorem C18_eventually_ready :
  forall items en acts, let s := trun acts (tv0 items en) in
  t_sp s = SFin -> exists e l, t_pp (trun [APoll; APoll; APoll] s) = PPReady e l.
Proof. exact tovec_eventually_ready. Qed.
Check C18_eventually_ready :
  forall items en acts, let s := trun acts (tv0 items en) in
  t_sp s = SFin -> exists e l, t_pp (trun [APoll; APoll; APoll] s) = PPReady e l.
Print Assumptions C18_eventually_ready.

(* Non-vacuity: the poller parks before the source completes and is woken. *)
Example C18_example :
  t_pp (trun [APoll; ASource; APoll; ASource; ASource; ASource; ASource; APoll; APoll; APoll] (tv0 [1; 2] TComplete))
  = PPReady None [1; 2].
Proof. vm_compute. reflexivity. Qed.
