(* C14 - each subscribe() runs an independent pipeline.
   Statements only; proofs in Proofs/Private.v.  On the sequential machine an operator's state lives in a
   node; the two theorems say that the model HAS no state shared between subscriptions - so any state the
   crate shares shows up as implementation <> model and as implementation(combined) <> implementation(solitary),
   which is what ./vp check C14 compares on every generated re-subscription scenario. *)
From Coq Require Import List ZArith Bool Arith.
From RX Require Import Val Syntax World Step Oracle.
From RXP Require Import Private.
Import ListNotations.

(* Every subscription of every operator pipeline allocates a FRESH node with the operator's INITIAL state
   (whatever earlier subscriptions of the same Observable value did). *)
Theorem C14_fresh_node :
  forall w op src others o,
  is_sub (obs w o) = true -> (match op with OStartWith _ => False | _ => True end) ->
  let w' := snd (step (SubscribePipe (POp op src others) o) w) in
  n_nodes w' = S (n_nodes w) /\ n_ctls w' = S (n_ctls w) /\
  n_op (nodes w' (n_nodes w)) = op /\ n_ctl (nodes w' (n_nodes w)) = n_ctls w /\
  st_cnt (n_st (nodes w' (n_nodes w))) = st_cnt (init_state op others) /\
  st_flag (n_st (nodes w' (n_nodes w))) = st_flag (init_state op others) /\
  st_acc (n_st (nodes w' (n_nodes w))) = st_acc (init_state op others) /\
  st_buf (n_st (nodes w' (n_nodes w))) = st_buf (init_state op others) /\
  st_qs (n_st (nodes w' (n_nodes w))) = st_qs (init_state op others) /\
  st_groups (n_st (nodes w' (n_nodes w))) = st_groups (init_state op others) /\
  st_win (n_st (nodes w' (n_nodes w))) = st_win (init_state op others).
Proof. exact subscribe_allocates_fresh_node. Qed.
Print Assumptions C14_fresh_node.

(* No request other than an event delivered to one of the node's own upstream observers, one of its own
   handler actions, or its own allocation ever changes a node: in particular no other subscription of the
   same pipeline, no sibling node, no subject, no connectable touches it. *)
Theorem C14_node_state_private :
  forall r w n, addressed w n r = false -> nodes (snd (step r w)) n = nodes w n.
Proof. exact node_private. Qed.
Check C14_node_state_private : forall r w n, addressed w n r = false -> nodes (snd (step r w)) n = nodes w n.
Print Assumptions C14_node_state_private.

(* Non-vacuity: one Observable value (scan over a cold source) subscribed twice; the second subscriber starts
   from scratch although the first left an accumulator behind. *)
Definition c14_example : scenario :=
  {| sc_scripts := [([[Nx (VInt 1); Nx (VInt 2)]; [Nx (VInt 5); Co]], false)]; sc_subjects := []; sc_conns := [];
     sc_defs := [POp (OScan F2Add) (PCold 0) []]; sc_handles := 2;
     sc_script := [DSub 0 (PRef 0) []; DSub 1 (PRef 0) []] |}.
Example C14_example_logs :
  let w := snd (run_scenario 1000 c14_example) in
  ulog (uenc (UTop 0)) (log w) = [Nx (VInt 1); Nx (VInt 3)] /\ ulog (uenc (UTop 1)) (log w) = [Nx (VInt 5); Co].
Proof. vm_compute. split; reflexivity. Qed.
