(* C09 - observe_on hands events to the scheduler: none lost, none reordered.
   Statements only; proofs in Proofs/ObserveOnConc.v.  Model/ConcObserveOn.v composes the posting observer of
   src/operators/observe_on.rs with the queue/worker transition system of C08 (Model/ConcQueue.v) and the task body
   (sink into the subscriber; finalize = abort after a terminal or for a subscriber that has left); `orun acts` is an
   arbitrary interleaving of the emitting thread, the worker (spurious wake-ups included) and an unsubscribing
   thread; the source emits n events, the last one a terminal iff `term`. *)
From Coq Require Import List Bool Arith.
From RX Require Import ConcQueue ConcObserveOn.
From RXP Require Import ObserveOnConc.
Import ListNotations.

(* At every moment the subscriber has received events 0..m-1 of the source - in the source's order, each once - with
   m at most the number emitted; tasks run one at a time on the worker (started = finished ++ running) and every
   posted event is started, discarded by the abort or still queued, in order. *)
Theorem C09_observe_on_prefix :
  forall n term acts,
  let c := orun acts (oinit n term) in
  o_log c = seq 0 (length (o_log c)) /\ length (o_log c) <= o_next c /\ o_next c <= n /\
  q_posted (o_q c) = seq 0 (o_next c) /\
  q_posted (o_q c) = q_started (o_q c) ++ q_discarded (o_q c) ++ q_queue (o_q c) /\
  q_started (o_q c) = q_finished (o_q c) ++ running (q_worker (o_q c)).
Proof. exact observe_on_prefix. Qed.
Check C09_observe_on_prefix :
  forall n term acts,
  let c := orun acts (oinit n term) in
  o_log c = seq 0 (length (o_log c)) /\ length (o_log c) <= o_next c /\ o_next c <= n /\
  q_posted (o_q c) = seq 0 (o_next c) /\
  q_posted (o_q c) = q_started (o_q c) ++ q_discarded (o_q c) ++ q_queue (o_q c) /\
  q_started (o_q c) = q_finished (o_q c) ++ running (q_worker (o_q c)).
Print Assumptions C09_observe_on_prefix.

(* Without an unsubscribe: when nothing can move any more the subscriber has received EVERY event, the terminal
   included and last (the abort only ever comes from the finalize that follows the delivered terminal). *)
Theorem C09_observe_on_complete :
  forall n term acts,
  let c := orun acts (oinit n term) in
  o_unsub c = false -> (forall a, ostep c a = c) -> o_log c = seq 0 n.
Proof. exact observe_on_complete. Qed.
Check C09_observe_on_complete :
  forall n term acts,
  let c := orun acts (oinit n term) in
  o_unsub c = false -> (forall a, ostep c a = c) -> o_log c = seq 0 n.
Print Assumptions C09_observe_on_complete.

(* Once the subscriber is closed - unsubscribe has run, or its terminal was delivered - nothing is delivered any
   more, whatever the source emits and the worker does afterwards. *)
Theorem C09_nothing_after_close :
  forall acts c, o_open c = false -> o_log (orun acts c) = o_log c.
Proof. exact nothing_after_close. Qed.
Check C09_nothing_after_close :
  forall acts c, o_open c = false -> o_log (orun acts c) = o_log c.
Print Assumptions C09_nothing_after_close.
Theorem C09_unsubscribe_closes : forall c, o_open (ostep c OUnsub) = false \/ o_unsub c = true.
Proof. exact unsubscribe_closes. Qed.
Check C09_unsubscribe_closes : forall c, o_open (ostep c OUnsub) = false \/ o_unsub c = true.
Print Assumptions C09_unsubscribe_closes.

(* ------------------------------------------------------------------ subscribe_on *)
(* Model/ConcSubscribeOn.v: subscribing posts ONE task; the source emits its whole script inside that task, on the
   worker thread; finalize aborts the scheduler.  Same three statements: prefix in order at every moment (and nothing
   but the subscription task is ever posted), everything at quiescence without an unsubscribe, nothing after close. *)
From RX Require Import ConcSubscribeOn.
From RXP Require Import SubscribeOnConc.
Theorem C09_subscribe_on_prefix :
  forall n term acts,
  let c := brun acts (binit n term) in
  b_log c = seq 0 (length (b_log c)) /\ length (b_log c) <= b_k c /\ b_k c <= n /\ q_posted (b_q c) = [0].
Proof. exact subscribe_on_prefix. Qed.
Check C09_subscribe_on_prefix :
  forall n term acts,
  let c := brun acts (binit n term) in
  b_log c = seq 0 (length (b_log c)) /\ length (b_log c) <= b_k c /\ b_k c <= n /\ q_posted (b_q c) = [0].
Print Assumptions C09_subscribe_on_prefix.
Theorem C09_subscribe_on_complete :
  forall n term acts,
  let c := brun acts (binit n term) in
  b_unsub c = false -> (forall a, bstep c a = c) -> b_log c = seq 0 n.
Proof. exact subscribe_on_complete. Qed.
Check C09_subscribe_on_complete :
  forall n term acts,
  let c := brun acts (binit n term) in
  b_unsub c = false -> (forall a, bstep c a = c) -> b_log c = seq 0 n.
Print Assumptions C09_subscribe_on_complete.
Theorem C09_subscribe_on_nothing_after_close :
  forall acts c, b_open c = false -> b_log (brun acts c) = b_log c.
Proof. exact subscribe_on_nothing_after_close. Qed.
Check C09_subscribe_on_nothing_after_close :
  forall acts c, b_open c = false -> b_log (brun acts c) = b_log c.
Print Assumptions C09_subscribe_on_nothing_after_close.
Example C09_subscribe_on_example :
  let c := brun [BWorker QCheck; BEmit; BEmit; BEmit; BReturn; BWorker QCheck] (binit 3 true) in
  b_log c = [0; 1; 2] /\ q_worker (b_q c) = WExited.
Proof. vm_compute. split; reflexivity. Qed.

(* Non-vacuity: three events, the worker sleeps, is woken, delivers; the terminal's task aborts the scheduler;
   and a run in which an unsubscribe discards the queued tail. *)
Example C09_example_all :
  let c := orun [OWorker QCheck; OEmit; OWorker QCheck; OEmit; ODeliver; OEmit; OAfter; OWorker QCheck; ODeliver; OAfter;
                 OWorker QCheck; ODeliver; OAfter; OWorker QCheck] (oinit 3 true) in
  o_log c = [0; 1; 2] /\ q_worker (o_q c) = WExited /\ o_unsub c = false.
Proof. vm_compute. repeat split; reflexivity. Qed.
Example C09_example_unsub :
  let c := orun [OEmit; OEmit; OWorker QCheck; ODeliver; OUnsub; OEmit; OAfter; OWorker QCheck] (oinit 3 true) in
  o_log c = [0] /\ q_discarded (o_q c) = [1; 2] /\ q_worker (o_q c) = WExited.
Proof. vm_compute. repeat split; reflexivity. Qed.
