(* C07 - no call into the library blocks forever.  Statements only; proofs in Proofs/LockOrderProofs.v.
   PARTIAL by nature: what Coq decides is the lock-order argument - a system whose threads request locks only in
   increasing order of one measure over lock instances has no deadlocked set of threads, for any number of threads,
   locks, lock modes and interleavings - and the soundness of the executable checker that ./vp applies to the nested
   acquisitions recorded on the real crate under the scheduling runtime.  That the recorded acquisitions are all the
   crate can make, that critical sections terminate, condvar progress (C08) and livelock are decided by exploring
   schedules (statuses deadlock / self-deadlock / step limit) and, sequentially, by the worklist machine's SelfDeadlock
   outcome compared with the implementation (gen/props/C07.py). *)
From Coq Require Import List Bool Arith.
From RX Require Import LockOrder.
From RXP Require Import LockOrderProofs.
Import ListNotations.

Theorem C07_ordered_locks_no_deadlock :
  forall mu ts, (forall t, In t ts -> disciplined mu t) -> forall D, ~ deadlocked ts D.
Proof. exact no_deadlock. Qed.
Check C07_ordered_locks_no_deadlock :
  forall mu ts, (forall t, In t ts -> disciplined mu t) -> forall D, ~ deadlocked ts D.
Print Assumptions C07_ordered_locks_no_deadlock.

Theorem C07_no_self_deadlock :
  forall mu t l, disciplined mu t -> lt_want t = Some l -> ~ In l (lt_held t).
Proof. exact no_self_deadlock. Qed.
Check C07_no_self_deadlock :
  forall mu t l, disciplined mu t -> lt_want t = Some l -> ~ In l (lt_held t).
Print Assumptions C07_no_self_deadlock.

Theorem C07_checker_sound :
  forall bound level up es cls idn ts,
  edges_ok bound level up es = true ->
  (forall t, In t ts -> covered cls idn es t) ->
  forall D, ~ deadlocked ts D.
Proof. exact checker_sound. Qed.
Check C07_checker_sound :
  forall bound level up es cls idn ts,
  edges_ok bound level up es = true ->
  (forall t, In t ts -> covered cls idn es t) ->
  forall D, ~ deadlocked ts D.
Print Assumptions C07_checker_sound.

(* Non-vacuity: the alternating chain observer -> controller -> observer of a pipeline (two classes on one level,
   ordered by creation number) is accepted; an inversion is rejected. *)
Example C07_checker_accepts :
  edges_ok 100 (fun c => if Nat.eqb c 2 then 1 else 0) (fun _ => true)
    [ {| e_hcls := 0; e_hid := 15; e_wcls := 1; e_wid := 17 |}; {| e_hcls := 1; e_hid := 17; e_wcls := 0; e_wid := 23 |};
      {| e_hcls := 0; e_hid := 23; e_wcls := 2; e_wid := 12 |} ] = true.
Proof. reflexivity. Qed.
Example C07_checker_rejects :
  edges_ok 100 (fun _ => 0) (fun _ => true)
    [ {| e_hcls := 0; e_hid := 15; e_wcls := 1; e_wid := 17 |}; {| e_hcls := 1; e_hid := 17; e_wcls := 0; e_wid := 15 |} ] = false.
Proof. reflexivity. Qed.
