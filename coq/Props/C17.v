(* C17 - a finished subscription releases the user's callbacks and items.
   Rust-level meta-argument (trusted, DESIGN 7): a closure lives only in a slot (the callback slots and the
   teardown slot of an Observer, the upstream map and the on_finalize slot of a StreamController, a
   subject's observer map, a scheduler queue, a Subscription); operator state and buffered items are owned
   by the handler closures, which sit in the callback slots of the node's upstream observers.  So what has
   to be shown on the model is that after the end EVERY callback slot of the subscription's tree is empty:
   the subscriber's own (below) and those of every upstream observer (C06).  Statements only. *)
From Coq Require Import List ZArith Bool Arith.
From RX Require Import Val Syntax World Step Oracle Tear.
From RXP Require Import Contract Moves Frozen TearInv.
Import ListNotations.

(* a terminal notification that passes the gate empties all three callback slots at once *)
Theorem C17_terminal_empties_the_slots :
  forall w o e, is_term e = true -> o_e (obs w o) = true ->
  let ob := obs (snd (step (Deliver o e) w)) o in o_n ob = false /\ o_e ob = false /\ o_c ob = false.
Proof.
  intros w o e T E. cbn [step]. rewrite E.
  destruct e as [v | x |]; [discriminate | |]; cbn [is_term andb] in *.
  - destruct (o_tgt (obs w o)) eqn:Tg; try destruct (udec u); try destruct (handler _ _ _ _ _ _ _ _); try destruct (k_kind _);
      cbn; unfold upd; rewrite ?Nat.eqb_refl; cbn; auto.
  - destruct (o_c (obs w o)); cbn [andb].
    + destruct (o_tgt (obs w o)) eqn:Tg; try destruct (udec u); try destruct (handler _ _ _ _ _ _ _ _); try destruct (k_kind _);
        cbn; unfold upd; rewrite ?Nat.eqb_refl; cbn; auto.
    + cbn; unfold upd; rewrite ?Nat.eqb_refl; cbn; auto.
Qed.
Print Assumptions C17_terminal_empties_the_slots.

(* unsubscribe empties them too (first step) and clears the teardown slot (last step) *)
Theorem C17_unsubscribe_empties_the_slots :
  forall w o, is_sub (obs (snd (step (Unsub o) w)) o) = false /\
              fst (step (Unsub o) w) = [AcqL (LTd o) MR; RunTd o; RelL (LTd o) MR; ClearTd o] /\
              (forall w2, o_td (obs (snd (step (ClearTd o) w2)) o) = None).
Proof.
  intros w o. split; [apply unsub_closes |]. split; [reflexivity |].
  intro w2. cbn. unfold upd. now rewrite Nat.eqb_refl.
Qed.
Print Assumptions C17_unsubscribe_empties_the_slots.

(* ... and for EVERY pipeline and continuation they stay empty: the subscriber's callbacks are never
   installed again (Frozen = every observer of that subscriber is closed) *)
Theorem C17_slots_stay_empty :
  forall fuel stk w u, Inv w -> Frozen u w -> Frozen u (snd (run fuel stk w)).
Proof. intros fuel stk w u I F. now destruct (frozen_forever fuel stk w u I F). Qed.
Print Assumptions C17_slots_stay_empty.

(* the upstream side (handler closures, operator state, buffered items): every upstream observer of an
   ended controller is unsubscribed and the controller's map is empty - for the whole catalogue *)
Theorem C17_upstream_slots_empty :
  forall ser s, G ser s -> tn_alive s = false ->
    forall k r u, In (k, (r, u)) (tn_es s) -> u = false /\ r = false.
Proof.
  intros ser s Gs AL k r u H. split; [eapply ended_means_all_upstream_closed; eauto |].
  destruct Gs as [_ Kk _ _]. eapply Kk; eauto.
Qed.
Print Assumptions C17_upstream_slots_empty.
