(* C13 - connectable observables share one source subscription among their subscribers.
   Statements only; proofs in Proofs/ConnKInv.v.  Model/ConnK.v is the automaton of operators/publish.rs,
   ref_count.rs and replay.rs over a hot source; `ck_final kind script` is the state after an ARBITRARY
   call history over {subscribe_i, unsubscribe_i, connect, disconnect, source emits v, source terminal},
   any number of subscribers; c_nsrc = the number of observers the source holds for the connectable
   (= its live source subscriptions).  ./vp compares, after every action of every generated history, the
   implementation's source-observer count and every subscriber's log with this automaton and with the
   reference machine c13_oracle. *)
From Coq Require Import List ZArith Bool Arith.
From RX Require Import Val Syntax Step ConnK.
From RXP Require Import ConnKInv.
Import ListNotations.

(* ref_count never holds more than one source subscription, and holds exactly one while - and only
   while - it has subscribers (connect when the first arrives, disconnect when the last leaves, also after
   the source terminated and new subscribers arrive, also across stale unsubscribe calls). *)
Theorem C13_ref_count_one_source :
  forall script, let s := ck_final CRefCount script in
  c_nsrc s <= 1 /\ (c_nsrc s = 1 <-> c_reg s <> []).
Proof. exact refcount_one_source. Qed.
Check C13_ref_count_one_source :
  forall script, let s := ck_final CRefCount script in
  c_nsrc s <= 1 /\ (c_nsrc s = 1 <-> c_reg s <> []).
Print Assumptions C13_ref_count_one_source.

Theorem C13_replay_one_source : forall script, c_nsrc (ck_final CReplay script) <= 1.
Proof. exact replay_one_source. Qed.
Check C13_replay_one_source : forall script, c_nsrc (ck_final CReplay script) <= 1.
Print Assumptions C13_replay_one_source.

(* publish: one source subscription per live connection, none without connect *)
Theorem C13_publish_sources_are_connections :
  forall script, c_nsrc (ck_final CPublish script) = length (c_conns (ck_final CPublish script)).
Proof. exact publish_sources_are_connections. Qed.
Check C13_publish_sources_are_connections :
  forall script, c_nsrc (ck_final CPublish script) = length (c_conns (ck_final CPublish script)).
Print Assumptions C13_publish_sources_are_connections.

Theorem C13_publish_nothing_before_connect :
  forall script, (forall a, In a script -> match a with DConnect _ _ => False | _ => True end) ->
  c_nsrc (ck_final CPublish script) = 0.
Proof. exact publish_nothing_before_connect. Qed.
Check C13_publish_nothing_before_connect :
  forall script, (forall a, In a script -> match a with DConnect _ _ => False | _ => True end) ->
  c_nsrc (ck_final CPublish script) = 0.
Print Assumptions C13_publish_nothing_before_connect.

(* Non-vacuity: ref_count connects, disconnects, reconnects; replay hands the history to a late subscriber. *)
Definition c13_hist : list action :=
  [DSub 0 (PConn 0) []; DEmit 0 (Nx (VInt 1)); DSub 1 (PConn 0) []; DEmit 0 (Nx (VInt 2)); DUnsub 0; DUnsub 1;
   DEmit 0 (Nx (VInt 3)); DSub 2 (PConn 0) []; DEmit 0 (Nx (VInt 4))].
Example C13_example_refcount :
  map c_nsrc (ck_run CRefCount c13_hist) = [1; 1; 1; 1; 1; 0; 0; 1; 1] /\
  c_clogs (ck_final CRefCount c13_hist) 2 = [Nx (VInt 4)].
Proof. vm_compute. split; reflexivity. Qed.
Example C13_example_replay :
  c_clogs (ck_final CReplay c13_hist) 2 = [Nx (VInt 1); Nx (VInt 2); Nx (VInt 4)] /\
  c_clogs (ck_final CReplay c13_hist) 1 = [Nx (VInt 1); Nx (VInt 2)].
Proof. vm_compute. split; reflexivity. Qed.

(* ------------------------------------------------------------------ what the subscribers see *)
(* Proofs/ConnKRef.v: a simulation between the connectable automaton (Model/ConnK.v, which mirrors ref_count.rs / replay.rs)
   and the reference machine of the definition (Oracle2.cref_step: "connected iff it has subscribers", "a subscriber
   receives what the source emits while it is subscribed", replay: "the whole history, then the live stream or the
   stored terminal"), for EVERY call history over a hot source in which each subscriber handle subscribes at most
   once: same subscriber logs, same registered subscribers, same history, one source subscription iff connected. *)
From RX Require Import Oracle2.
From RXP Require Import ConnKRef.
Theorem C13_ref_count_refines_reference :
  forall script, NoDup (sub_handles script) ->
  let s := fold_left (ck_step CRefCount) script ck0 in
  let r := fold_left (cref_step CRefCount None) script cref0 in
  (forall k, c_clogs s k = q_logs r k) /\ c_reg s = q_reg r /\ c_nsrc s = (if q_conn r then 1 else 0).
Proof. exact ref_count_refines_reference. Qed.
Check C13_ref_count_refines_reference :
  forall script, NoDup (sub_handles script) ->
  let s := fold_left (ck_step CRefCount) script ck0 in
  let r := fold_left (cref_step CRefCount None) script cref0 in
  (forall k, c_clogs s k = q_logs r k) /\ c_reg s = q_reg r /\ c_nsrc s = (if q_conn r then 1 else 0).
Print Assumptions C13_ref_count_refines_reference.

Theorem C13_replay_refines_reference :
  forall script, NoDup (sub_handles script) ->
  let s := fold_left (ck_step CReplay) script ck0 in
  let r := fold_left (cref_step CReplay None) script cref0 in
  (forall k, c_clogs s k = q_logs r k) /\ c_reg s = q_reg r /\ c_items s = q_items r /\ c_term s = q_term r /\
  c_nsrc s = (if q_conn r then 1 else 0).
Proof. exact replay_refines_reference. Qed.
Check C13_replay_refines_reference :
  forall script, NoDup (sub_handles script) ->
  let s := fold_left (ck_step CReplay) script ck0 in
  let r := fold_left (cref_step CReplay None) script cref0 in
  (forall k, c_clogs s k = q_logs r k) /\ c_reg s = q_reg r /\ c_items s = q_items r /\ c_term s = q_term r /\
  c_nsrc s = (if q_conn r then 1 else 0).
Print Assumptions C13_replay_refines_reference.

(* publish: the same for source.publish() - subscribers registered at the inner subject, connect() / the connection's
   unsubscribe - for EVERY call history in which connect() is not called while a connection is live (the reference
   flags that case, q_dbl, and defines nothing for it): every subscriber present sees what the source emits while a
   connection is live; exactly one source subscription while connected, none otherwise. *)
From RXP Require Import ConnKPub.
Theorem C13_publish_refines_reference :
  forall script, NoDup (sub_handles script) ->
  let s := fold_left (ck_step CPublish) script ck0 in
  let r := fold_left (cref_step CPublish None) script cref0 in
  q_dbl r = false ->
  (forall k, c_clogs s k = q_logs r k) /\ c_reg s = q_reg r /\ c_nsrc s = (if q_conn r then 1 else 0).
Proof. exact publish_refines_reference. Qed.
Check C13_publish_refines_reference :
  forall script, NoDup (sub_handles script) ->
  let s := fold_left (ck_step CPublish) script ck0 in
  let r := fold_left (cref_step CPublish None) script cref0 in
  q_dbl r = false ->
  (forall k, c_clogs s k = q_logs r k) /\ c_reg s = q_reg r /\ c_nsrc s = (if q_conn r then 1 else 0).
Print Assumptions C13_publish_refines_reference.

(* non-vacuity: subscribe, emit (nobody connected: lost), connect, emit, second subscriber, emit, disconnect, emit,
   reconnect under another handle, complete *)
Definition c13_publish_script : list action :=
  [DSub 0 (PConn 0) []; DEmit 0 (Nx (VInt 1)); DConnect 0 0; DEmit 0 (Nx (VInt 2)); DSub 1 (PConn 0) []; DEmit 0 (Nx (VInt 3));
   DDisconnect 0; DEmit 0 (Nx (VInt 4)); DConnect 0 1; DEmit 0 (Nx (VInt 5)); DEmit 0 Co].
Example C13_example_publish :
  let r := fold_left (cref_step CPublish None) c13_publish_script cref0 in
  let s := fold_left (ck_step CPublish) c13_publish_script ck0 in
  (q_dbl r, c_clogs s 0, c_clogs s 1) =
  (false, [Nx (VInt 2); Nx (VInt 3); Nx (VInt 5); Co], [Nx (VInt 3); Nx (VInt 5); Co]).
Proof. vm_compute. reflexivity. Qed.
