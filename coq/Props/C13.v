(* C13 - connectable observables share one source subscription among their subscribers.
   Statements only; proofs in Proofs/ConnKInv.v.  Model/ConnK.v is the automaton of operators/publish.rs,
   ref_count.rs and replay.rs over a hot source; `ck_final kind script` is the state after an ARBITRARY
   call history over {subscribe_i, unsubscribe_i, connect, disconnect, source emits v, source terminal},
   any number of subscribers; c_nsrc = the number of observers the source holds for the connectable
   (= its live source subscriptions).  ./vp compares, after every action of every generated history, the
   implementation's source-observer count and every subscriber's log with this automaton and with the
   reference machine c13_oracle. *)
From Coq Require Import List ZArith Bool Arith.
From RX Require Import Val Syntax Step ConnK.
From RXP Require Import ConnKInv.
Import ListNotations.

(* ref_count never holds more than one source subscription, and holds exactly one while - and only
   while - it has subscribers (connect when the first arrives, disconnect when the last leaves, also after
   the source terminated and new subscribers arrive, also across stale unsubscribe calls). *)
Theorem C13_ref_count_one_source :
  forall script, let s := ck_final CRefCount script in
  c_nsrc s <= 1 /\ (c_nsrc s = 1 <-> c_reg s <> []).
Proof. exact refcount_one_source. Qed.
Check C13_ref_count_one_source :
  forall script, let s := ck_final CRefCount script in
  c_nsrc s <= 1 /\ (c_nsrc s = 1 <-> c_reg s <> []).
Print Assumptions C13_ref_count_one_source.

Theorem C13_replay_one_source : forall script, c_nsrc (ck_final CReplay script) <= 1.
Proof. exact replay_one_source. Qed.
Check C13_replay_one_source : forall script, c_nsrc (ck_final CReplay script) <= 1.
Print Assumptions C13_replay_one_source.

(* publish: one source subscription per live connection, none without connect *)
Theorem C13_publish_sources_are_connections :
  forall script, c_nsrc (ck_final CPublish script) = length (c_conns (ck_final CPublish script)).
Proof. exact publish_sources_are_connections. Qed.
Check C13_publish_sources_are_connections :
  forall script, c_nsrc (ck_final CPublish script) = length (c_conns (ck_final CPublish script)).
Print Assumptions C13_publish_sources_are_connections.

Theorem C13_publish_nothing_before_connect :
  forall script, (forall a, In a script -> match a with DConnect _ _ => False | _ => True end) ->
  c_nsrc (ck_final CPublish script) = 0.
Proof. exact publish_nothing_before_connect. Qed.
Check C13_publish_nothing_before_connect :
  forall script, (forall a, In a script -> match a with DConnect _ _ => False | _ => True end) ->
  c_nsrc (ck_final CPublish script) = 0.
Print Assumptions C13_publish_nothing_before_connect.

(* Non-vacuity: ref_count connects, disconnects, reconnects; replay hands the history to a late subscriber. *)
Definition c13_hist : list action :=
  [DSub 0 (PConn 0) []; DEmit 0 (Nx (VInt 1)); DSub 1 (PConn 0) []; DEmit 0 (Nx (VInt 2)); DUnsub 0; DUnsub 1;
   DEmit 0 (Nx (VInt 3)); DSub 2 (PConn 0) []; DEmit 0 (Nx (VInt 4))].
Example C13_example_refcount :
  map c_nsrc (ck_run CRefCount c13_hist) = [1; 1; 1; 1; 1; 0; 0; 1; 1] /\
  c_clogs (ck_final CRefCount c13_hist) 2 = [Nx (VInt 4)].
Proof. vm_compute. split; reflexivity. Qed.
Example C13_example_replay :
  c_clogs (ck_final CReplay c13_hist) 2 = [Nx (VInt 1); Nx (VInt 2); Nx (VInt 4)] /\
  c_clogs (ck_final CReplay c13_hist) 1 = [Nx (VInt 1); Nx (VInt 2)].
Proof. vm_compute. split; reflexivity. Qed.
