(* C12 - subjects used from several threads neither lose, duplicate nor reorder items.
   Statements only; proofs in Proofs/SubjectConc.v.  Model/ConcSubject.v is subjects/subject.rs seen from one
   observer, one step per lock-protected critical section / callback; any number of producer threads with
   arbitrary scripts; a subscribing and an unsubscribing thread; `srun acts` is an arbitrary interleaving. *)
From Coq Require Import List Bool Arith.
From RX Require Import ConcSubject.
From RXP Require Import SubjectConc.
Import ListNotations.

(* Under EVERY interleaving the observer receives from each producer a block of CONSECUTIVE items of that
   producer's script, each once, in order: a gap-free suffix after a concurrent subscribe, a gap-free prefix
   before a concurrent unsubscribe (got p = the indices of p's items received, in the order received). *)
Theorem C12_subject_gap_free :
  forall scripts acts p,
  exists a, got p (s_log (srun acts (sinit scripts))) = seq a (length (got p (s_log (srun acts (sinit scripts))))).
Proof. exact subject_gap_free. Qed.
Check C12_subject_gap_free :
  forall scripts acts p,
  exists a, got p (s_log (srun acts (sinit scripts))) = seq a (length (got p (s_log (srun acts (sinit scripts))))).
Print Assumptions C12_subject_gap_free.

(* An observer subscribed throughout (inserted before the producers run, never unsubscribed) has received, at
   every moment, ALL the items each producer has broadcast so far: indices 0 .. seen-1, each once, in order. *)
Theorem C12_subject_all_items :
  forall scripts acts p, (forall a, In a acts -> a <> SClear) ->
  let c := srun (SJoin :: acts) (sinit scripts) in
  got p (s_log c) = seq 0 (seen (s_prod c p)).
Proof. exact subject_all_items. Qed.
Check C12_subject_all_items :
  forall scripts acts p, (forall a, In a acts -> a <> SClear) ->
  let c := srun (SJoin :: acts) (sinit scripts) in
  got p (s_log c) = seq 0 (seen (s_prod c p)).
Print Assumptions C12_subject_all_items.

(* Non-vacuity: two producers; the observer joins after producer 0's first snapshot and leaves while producer
   1's second item is in flight. *)
Example C12_example :
  let c := srun [SSnap 0; SJoin; SDeliver 0; SFinish 0; SSnap 0; SSnap 1; SDeliver 1; SDeliver 0; SFinish 1; SSnap 1; SClear; SDeliver 1; SRemove; SFinish 0; SSnap 0; SDeliver 0]
                (sinit (fun p => if Nat.eqb p 0 then [10; 11; 12] else [20; 21])) in
  got 0 (s_log c) = [1] /\ got 1 (s_log c) = [0].
Proof. vm_compute. split; reflexivity. Qed.

(* ------------------------------------------------------------------ late subscribers of ReplaySubject / BehaviorSubject *)
(* Model/ConcHist.v: src/subjects/replay_subject.rs and behavior_subject.rs seen from a subscriber j that subscribes
   while any number of producers push; `hrun acts` is an arbitrary interleaving of the producers' three steps
   (record in the history - snapshot of the live observers - j's live callback) with j's subscribe steps. *)
From RX Require Import ConcHist.
From RXP Require Import HistConc.
From RX Require Import ConcClose ConcReplayClose ConcBehaviorClose.
From RXP Require Import CloseConc ReplayCloseConc BehaviorCloseConc.

(* ReplaySubject: once the replay is over j has received positions 0..k-1 of the history in push order followed by
   live items; for every producer not in the middle of a push j has received ALL its items, each exactly once, in
   push order - under every interleaving. *)
Theorem C12_replay_late_subscriber :
  forall scripts acts,
  let c := hrun acts (hinit HReplay 0 scripts) in
  forall k, h_thr c = Some k ->
  (exists L, h_log c = map (entry (h_hist c)) (seq 0 k) ++ L /\ forall p, hgot p L = filter (Nat.leb k) (done c p)) /\
  (forall p, quiet c p = true -> hgot p (h_log c) = posns p (h_hist c)).
Proof. exact replay_late_subscriber. Qed.
Check C12_replay_late_subscriber :
  forall scripts acts,
  let c := hrun acts (hinit HReplay 0 scripts) in
  forall k, h_thr c = Some k ->
  (exists L, h_log c = map (entry (h_hist c)) (seq 0 k) ++ L /\ forall p, hgot p L = filter (Nat.leb k) (done c p)) /\
  (forall p, quiet c p = true -> hgot p (h_log c) = posns p (h_hist c)).
Print Assumptions C12_replay_late_subscriber.

(* BehaviorSubject: j is handed the value at position k-1 (k >= 1) and then receives, for every producer not in the
   middle of a push, exactly its items at the positions >= k: every later value, none twice, in push order. *)
Theorem C12_behavior_late_subscriber :
  forall initial scripts acts,
  let c := hrun acts (hinit HBehavior initial scripts) in
  forall k, h_thr c = Some k ->
  1 <= k <= length (h_hist c) /\
  exists L, h_log c = entry (h_hist c) (k - 1) :: L /\
            (forall p, hgot p L = filter (Nat.leb k) (done c p)) /\
            (forall p, quiet c p = true -> hgot p L = filter (Nat.leb k) (posns p (h_hist c))).
Proof. exact behavior_late_subscriber. Qed.
Check C12_behavior_late_subscriber :
  forall initial scripts acts,
  let c := hrun acts (hinit HBehavior initial scripts) in
  forall k, h_thr c = Some k ->
  1 <= k <= length (h_hist c) /\
  exists L, h_log c = entry (h_hist c) (k - 1) :: L /\
            (forall p, hgot p L = filter (Nat.leb k) (done c p)) /\
            (forall p, quiet c p = true -> hgot p L = filter (Nat.leb k) (posns p (h_hist c))).
Print Assumptions C12_behavior_late_subscriber.

(* the history holds, per producer, exactly the items of its script pushed so far, in script order *)
Theorem C12_history_is_pushed :
  forall m initial scripts acts,
  let c := hrun acts (hinit m initial scripts) in
  forall p, p <> init_tag ->
  vals (h_hist c) (posns p (h_hist c)) = firstn (hp_k (h_prod c p)) (hp_script (h_prod c p)).
Proof. exact history_is_pushed. Qed.
Check C12_history_is_pushed :
  forall m initial scripts acts,
  let c := hrun acts (hinit m initial scripts) in
  forall p, p <> init_tag ->
  vals (h_hist c) (posns p (h_hist c)) = firstn (hp_k (h_prod c p)) (hp_script (h_prod c p)).
Print Assumptions C12_history_is_pushed.

(* Subject::error / complete racing a subscriber (Model/ConcClose.v; one step per critical section): with the observers taken out of
   the map in ONE critical section, under every interleaving a subscriber that has registered by the time the closer is done has
   been handed the terminal XOR is still registered (and so receives what is pushed afterwards) - it is never lost. *)
Theorem C12_close_never_loses_a_subscriber :
  forall acts, let c := clrun acts (clinit true) in
  cl_joined c = true -> cl_done c = true ->
  (cl_notified c = true /\ cl_inmap c = false) \/ (cl_notified c = false /\ cl_inmap c = true).
Proof. exact close_never_loses_a_subscriber. Qed.
Check C12_close_never_loses_a_subscriber :
  forall acts, let c := clrun acts (clinit true) in
  cl_joined c = true -> cl_done c = true ->
  (cl_notified c = true /\ cl_inmap c = false) \/ (cl_notified c = false /\ cl_inmap c = true).
Print Assumptions C12_close_never_loses_a_subscriber.

(* The pinned code took the snapshot and cleared the map in TWO sections (defect D23, repaired): the subscriber registering in
   between was in neither - the interleaving found on the real crate by the check, replayed on the model. *)
(* ... and an item pushed once both are done reaches it exactly when it was not handed the terminal: the terminal or the item. *)
Theorem C12_close_then_push_terminal_xor_item :
  forall acts, let c := clrun acts (clinit true) in
  cl_joined c = true -> cl_done c = true ->
  let c' := clstep c ClPush in
  (cl_notified c' = true /\ cl_got c' = cl_got c) \/ (cl_notified c' = false /\ cl_got c' = true).
Proof. exact close_then_push_terminal_xor_item. Qed.
Check C12_close_then_push_terminal_xor_item :
  forall acts, let c := clrun acts (clinit true) in
  cl_joined c = true -> cl_done c = true ->
  let c' := clstep c ClPush in
  (cl_notified c' = true /\ cl_got c' = cl_got c) \/ (cl_notified c' = false /\ cl_got c' = true).
Print Assumptions C12_close_then_push_terminal_xor_item.

Example C12_known_D23_witness :
  let c := clrun [ClSnap; ClJoin; ClClear; ClNotify; ClPush] (clinit false) in
  cl_joined c = true /\ cl_done c = true /\ cl_notified c = false /\ cl_inmap c = false /\ cl_got c = false.
Proof. exact two_section_close_loses_a_subscriber. Qed.
Example C12_close_example :
  let c := clrun [ClJoin; ClSnap; ClNotify] (clinit true) in cl_joined c = true /\ cl_done c = true /\ cl_notified c = true.
Proof. vm_compute. repeat split. Qed.

(* ReplaySubject::complete / error racing a subscriber (Model/ConcReplayClose.v: the terminal is stored, the live observers are taken
   out in one section and notified; the newcomer registers its forwarder, replays the history and either finds the stored terminal
   or goes live): under every interleaving a newcomer whose subscribe and whose closer have both finished has been handed the
   terminal EXACTLY once - by the replay or live, never by both and never by neither. *)
Theorem C12_replay_close_hands_over_the_terminal_once :
  forall acts, let c := rcrun acts rcinit in
  rc_replayed c = true -> rc_notified c = true ->
  (rc_got_replay c = true /\ rc_got_live c = false) \/ (rc_got_replay c = false /\ rc_got_live c = true).
Proof. exact replay_close_hands_over_the_terminal_once. Qed.
Check C12_replay_close_hands_over_the_terminal_once :
  forall acts, let c := rcrun acts rcinit in
  rc_replayed c = true -> rc_notified c = true ->
  (rc_got_replay c = true /\ rc_got_live c = false) \/ (rc_got_replay c = false /\ rc_got_live c = true).
Print Assumptions C12_replay_close_hands_over_the_terminal_once.
Example C12_replay_close_examples :
  rc_got_live (rcrun [RcJoin; RcReplay; RcFlag; RcDrain; RcNotify] rcinit) = true /\
  rc_got_replay (rcrun [RcFlag; RcJoin; RcDrain; RcNotify; RcReplay] rcinit) = true /\
  rc_got_replay (rcrun [RcFlag; RcDrain; RcNotify; RcJoin; RcReplay] rcinit) = true.
Proof. vm_compute. repeat split. Qed.

(* BehaviorSubject::complete / error racing a subscriber (Model/ConcBehaviorClose.v): the subscriber keeps the guards on the stored
   value / stored error from its check of the stored terminal until it has registered with the live subject - ONE section, which
   excludes the closer's store.  Under every interleaving the newcomer is handed the terminal exactly once. *)
Theorem C12_behavior_close_hands_over_the_terminal_once :
  forall acts, let c := bhrun acts (bhinit true) in
  bh_checked c = true -> bh_notified c = true ->
  (bh_got_stored c = true /\ bh_got_live c = false) \/ (bh_got_stored c = false /\ bh_got_live c = true).
Proof. exact behavior_close_hands_over_the_terminal_once. Qed.
Check C12_behavior_close_hands_over_the_terminal_once :
  forall acts, let c := bhrun acts (bhinit true) in
  bh_checked c = true -> bh_notified c = true ->
  (bh_got_stored c = true /\ bh_got_live c = false) \/ (bh_got_stored c = false /\ bh_got_live c = true).
Print Assumptions C12_behavior_close_hands_over_the_terminal_once.
(* with the guard on the stored error released between the check and the registration the newcomer is lost (the shape of a seeded
   change that the race-e cases report on the implementation) *)
Example C12_behavior_unguarded_witness :
  let c := bhrun [BhCheck; BhFlag; BhDrain; BhNotify; BhJoin] (bhinit false) in
  bh_checked c = true /\ bh_notified c = true /\ bh_joined c = true /\ bh_got_stored c = false /\ bh_got_live c = false.
Proof. exact unguarded_behavior_close_loses_a_subscriber. Qed.
Example C12_behavior_close_examples :
  bh_got_live (bhrun [BhCheck; BhFlag; BhDrain; BhNotify] (bhinit true)) = true /\
  bh_got_stored (bhrun [BhFlag; BhDrain; BhCheck; BhNotify] (bhinit true)) = true.
Proof. vm_compute. split; reflexivity. Qed.

(* Non-vacuity: the item 10 is recorded before j's replay and broadcast after it - the window of the repaired defect
   D15 - and is received once; 11 arrives live. *)
Example C12_replay_example :
  let c := hrun [HAppend 0; JStep; JStep; JStep; JStep; HSnap 0; HDeliver 0; HAppend 0; HSnap 0; HDeliver 0]
                (hinit HReplay 0 (fun p => if Nat.eqb p 0 then [10; 11] else [])) in
  h_thr c = Some 1 /\ map snd (h_log c) = [10; 11] /\ quiet c 0 = true.
Proof. vm_compute. repeat split; reflexivity. Qed.
Example C12_behavior_example :
  let c := hrun [HAppend 0; JStep; JStep; HSnap 0; JStep; HDeliver 0; HAppend 0; HSnap 0; HDeliver 0]
                (hinit HBehavior 7 (fun p => if Nat.eqb p 0 then [10; 11] else [])) in
  h_thr c = Some 2 /\ map snd (h_log c) = [10; 11] /\ quiet c 0 = true.
Proof. vm_compute. repeat split; reflexivity. Qed.
