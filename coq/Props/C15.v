(* C15 - worker threads started for a subscription exit when it ends.
   Statements only; proofs in Proofs/TimerConc.v, Proofs/ObserveOnConc.v, Proofs/QueueInv.v.
   PARTIAL: Coq decides the three thread-owning loops as transition systems - the loop posted by interval / timer
   (Model/ConcTimer.v, also what debounce / timeout arm), the scheduler worker (Model/ConcQueue.v) and observe_on's
   posting/finalize protocol (Model/ConcObserveOn.v) - for every interleaving; that every operator nesting them wires
   its finalize to the scheduler's abort, and the live-thread set at quiescence, are decided on the implementation
   under the scheduling runtime in virtual time (gen/props/C15.py). *)
From Coq Require Import List Bool Arith.
From RX Require Import ConcQueue ConcTimer ConcObserveOn.
From RXP Require Import QueueInv TimerConc ObserveOnConc.
Import ListNotations.

(* interval / timer: whatever happened before, once the subscription has ended the thread exits within six of its own
   steps and sleeps at most once more: it is gone at most one period after the end. *)
Theorem C15_loop_thread_exits :
  forall d once acts,
  let c := irun acts (iinit d once) in
  i_open c = false ->
  q_worker (i_q (run_own 6 c)) = WExited /\ i_clock (run_own 6 c) <= i_clock c + d.
Proof. exact loop_thread_exits. Qed.
Check C15_loop_thread_exits :
  forall d once acts,
  let c := irun acts (iinit d once) in
  i_open c = false ->
  q_worker (i_q (run_own 6 c)) = WExited /\ i_clock (run_own 6 c) <= i_clock c + d.
Print Assumptions C15_loop_thread_exits.

(* observe_on: when nothing can move any more and the subscription has ended - terminal delivered or unsubscribed -
   the scheduler's worker has exited (finalize aborted the queue; the worker saw it). *)
Theorem C15_observe_on_worker_exits :
  forall n term acts,
  let c := orun acts (oinit n term) in
  o_open c = false -> (forall a, ostep c a = c) -> q_worker (o_q c) = WExited.
Proof. exact observe_on_worker_exits. Qed.
Check C15_observe_on_worker_exits :
  forall n term acts,
  let c := orun acts (oinit n term) in
  o_open c = false -> (forall a, ostep c a = c) -> q_worker (o_q c) = WExited.
Print Assumptions C15_observe_on_worker_exits.

(* the worker of any new-thread scheduler: after abort it exits as soon as the task in progress has returned *)
Theorem C15_worker_exits_after_abort :
  forall s, q_abort s = true -> q_worker s <> WWaiting ->
  q_worker (qstep (qstep s QDone) QCheck) = WExited \/ q_worker s = WExited.
Proof. exact worker_exits_after_abort. Qed.
Check C15_worker_exits_after_abort :
  forall s, q_abort s = true -> q_worker s <> WWaiting ->
  q_worker (qstep (qstep s QDone) QCheck) = WExited \/ q_worker s = WExited.
Print Assumptions C15_worker_exits_after_abort.

(* Non-vacuity: interval(10) unsubscribed during its third sleep: gone at clock 30. *)
Example C15_example :
  let c := irun [IWake; ICheck; IEmit; IWake; ICheck; IEmit; IClose] (iinit 10 false) in
  i_open c = false /\ i_clock c = 20 /\ q_worker (i_q (run_own 6 c)) = WExited /\ i_clock (run_own 6 c) = 30 /\ map fst (i_log c) = [0; 1].
Proof. vm_compute. repeat split; reflexivity. Qed.
