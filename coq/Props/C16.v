(* C16 - time-based sources and operators follow the clock.
   Statements only; proofs in Proofs/TimerConc.v.
   PARTIAL: Coq decides the clocked loop of interval(d) / timer(d) (Model/ConcTimer.v: a virtual clock that only the
   sleep advances) for every interleaving with the end of the subscription; delay, timeout, debounce, sample,
   time_interval and timestamp are decided on the implementation in virtual time (gen/props/C16.py) against their
   definitions evaluated on the gap script. *)
From Coq Require Import List Bool Arith.
From RX Require Import ConcQueue ConcTimer.
From RXP Require Import TimerConc.
Import ListNotations.

(* interval(d) delivers ticks 0,1,2,... in order, tick k at clock (k+1)*d - until the subscription ends; timer(d)
   delivers at most one tick, at d. *)
Theorem C16_ticks_follow_clock :
  forall d once acts,
  let c := irun acts (iinit d once) in
  map fst (i_log c) = seq 0 (length (i_log c)) /\ (forall k t, In (k, t) (i_log c) -> t = S k * d) /\
  (once = true -> length (i_log c) <= 1).
Proof. exact ticks_follow_clock. Qed.
Check C16_ticks_follow_clock :
  forall d once acts,
  let c := irun acts (iinit d once) in
  map fst (i_log c) = seq 0 (length (i_log c)) /\ (forall k t, In (k, t) (i_log c) -> t = S k * d) /\
  (once = true -> length (i_log c) <= 1).
Print Assumptions C16_ticks_follow_clock.

Example C16_example :
  let c := irun [IWake; ICheck; IEmit; IWake; ICheck; IEmit; IWake; ICheck; IEmit] (iinit 7 false) in
  i_log c = [(0, 7); (1, 14); (2, 21)].
Proof. vm_compute. reflexivity. Qed.
Example C16_timer_example :
  let c := irun [IWake; ICheck; IEmit; IAbort; IReturn; IWorker] (iinit 7 true) in
  i_log c = [(0, 7)] /\ q_worker (i_q c) = WExited.
Proof. vm_compute. split; reflexivity. Qed.
