(* C16 - time-based sources and operators follow the clock.
   Statements only; proofs in Proofs/TimerConc.v.
   PARTIAL: Coq decides the clocked loop of interval(d) / timer(d) (Model/ConcTimer.v: a virtual clock that only the
   sleep advances) for every interleaving with the end of the subscription; delay, timeout, debounce, sample,
   time_interval and timestamp are decided on the implementation in virtual time (gen/props/C16.py) against their
   definitions evaluated on the gap script. *)
From Coq Require Import List Bool Arith.
From RX Require Import ConcQueue ConcTimer.
From RXP Require Import TimerConc.
Import ListNotations.

(* interval(d) delivers ticks 0,1,2,... in order, tick k at clock (k+1)*d - until the subscription ends; timer(d)
   delivers at most one tick, at d. *)
Theorem C16_ticks_follow_clock :
  forall d once acts,
  let c := irun acts (iinit d once) in
  map fst (i_log c) = seq 0 (length (i_log c)) /\ (forall k t, In (k, t) (i_log c) -> t = S k * d) /\
  (once = true -> length (i_log c) <= 1).
Proof. exact ticks_follow_clock. Qed.
Check C16_ticks_follow_clock :
  forall d once acts,
  let c := irun acts (iinit d once) in
  map fst (i_log c) = seq 0 (length (i_log c)) /\ (forall k t, In (k, t) (i_log c) -> t = S k * d) /\
  (once = true -> length (i_log c) <= 1).
Print Assumptions C16_ticks_follow_clock.

(* ------------------------------------------------------------------ timeout and delay *)
(* Model/ConcTimeout.v: the source thread follows a script of (gap, value, consumer time) and an optional terminal; the
   machine processes "the source's next call" and "the armed deadline" in time order, cancelling / re-arming the deadline
   where timeout.rs does.  For EVERY period, script and ending its (time, event) log is the definition's: items pass
   through at their arrival times; TimedOut exactly d after the sink of the first item followed by a longer silence -
   and never otherwise; nothing afterwards.  spec_timeout / spec_delay are extracted and are the oracle ./vp applies to
   the implementation's (virtual time, event) pairs. *)
From RX Require Import ConcTimeout.
From RXP Require Import TimeoutProofs.
Theorem C16_timeout_follows_clock :
  forall d script en fuel, length script + 2 <= fuel ->
  x_log (xrun d fuel (xinit script en)) = spec_timeout d 0 false script en.
Proof. exact timeout_follows_clock. Qed.
Check C16_timeout_follows_clock :
  forall d script en fuel, length script + 2 <= fuel ->
  x_log (xrun d fuel (xinit script en)) = spec_timeout d 0 false script en.
Print Assumptions C16_timeout_follows_clock.

(* delay(d): every item is handed on exactly d after its next() began, in the source's order *)
Theorem C16_delay_by_d :
  forall d script ret,
  Forall (fun x : nat * nat * nat => snd (fst x) = fst (fst x) + d) (spec_delay d ret script) /\
  map snd (spec_delay d ret script) = map x_val script.
Proof. exact delay_by_d. Qed.
Check C16_delay_by_d :
  forall d script ret,
  Forall (fun x : nat * nat * nat => snd (fst x) = fst (fst x) + d) (spec_delay d ret script) /\
  map snd (spec_delay d ret script) = map x_val script.
Print Assumptions C16_delay_by_d.

Example C16_timeout_example :
  spec_timeout 10 0 false [ {| x_gap := 3; x_val := 1; x_busy := 0 |}; {| x_gap := 9; x_val := 2; x_busy := 4 |}; {| x_gap := 12; x_val := 3; x_busy := 0 |} ] (Some (1, false))
  = [(3, XItem 1); (12, XItem 2); (26, XTimeout)].
Proof. reflexivity. Qed.

Example C16_example :
  let c := irun [IWake; ICheck; IEmit; IWake; ICheck; IEmit; IWake; ICheck; IEmit] (iinit 7 false) in
  i_log c = [(0, 7); (1, 14); (2, 21)].
Proof. vm_compute. reflexivity. Qed.
Example C16_timer_example :
  let c := irun [IWake; ICheck; IEmit; IAbort; IReturn; IWorker] (iinit 7 true) in
  i_log c = [(0, 7)] /\ q_worker (i_q c) = WExited.
Proof. vm_compute. split; reflexivity. Qed.

(* sample and debounce: a one-place slot between the source and ONE consuming thread (sample: the trigger's thread; debounce:
   its worker).  For EVERY interleaving of the source's stores with the consumer's take-and-deliver steps the subscriber
   receives only items the source has emitted, in source order, none twice (strictly increasing script positions). *)
From RX Require Import ConcSlot.
From RXP Require Import SlotConc.
Theorem C16_sample_debounce_in_order_once :
  forall acts, strictly_increasing (l_out (lrun acts)) = true /\ forall i, In i (l_out (lrun acts)) -> i < l_next (lrun acts).
Proof. exact slot_delivers_in_order_once. Qed.
Check C16_sample_debounce_in_order_once :
  forall acts, strictly_increasing (l_out (lrun acts)) = true /\ forall i, In i (l_out (lrun acts)) -> i < l_next (lrun acts).
Print Assumptions C16_sample_debounce_in_order_once.
(* non-vacuity: items 0 and 2 are handed on, item 1 is overwritten, item 3 is still pending *)
Example C16_slot_example :
  let s := lrun [LPut; LTake; LPut; LDeliver; LPut; LTake; LDeliver; LPut; LTake] in
  (l_out s, l_hand s, l_next s) = ([0; 2], Some 3, 4).
Proof. vm_compute. reflexivity. Qed.
