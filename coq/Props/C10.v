(* C10 - subjects multicast to exactly the current observers; late joiners get history.
   Statements only; proofs in Proofs/SubjKRef.v.  `sk_run` is the K-automaton of subjects/*.rs
   (Model/SubjK.v), `sref_step` the naive reference machine the oracle c10_oracle applies to the
   implementation (Model/Oracle2.v).  ./vp ties implementation = Step = SubjK on every history run. *)
From Coq Require Import List ZArith Bool Arith.
From RX Require Import Val Syntax Step Oracle Oracle2 SubjK.
From RX Require Import World.
From RXP Require Import SubjKRef SubjKReplay SubjKBehavior SubjKAsync OpenUntil SubjQuiet.
Import ListNotations.

(* Plain Subject, EVERY call history (any number of observers, each subscribing once; any values; any
   order and number of next/error/complete/unsubscribe calls, also after the terminal, also repeated):
   each observer's log is exactly the events issued while it was registered, once each, in call order,
   and after every history the observer map holds exactly the registered observers (none after a
   terminal, never an unsubscribed one). *)
Theorem C10_subject_refines_reference :
  forall script, plain_history script = true -> NoDup (sub_handles script) ->
  let s := sk_run KSubject None script in
  let r := fold_left (sref_step KSubject) script (sref0 None) in
  (forall k, sk_logs s k = r_logs r k) /\ map snd (sk_obs s) = r_reg r.
Proof. exact subject_refines_reference. Qed.
Check C10_subject_refines_reference :
  forall script, plain_history script = true -> NoDup (sub_handles script) ->
  let s := sk_run KSubject None script in
  let r := fold_left (sref_step KSubject) script (sref0 None) in
  (forall k, sk_logs s k = r_logs r k) /\ map snd (sk_obs s) = r_reg r.
Print Assumptions C10_subject_refines_reference.

(* ReplaySubject: after ANY history the replay buffer is every item ever pushed, in push order
   (subscriptions, unsubscriptions and deliveries never touch it). *)
Theorem C10_replay_history_complete :
  forall script, sk_items (sk_run KReplay None script) = pushed script.
Proof. exact replay_items_are_pushed. Qed.
Check C10_replay_history_complete : forall script, sk_items (sk_run KReplay None script) = pushed script.
Print Assumptions C10_replay_history_complete.

(* ReplaySubject, EVERY call history that does not use the subject after its own terminal (any number of observers,
   each subscribing once; subscriptions after the terminal, repeated unsubscription): every observer's log is exactly
   the reference machine's - the whole history so far in order, then the stored terminal or the live stream, each item
   once - and the inner Subject holds exactly the registered observers (none after a terminal). *)
Theorem C10_replay_refines_reference :
  forall script, plain_history script = true -> NoDup (sub_handles script) -> emits_after_terminal false script = false ->
  let s := sk_run KReplay None script in
  let r := fold_left (sref_step KReplay) script (sref0 None) in
  (forall k, sk_logs s k = r_logs r k) /\ map snd (sk_obs s) = r_reg r /\ sk_items s = r_items r /\ r_term r = stored_term s.
Proof. exact replay_refines_reference. Qed.
Check C10_replay_refines_reference :
  forall script, plain_history script = true -> NoDup (sub_handles script) -> emits_after_terminal false script = false ->
  let s := sk_run KReplay None script in
  let r := fold_left (sref_step KReplay) script (sref0 None) in
  (forall k, sk_logs s k = r_logs r k) /\ map snd (sk_obs s) = r_reg r /\ sk_items s = r_items r /\ r_term r = stored_term s.
Print Assumptions C10_replay_refines_reference.

(* BehaviorSubject, every initial value, EVERY call history that does not use the subject after its own terminal: every
   observer's log is exactly the reference machine's - the latest value (the initial one if nothing was pushed) or the
   stored terminal first, then the live stream - and the inner Subject holds exactly the registered observers. *)
Theorem C10_behavior_refines_reference :
  forall init script, plain_history script = true -> NoDup (sub_handles script) -> emits_after_terminal false script = false ->
  let s := sk_run KBehavior (Some init) script in
  let r := fold_left (sref_step KBehavior) script (sref0 (Some init)) in
  (forall k, sk_logs s k = r_logs r k) /\ map snd (sk_obs s) = r_reg r /\ r_term r = stored_term_b s.
Proof. exact behavior_refines_reference. Qed.
Check C10_behavior_refines_reference :
  forall init script, plain_history script = true -> NoDup (sub_handles script) -> emits_after_terminal false script = false ->
  let s := sk_run KBehavior (Some init) script in
  let r := fold_left (sref_step KBehavior) script (sref0 (Some init)) in
  (forall k, sk_logs s k = r_logs r k) /\ map snd (sk_obs s) = r_reg r /\ r_term r = stored_term_b s.
Print Assumptions C10_behavior_refines_reference.

(* AsyncSubject (= subject.observable().take_last(1)), EVERY call history - use after the terminal included, an
   AsyncSubject keeps no memory of it: nothing is delivered until the subject completes; then every registered observer
   gets the last item pushed since it joined, then complete; on error the error alone. *)
Theorem C10_async_refines_reference :
  forall script, plain_history script = true -> NoDup (sub_handles script) ->
  let s := sk_run KAsync None script in
  let r := fold_left (sref_step KAsync) script (sref0 None) in
  (forall k, sk_logs s k = r_logs r k) /\ map snd (sk_obs s) = r_reg r.
Proof. exact async_refines_reference. Qed.
Check C10_async_refines_reference :
  forall script, plain_history script = true -> NoDup (sub_handles script) ->
  let s := sk_run KAsync None script in
  let r := fold_left (sref_step KAsync) script (sref0 None) in
  (forall k, sk_logs s k = r_logs r k) /\ map snd (sk_obs s) = r_reg r.
Print Assumptions C10_async_refines_reference.

(* BehaviorSubject: after ANY history without a terminal the cell handed to a new subscriber holds the
   latest value pushed (the initial one if none). *)
Theorem C10_behavior_latest :
  forall init script, first_terminal script = None ->
  let s := sk_run KBehavior (Some init) script in
  sk_last s = Some (last (pushed script) init) /\ sk_err s = None.
Proof. exact behavior_last_is_latest. Qed.
Check C10_behavior_latest :
  forall init script, first_terminal script = None ->
  let s := sk_run KBehavior (Some init) script in
  sk_last s = Some (last (pushed script) init) /\ sk_err s = None.
Print Assumptions C10_behavior_latest.

(* On the worklist machine itself (every request kind, every pipeline, every run, re-entrant callbacks included): the observer
   list of a subject grows only by subscribing ... *)
Theorem C10_members_only_by_subscribing :
  forall fuel stk w h p,
  In p (sj_obs (subjs (snd (run fuel stk w)) h)) ->
  In p (sj_obs (subjs w h)) \/ exists o, In (SubjJoin h o) (run_reqs fuel stk w).
Proof. exact members_only_by_join. Qed.
Check C10_members_only_by_subscribing :
  forall fuel stk w h p,
  In p (sj_obs (subjs (snd (run fuel stk w)) h)) ->
  In p (sj_obs (subjs w h)) \/ exists o, In (SubjJoin h o) (run_reqs fuel stk w).
Print Assumptions C10_members_only_by_subscribing.

(* ... and a terminal broadcast takes its snapshot and empties the list in one step, BEFORE the first notification runs: whatever
   runs afterwards - the pending notifications, the callbacks they trigger, pushes nested in them - a later broadcast on that
   subject reaches nobody until somebody has subscribed again. *)
Theorem C10_nothing_after_terminal_until_resubscription :
  forall h e w fuel stk e', is_term e = true ->
  let w1 := snd (step (Broadcast h e) w) in
  (forall o, ~ In (SubjJoin h o) (run_reqs fuel stk w1)) ->
  fst (step (Broadcast h e') (snd (run fuel stk w1))) = [].
Proof. exact nothing_after_terminal_until_resubscription. Qed.
Check C10_nothing_after_terminal_until_resubscription :
  forall h e w fuel stk e', is_term e = true ->
  let w1 := snd (step (Broadcast h e) w) in
  (forall o, ~ In (SubjJoin h o) (run_reqs fuel stk w1)) ->
  fst (step (Broadcast h e') (snd (run fuel stk w1))) = [].
Print Assumptions C10_nothing_after_terminal_until_resubscription.

(* an instance: both subscribers of a plain subject answer their completion by pushing 7 into the subject; each of them ends
   with exactly [1; complete] - the 7s, pushed while the notification goes round, reach nobody *)
Definition c10_feedback : scenario :=
  {| sc_scripts := []; sc_subjects := [(KSubject, None)]; sc_conns := []; sc_defs := []; sc_handles := 2;
     sc_script := [DSub 0 (PHot 0) [(1, REmit 0 (Nx (VInt 7)))]; DSub 1 (PHot 0) [(1, REmit 0 (Nx (VInt 7)))];
                   DEmit 0 (Nx (VInt 1)); DEmit 0 Co] |}.
Example C10_example_feedback_in_terminal :
  let w := snd (run_scenario 1000 c10_feedback) in
  ulog (uenc (UTop 0)) (log w) = [Nx (VInt 1); Co] /\ ulog (uenc (UTop 1)) (log w) = [Nx (VInt 1); Co].
Proof. vm_compute. split; reflexivity. Qed.

(* Non-vacuity / hand-over examples on the automaton (three observers, late joiners, every kind). *)
Definition c10_hist : list action :=
  [DSub 0 (PHot 0) []; DEmit 0 (Nx (VInt 1)); DSub 1 (PHot 0) []; DEmit 0 (Nx (VInt 2)); DUnsub 0; DEmit 0 (Nx (VInt 3));
   DEmit 0 Co; DSub 2 (PHot 0) []; DUnsub 1; DUnsub 1].
Example C10_example_subject :
  let s := sk_run KSubject None c10_hist in
  sk_logs s 0 = [Nx (VInt 1); Nx (VInt 2)] /\ sk_logs s 1 = [Nx (VInt 2); Nx (VInt 3); Co] /\ sk_logs s 2 = [] /\ length (sk_obs s) = 1.
Proof. vm_compute. repeat split. Qed.
Example C10_example_replay :
  let s := sk_run KReplay None c10_hist in
  sk_logs s 1 = [Nx (VInt 1); Nx (VInt 2); Nx (VInt 3); Co] /\ sk_logs s 2 = [Nx (VInt 1); Nx (VInt 2); Nx (VInt 3); Co] /\ sk_obs s = [].
Proof. vm_compute. repeat split. Qed.
Example C10_example_behavior :
  let s := sk_run KBehavior (Some (VInt 0)) c10_hist in
  sk_logs s 0 = [Nx (VInt 0); Nx (VInt 1); Nx (VInt 2)] /\ sk_logs s 1 = [Nx (VInt 1); Nx (VInt 2); Nx (VInt 3); Co] /\ sk_logs s 2 = [Co].
Proof. vm_compute. repeat split. Qed.
Example C10_example_async :
  let s := sk_run KAsync None c10_hist in
  sk_logs s 0 = [] /\ sk_logs s 1 = [Nx (VInt 3); Co] /\ sk_logs s 2 = [] /\ sk_obs s = [(3, 2)].
Proof. vm_compute. repeat split. Qed.

(* the hypotheses of C10_replay_refines_reference are met by c10_hist *)
Example C10_example_replay_hypotheses :
  plain_history c10_hist = true /\ emits_after_terminal false c10_hist = false /\ sub_handles c10_hist = [0; 1; 2].
Proof. vm_compute. repeat split. Qed.
