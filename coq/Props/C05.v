(* C05 - unsubscribe stops delivery, is idempotent, and is reflected by is_subscribed.
   Statements only; proofs in Proofs/Frozen.v (sequential machine, every pipeline) and Proofs/GateInv.v
   (any number of threads, every interleaving). *)
From Coq Require Import List ZArith Bool Arith.
From RX Require Import Val Syntax World Step Oracle ConcGate.
From RXP Require Import Contract Moves Frozen OpenUntil UnsubOrigin GateInv.
Import ListNotations.

(* Observer::unsubscribe empties the callback slots in its very first step (before any teardown runs). *)
Theorem C05_unsubscribe_closes : forall w o, is_sub (obs (snd (step (Unsub o) w)) o) = false.
Proof. exact unsub_closes. Qed.
Check C05_unsubscribe_closes : forall w o, is_sub (obs (snd (step (Unsub o) w)) o) = false.
Print Assumptions C05_unsubscribe_closes.

(* EVERY pipeline, EVERY position: once a subscriber's observer is closed (by unsubscribe at any point of any
   script, by its own callback, or by a terminal), whatever requests are still pending or arrive later - in any
   world reachable from any scenario, for any fuel - nothing is added to that subscriber's log and
   is_subscribed stays false. *)
Theorem C05_nothing_after_unsubscribe :
  forall fuel stk w u, Inv w -> Frozen u w ->
    ulog u (log (snd (run fuel stk w))) = ulog u (log w) /\ Frozen u (snd (run fuel stk w)).
Proof. exact frozen_forever. Qed.
Check C05_nothing_after_unsubscribe :
  forall fuel stk w u, Inv w -> Frozen u w ->
    ulog u (log (snd (run fuel stk w))) = ulog u (log w) /\ Frozen u (snd (run fuel stk w)).
Print Assumptions C05_nothing_after_unsubscribe.

(* ... and unsubscribe of a user's own observer establishes exactly that hypothesis. *)
Theorem C05_unsubscribe_freezes :
  forall w o u, Inv w -> o_tgt (obs w o) = TUser u -> Frozen u (snd (step (Unsub o) w)).
Proof. exact unsub_freezes. Qed.
Check C05_unsubscribe_freezes :
  forall w o u, Inv w -> o_tgt (obs w o) = TUser u -> Frozen u (snd (step (Unsub o) w)).
Print Assumptions C05_unsubscribe_freezes.

(* The other direction - is_subscribed() is true UNTIL the first terminal or unsubscribe.  EVERY pipeline, every
   world meeting the invariant, every pending-request stack, every fuel: if a subscriber's observer is subscribed
   at some point of a run and no longer subscribed at a later one, then in between the machine executed
   Observer::unsubscribe on that very observer, or the subscriber received a terminal notification (which is then
   in its log).  No other step of the machine touches the slots of an existing observer (OpenUntil.step_K). *)
Theorem C05_subscribed_until_terminal_or_unsubscribe :
  forall fuel stk w o u,
    Inv w -> o < n_obs w -> o_tgt (obs w o) = TUser u ->
    is_sub (obs w o) = true -> is_sub (obs (snd (run fuel stk w)) o) = false ->
    In (Unsub o) (run_reqs fuel stk w) \/ has_term (ulog u (log (snd (run fuel stk w)))) = true.
Proof. exact open_until_user. Qed.
Check C05_subscribed_until_terminal_or_unsubscribe :
  forall fuel stk w o u,
    Inv w -> o < n_obs w -> o_tgt (obs w o) = TUser u ->
    is_sub (obs w o) = true -> is_sub (obs (snd (run fuel stk w)) o) = false ->
    In (Unsub o) (run_reqs fuel stk w) \/ has_term (ulog u (log (snd (run fuel stk w)))) = true.
Print Assumptions C05_subscribed_until_terminal_or_unsubscribe.

(* ... and Observer::unsubscribe on an observer is requested only by Subscription::unsubscribe on a live
   subscription of it (the user's handle, a Using guard, a connection slot, a subject's cell) or by the
   StreamController it belongs to (upstream_abort_observe / finalize for a registered upstream observer;
   finalize for its subscriber, only while that one is still subscribed).
   PARTIAL with respect to the property's sentence: that finalize() never reaches a subscriber which has received
   no terminal is an operator-by-operator fact (take's finalize follows its sink_complete) that is not proved here;
   the oracle judges it on implementation snapshots after every driver action. *)
Theorem C05_unsubscribe_requests_come_from_partial :
  forall r w o, In (Unsub o) (fst (step r w)) -> unsub_source r w o.
Proof. exact unsub_origin. Qed.
Check C05_unsubscribe_requests_come_from_partial :
  forall r w o, In (Unsub o) (fst (step r w)) -> unsub_source r w o.
Print Assumptions C05_unsubscribe_requests_come_from_partial.

(* Idempotence: a second Subscription::unsubscribe does nothing; a call on a closed observer is a no-op. *)
Theorem C05_unsubscribe_idempotent :
  forall w s, (sb_live (subs w s) = false -> step (SubUnsub s) w = ([], w)) /\
              (sb_live (subs w s) = true -> sb_live (subs (snd (step (SubUnsub s) w)) s) = false).
Proof. intros w s. split; [apply subscription_unsubscribe_again | intro L; now destruct (subscription_unsubscribe_once w s L)]. Qed.
Print Assumptions C05_unsubscribe_idempotent.
Theorem C05_closed_delivery_noop :
  forall w o e, Inv w -> is_sub (obs w o) = false -> step (Deliver o e) w = ([], w).
Proof. exact closed_delivery_noop. Qed.
Print Assumptions C05_closed_delivery_noop.

(* Sources and subscribers on different threads, ALL interleavings, any number of threads: no callback
   starts for a call that began after an unsubscribe call (or a terminal callback) had returned. *)
Theorem C05_concurrent_nothing_after_unsubscribe_returned :
  forall (progs : nat -> list gcall) (sched : list nat),
    forallb (fun e => negb (is_late_start e)) (g_trace (grun sched (ginit progs))) = true.
Proof. exact gate_nothing_after_terminal_returned. Qed.
Check C05_concurrent_nothing_after_unsubscribe_returned :
  forall (progs : nat -> list gcall) (sched : list nat),
    forallb (fun e => negb (is_late_start e)) (g_trace (grun sched (ginit progs))) = true.
Print Assumptions C05_concurrent_nothing_after_unsubscribe_returned.

(* Non-vacuity: a hand-driven source that never looks at is_subscribed keeps emitting after the driver
   unsubscribed; a take(2) in between; the subscriber's log stops at the unsubscribe. *)
Definition c05_example : scenario :=
  {| sc_scripts := []; sc_subjects := []; sc_conns := []; sc_defs := []; sc_handles := 1;
     sc_script := [DSub 0 (POp (OMap (FAdd 1)) (PManual 0) []) []; DPush 0 (Nx (VInt 1)); DUnsub 0; DPush 0 (Nx (VInt 2)); DPush 0 (Er 4)] |}.
Example C05_example_log :
  ulog (uenc (UTop 0)) (log (snd (run_scenario 1000 c05_example))) = [Nx (VInt 2)].
Proof. vm_compute. reflexivity. Qed.

(* ... and in that run the subscriber ends unsubscribed without a terminal in its log: the first disjunct of
   C05_subscribed_until_terminal_or_unsubscribe is the one that holds (the hypotheses are met by a real run). *)
Example C05_example_closed_by_unsubscribe :
  let w := snd (run_scenario 1000 c05_example) in
  match handles w 0 with
  | Some (o, _) => (is_sub (obs w o), has_term (ulog (uenc (UTop 0)) (log w)),
                    existsb (fun r => match r with Unsub o' => Nat.eqb o' o | _ => false end)
                            (run_reqs 1000 (map Drv (sc_script c05_example)) (init_world c05_example)))
  | None => (true, true, false)
  end = (false, false, true).
Proof. vm_compute. reflexivity. Qed.
