(* C04 - errors travel unchanged and recovery operators resubscribe as specified.
   Statements only; proofs in Proofs/RetryProofs.v (and C02/C03 for the operator definitions, whose
   inputs include the erroring ending `Fails e`: C02_operator_correct / C02_composition / C03_* say where the
   error arrives and what precedes it). *)
From Coq Require Import List ZArith Bool Arith.
From RX Require Import Val Syntax Step Spec RetryLoc.
From RXP Require Import RetryProofs.
Import ListNotations.

(* Every operator that is not an error handler - in every state, on every port that is not a trigger -
   answers an upstream error with (side effects on its own window / group subjects or its tap only and)
   exactly one sink_error carrying the SAME payload, as its last action. *)
Theorem C04_error_passthrough :
  forall op src others st port ser fresh x, error_handler op port = false ->
  exists pre, snd (handler op src others st port ser fresh (Er x)) = pre ++ [SinkError x] /\ forallb quiet pre = true.
Proof. exact error_passthrough. Qed.
Check C04_error_passthrough :
  forall op src others st port ser fresh x, error_handler op port = false ->
  exists pre, snd (handler op src others st port ser fresh (Er x)) = pre ++ [SinkError x] /\ forallb quiet pre = true.
Print Assumptions C04_error_passthrough.

(* retry(n): for EVERY list of attempts (each a finite item list ending in complete / error / silence), the
   handler table forwards the items of the attempts 1..m in order and ends with attempt m's terminal, where m
   is the first attempt that does not fail, capped at n subscriptions in total (n = 0: no cap); the second
   component is the number of subscriptions made. *)
Theorem C04_retry :
  forall n attempts, retry_run n (map events attempts) = spec_retry n attempts.
Proof. exact retry_spec. Qed.
Check C04_retry : forall n attempts, retry_run n (map events attempts) = spec_retry n attempts.
Print Assumptions C04_retry.

Theorem C04_retry_when :
  forall p attempts, retry_when_run p (map events attempts) = spec_retry_when p attempts.
Proof. intros p attempts. unfold retry_when_run, spec_retry_when. apply retry_when_correct. Qed.
Check C04_retry_when : forall p attempts, retry_when_run p (map events attempts) = spec_retry_when p attempts.
Print Assumptions C04_retry_when.

(* materialize turns the terminal into a value and dematerialize inverts it *)
Theorem C04_dematerialize_materialize : forall i, spec_op ODematerialize (spec_op OMaterialize i) = i.
Proof. exact dematerialize_materialize. Qed.
Check C04_dematerialize_materialize : forall i, spec_op ODematerialize (spec_op OMaterialize i) = i.
Print Assumptions C04_dematerialize_materialize.

(* Non-vacuity: retry(3) over fail, fail, complete makes three subscriptions; retry(2) gives up after two. *)
Example C04_example :
  retry_run 3 (map events [([VInt 1], Fails 5); ([VInt 2], Fails 6); ([VInt 3], Completes)]) = ([Nx (VInt 1); Nx (VInt 2); Nx (VInt 3); Co], 3) /\
  retry_run 2 (map events [([VInt 1], Fails 5); ([VInt 2], Fails 6); ([VInt 3], Completes)]) = ([Nx (VInt 1); Nx (VInt 2); Er 6], 2) /\
  retry_run 1 (map events [([VInt 1], Fails 5); ([VInt 2], Completes)]) = ([Nx (VInt 1); Er 5], 1).
Proof. vm_compute. repeat split. Qed.

(* on_error_resume_next resubscribes exactly once, to the observable chosen for the error, and an error of that one is final
   (the same statement as C03_on_error_resume_next, over every sequential interleaving of the two sources) *)
From RX Require Import MLoc.
From RXP Require Import MLocDyn.
Theorem C04_on_error_resume_next : forall k l, mrun_first OResume k l = spec_resume 0 l.
Proof. exact resume_correct. Qed.
Check C04_on_error_resume_next : forall k l, mrun_first OResume k l = spec_resume 0 l.
Print Assumptions C04_on_error_resume_next.
